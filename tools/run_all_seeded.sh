#!/usr/bin/env bash
# tools/run_all_seeded.sh [id ...] — runs every seeded/<id>/patch.diff against the check of its property
# (quick tier, scratch worktree, never /repo itself). C07-2B is a change of C07's wire format whose
# observable effect is on C15's territory as well, so both are run for it.
HERE="$(cd "$(dirname "${BASH_SOURCE[0]}")/.." && pwd)"
cd "$HERE"
IDS="${*:-$(ls seeded | grep -E '^C[0-9]+-')}"
for id in $IDS; do
  P="${id%%-*}"
  [ "$id" = "C07-2B" ] && P="C07,C15"
  [ "$id" = "C07-5A" ] && P="C07,C20"
  [ "$id" = "C07-7A" ] && P="C07,C15"
  [ "$id" = "C01-7A" ] && P="C01,C02"
  [ "$id" = "C01-7B" ] && P="C01,C02"
  [ "$id" = "C14-7A" ] && P="C14,C05"
  [ "$id" = "C03-7B" ] && P="C03,C05"
  out="$(tools/run_mutant.sh "seeded/$id/patch.diff" "$P" quick 2>&1)"
  if echo "$out" | grep -q '^KILLED'; then echo "$id $(echo "$out" | grep '^KILLED' | head -1 | cut -c1-200)"; else echo "$id $(echo "$out" | tail -1 | cut -c1-200)"; fi
done
