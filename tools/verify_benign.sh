#!/usr/bin/env bash
# [TAG=benign2] tools/verify_benign.sh <Cxx> <A|B> [extra properties, comma separated]
# Confirms a behaviour-preserving change delivered by an independent sub-agent in /tmp/benign-<Cxx>-out/<A|B>:
#   1. its demonstration passes on the unmodified worktree /tmp/benign-<Cxx>
#   2. with the patch only the test `incidental_difference` fails (the property tests keep passing)
#   3. the existing test suite passes with the patch
#   4. ./check <Cxx> quick (and extras) against the patched worktree must stay silent (exit 0)
# and stores patch, demo and meta.json under /verif/benign/<Cxx>-<A|B>/.
set -u
HERE="$(cd "$(dirname "${BASH_SOURCE[0]}")/.." && pwd)"
P="$1"; V="$2"; EXTRA="${3:-}"
TAG="${TAG:-benign}"; R="${TAG#benign}"; WT="/tmp/$TAG-$P"; OUT="/tmp/$TAG-$P-out/$V"
lower="$(echo "$P" | tr 'A-Z' 'a-z')_$(echo "$V" | tr 'A-Z' 'a-z')"
T="${TAG}_demo_$lower"; DEMO="$WT/rust/ommx/tests/$T.rs"
cd "$WT" || exit 2
git checkout -q -- . ; git clean -qfd -e .verif-build -e target; git checkout -q --detach "$(git -C /repo rev-parse HEAD)" 2>/dev/null
mkdir -p "$WT/rust/ommx/tests"; cp "$OUT/demo.rs" "$DEMO"
res_plain="$(cargo test -p ommx --offline --test "$T" 2>&1 | grep -E '^test result' | tail -1)"
if ! git apply "$OUT/patch.diff"; then echo "BENIGN $P-$V: patch does not apply"; exit 3; fi
out_patched="$(cargo test -p ommx --offline --test "$T" 2>&1)"
res_patched="$(printf '%s\n' "$out_patched" | grep -E '^test result|error(\[|:)' | tail -1)"
failed="$(printf '%s\n' "$out_patched" | grep -E '^test .* FAILED' | sed 's/^test //; s/ \.\.\. FAILED//' | tr '\n' ' ')"
rm -f "$DEMO"; rmdir "$WT/rust/ommx/tests" 2>/dev/null
suite="$(cargo nextest run --workspace --no-fail-fast --offline 2>&1 | grep -E 'Summary|error(\[|:)' | tail -1)"
declare -A det
for C in $P ${EXTRA//,/ }; do
  out="$(VERIF_REPO="$WT" VERIF_SEED="${VERIF_SEED:-1}" "$HERE/check" "$C" quick 2>&1)"; rc=$?
  sigs="$(printf '%s\n' "$out" | grep -E '^  signature:' | sed 's/^  signature: //' | tr '\n' ';')"
  det[$C]="rc=$rc $sigs"
done
git checkout -q -- . ; git clean -qfd -e .verif-build -e target
D="$HERE/benign/$P-${R}$V"; mkdir -p "$D"
cp "$OUT/patch.diff" "$D/patch.diff"; cp "$OUT/demo.rs" "$D/demo.rs"
detjson="{"; first=1
for C in "${!det[@]}"; do [ $first = 1 ] || detjson+=","; first=0; detjson+="\"$C\": $(printf '%s' "${det[$C]}" | python3 -c 'import json,sys; print(json.dumps(sys.stdin.read()))')"; done; detjson+="}"
python3 - "$OUT/meta.json" "$D/meta.json" "$res_plain" "$res_patched" "$failed" "$suite" "$detjson" <<'PY'
import json,sys
src,dst,plain,patched,failed,suite,det=sys.argv[1:8]
try: m=json.load(open(src))
except Exception as e: m={"agent_meta_unreadable":str(e)}
m["verified_by_main_session"]={"demo_on_unmodified_tree": plain, "demo_with_patch": patched, "tests_failing_with_patch": failed.split(), "existing_suite_with_patch": suite, "checks_quick_seed1": json.loads(det)}
json.dump(m,open(dst,"w"),indent=1)
PY
echo "BENIGN $P-${R}$V: demo plain [$res_plain] | patched [$res_patched] failing: [$failed] | suite [$suite]"
for C in "${!det[@]}"; do echo "   check $C: ${det[$C]}" | cut -c1-400; done
