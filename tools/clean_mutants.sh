#!/usr/bin/env bash
# removes the scratch worktree used by run_mutant.sh together with its build output
WT="${MUT_WT:-/tmp/ommx-mut/wt}"
git -C /repo worktree remove --force "$WT" 2>/dev/null
rm -rf "$WT"; git -C /repo worktree prune
