#!/usr/bin/env python3
"""tools/benign_extras.py <Cxx> <patch.diff> — prints, comma separated, the other properties whose anchors
name a file the patch touches (plus the users of the polynomial algebra when an algebra file is touched), so
that a behaviour-preserving change in a shared helper is run against every check it could disturb."""
import json, os, re, sys, fnmatch
HERE = os.path.dirname(os.path.dirname(os.path.abspath(__file__)))
pid, patch = sys.argv[1], sys.argv[2]
files = set(re.findall(r'^\+\+\+ b/(\S+)', open(patch).read(), re.M))
out = set()
for l in open(os.path.join(HERE, 'properties.jsonl')):
    p = json.loads(l)
    if any(fnmatch.fnmatch(f, a) for f in files for a in p['anchors']['files']):
        out.add(p['id'])
ALGEBRA = {'rust/ommx/src/linear.rs', 'rust/ommx/src/quadratic.rs', 'rust/ommx/src/polynomial.rs', 'rust/ommx/src/sorted_ids.rs', 'rust/ommx/src/v1_ext/function.rs', 'rust/ommx/src/macros.rs'}
if files & ALGEBRA:
    out |= {'C01', 'C02', 'C03', 'C04', 'C09', 'C10', 'C11', 'C13', 'C16'}
if 'rust/ommx/src/bound.rs' in files:
    out |= {'C12'}
out.discard(pid)
print(','.join(sorted(out)))
