#!/usr/bin/env python3
"""Writes benign/RESULTS.md from benign/<id>/meta.json and benign/status.json and splices the table into
DESIGN.md between <!-- BENIGN-TABLE-BEGIN --> and <!-- BENIGN-TABLE-END -->."""
import json, os, glob
HERE = os.path.dirname(os.path.dirname(os.path.abspath(__file__)))
st = json.load(open(os.path.join(HERE, "benign", "status.json")))
rows = []
for d in sorted(glob.glob(os.path.join(HERE, "benign", "C*-*"))):
    bid = os.path.basename(d)
    try: m = json.load(open(os.path.join(d, "meta.json")))
    except Exception: m = {}
    v = m.get("verified_by_main_session", {})
    fails = v.get("tests_failing_with_patch") or []
    demo_ok = "ok" in (v.get("demo_on_unmodified_tree") or "") and [f for f in fails if f not in ("result:", "FAILED.")][:1] == ["incidental_difference"] and not [f for f in fails if f.startswith("property")]
    suite_ok = "102 passed" in (v.get("existing_suite_with_patch") or "")
    s = st.get(bid, {})
    clean = lambda t: (t or "").replace("|", "/").replace("\n", " ")
    verdict = "silent" if s.get("initial") == "SILENT" else "false alarm at first: `" + s.get("initial", "?").replace("FALSE-ALARM ", "")[:90] + "` → silent after correcting the monitor"
    rows.append((bid, clean(m.get("summary"))[:170], clean(m.get("incidental_behaviour_changed"))[:170], "yes" if demo_ok else "CHECK", "yes" if suite_ok else "CHECK", verdict, clean(s.get("correction", ""))))
lines = ["| id | change (agent's summary) | incidental behaviour that differs | property tests pass, only `incidental_difference` fails | 102 tests green | quick check of the property | correction of the monitor |", "|---|---|---|---|---|---|---|"]
for r in rows: lines.append("| " + " | ".join(r) + " |")
silent = sum(1 for r in rows if r[5] == "silent")
head = f"{len(rows)} behaviour-preserving changes confirmed; the quick check of the property stayed silent on {silent} as it stood and raised a false alarm on {len(rows)-silent}, each traced to a dependence on behaviour the statement does not promise and removed (the check is silent on all {len(rows)} now, and still catches every catalogue mutant and seeded change).\n\n"
table = head + "\n".join(lines) + "\n"
open(os.path.join(HERE, "benign", "RESULTS.md"), "w").write("# Independently written behaviour-preserving changes\n\n" + table)
p = os.path.join(HERE, "DESIGN.md"); s = open(p).read()
b, e = "<!-- BENIGN-TABLE-BEGIN -->", "<!-- BENIGN-TABLE-END -->"
s = s[: s.index(b) + len(b)] + "\n" + table + s[s.index(e):]
open(p, "w").write(s); print(head)
