#!/usr/bin/env bash
# tools/verify_seed.sh <Cxx> <A|B> [extra properties to run, comma separated]
# Confirms a seeded change delivered by an independent sub-agent in /tmp/seed-<Cxx>-out/<A|B>:
#   1. the demonstration passes on the unmodified worktree /tmp/seed-<Cxx>
#   2. it fails with the patch applied
#   3. the existing test suite still passes with the patch applied (demo moved away)
#   4. runs ./check <Cxx> quick (and extras) against the patched worktree
# and stores patch, demo and meta.json under /verif/seeded/<Cxx>-<A|B>/.
set -u
HERE="$(cd "$(dirname "${BASH_SOURCE[0]}")/.." && pwd)"
P="$1"; V="$2"; EXTRA="${3:-}"
R="${ROUND:-}"; WT="/tmp/seed${R}-$P"; OUT="/tmp/seed${R}-$P-out/$V"
lower="$(echo "$P" | tr 'A-Z' 'a-z')_$(echo "$V" | tr 'A-Z' 'a-z')"
DEMO="$WT/rust/ommx/tests/seeded_demo${R}_$lower.rs"
cd "$WT" || exit 2
git checkout -q -- . ; git clean -qfd -e .verif-build -e target; git checkout -q --detach "$(git -C /repo rev-parse HEAD)" 2>/dev/null
mkdir -p "$WT/rust/ommx/tests"; cp "$OUT/demo.rs" "$DEMO"
res_plain="$(cargo test -p ommx --offline --test "seeded_demo${R}_$lower" 2>&1 | grep -E '^test result' | tail -1)"
if ! git apply "$OUT/patch.diff"; then echo "SEED $P-$V: patch does not apply"; exit 3; fi
res_patched="$(cargo test -p ommx --offline --test "seeded_demo${R}_$lower" 2>&1 | grep -E '^test result|error(\[|:)' | tail -1)"
rm -f "$DEMO"; rmdir "$WT/rust/ommx/tests" 2>/dev/null
suite="$(cargo nextest run --workspace --no-fail-fast --offline 2>&1 | grep -E 'Summary|error(\[|:)' | tail -1)"
declare -A det
for C in $P ${EXTRA//,/ }; do
  out="$(VERIF_REPO="$WT" VERIF_SEED="${VERIF_SEED:-1}" "$HERE/check" "$C" quick 2>&1)"; rc=$?
  sigs="$(printf '%s\n' "$out" | grep -E '^  signature:' | sed 's/^  signature: //' | tr '\n' ';')"
  det[$C]="rc=$rc $sigs"
done
git checkout -q -- . ; git clean -qfd -e .verif-build -e target; git checkout -q --detach "$(git -C /repo rev-parse HEAD)" 2>/dev/null
D="$HERE/seeded/$P-${R}$V"; mkdir -p "$D"
cp "$OUT/patch.diff" "$D/patch.diff"; cp "$OUT/demo.rs" "$D/demo.rs"
detjson="{"; first=1
for C in "${!det[@]}"; do [ $first = 1 ] || detjson+=","; first=0; detjson+="\"$C\": $(printf '%s' "${det[$C]}" | python3 -c 'import json,sys; print(json.dumps(sys.stdin.read()))')"; done; detjson+="}"
python3 - "$OUT/meta.json" "$D/meta.json" "$res_plain" "$res_patched" "$suite" "$detjson" <<'PY'
import json,sys
src,dst,plain,patched,suite,det=sys.argv[1:7]
try: m=json.load(open(src))
except Exception as e: m={"agent_meta_unreadable":str(e)}
m["verified_by_main_session"]={
 "demo_on_unmodified_tree": plain, "demo_with_patch": patched, "existing_suite_with_patch": suite,
 "commands": ["cargo test -p ommx --offline --test seeded_demo_<id> (without / with patch)", "cargo nextest run --workspace --no-fail-fast --offline (with patch, demo removed)", "VERIF_REPO=<patched worktree> ./check <Cxx> quick"],
 "checks_quick_seed1": json.loads(det)}
json.dump(m,open(dst,"w"),indent=1)
PY
echo "SEED $P-${R}$V: demo plain [$res_plain] | patched [$res_patched] | suite [$suite]"
for C in "${!det[@]}"; do echo "   check $C: ${det[$C]}" | cut -c1-400; done
