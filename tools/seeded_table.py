#!/usr/bin/env python3
"""Writes seeded/RESULTS.md (table of independently seeded changes and which check catches them)
from seeded/<id>/meta.json and seeded/status.json, and splices the same table into DESIGN.md
between the markers <!-- SEEDED-TABLE-BEGIN --> and <!-- SEEDED-TABLE-END -->."""
import json, os, glob, re

HERE = os.path.dirname(os.path.dirname(os.path.abspath(__file__)))
st = json.load(open(os.path.join(HERE, "seeded", "status.json")))
rows = []
for d in sorted(glob.glob(os.path.join(HERE, "seeded", "C*-*"))):
    sid = os.path.basename(d)
    try:
        m = json.load(open(os.path.join(d, "meta.json")))
    except Exception:
        m = {}
    summary = (m.get("summary") or "").replace("|", "/").replace("\n", " ")
    needs = (m.get("what_it_needs_to_manifest") or "").replace("|", "/").replace("\n", " ")
    v = m.get("verified_by_main_session", {})
    demo_ok = "ok" in (v.get("demo_on_unmodified_tree") or "") and "failed" in (v.get("demo_with_patch") or "")
    suite_ok = "102 passed" in (v.get("existing_suite_with_patch") or "")
    s = st.get(sid, {})
    initial = s.get("initial", "?")
    verdict = "caught" if initial.startswith("KILLED") else "missed at first"
    sigs = initial.split(" ", 1)[1] if " " in initial else ""
    first_sig = sigs.split(";")[0].split(" (")[0][:70]
    after = s.get("after", "")
    strengthen = s.get("strengthening", "")
    if s.get("other"):
        # silent by design in the property the agent filed it under; the check of the property that owns
        # the changed behaviour caught it as it stood
        verdict = "caught by another property's check as it stood"
        first_sig = s["other"].replace("KILLED ", "")[:70]
        strengthen = s.get("why_other", "")
    elif after:
        verdict += " → caught after strengthening"
        first_sig = after.replace("KILLED ", "")[:70]
    elif s.get("note"):
        verdict = "not judged (outside what the statement fixes)"
        strengthen = s["note"]
    rows.append((sid, summary[:150], needs[:150], "yes" if demo_ok else "CHECK", "yes" if suite_ok else "CHECK", verdict, first_sig, strengthen))

lines = ["| id | change (agent's summary) | needs to manifest | demo passes w/o, fails with | 102 tests green | quick check of the property | first signature | strengthening done |",
         "|---|---|---|---|---|---|---|---|"]
for r in rows:
    lines.append("| " + " | ".join(r) + " |")
caught = sum(1 for r in rows if r[5] == "caught")
missed = sum(1 for r in rows if r[5].startswith("missed") and "caught after" in r[5])
open_ = sum(1 for r in rows if r[5].startswith("missed") and "caught after" not in r[5])
notj = sum(1 for r in rows if r[5].startswith("not judged"))
other = sum(1 for r in rows if r[5].startswith("caught by another"))
head = f"{len(rows)} seeded changes confirmed; {caught} caught by the quick check of their property as it stood, {other} caught as they stood by the check of the property that owns the changed behaviour (the property the agent filed them under does not cover that behaviour; reason in the last column), {missed} missed at first and caught after the monitor was strengthened (generator / shapes widened, verdicts never loosened), {open_} still missed, {notj} not judged because what they change is outside what the statement fixes (reason in the last column).\n\n"
table = head + "\n".join(lines) + "\n"
open(os.path.join(HERE, "seeded", "RESULTS.md"), "w").write("# Independently seeded changes\n\n" + table)
p = os.path.join(HERE, "DESIGN.md")
s = open(p).read()
b, e = "<!-- SEEDED-TABLE-BEGIN -->", "<!-- SEEDED-TABLE-END -->"
if b in s and e in s:
    s = s[: s.index(b) + len(b)] + "\n" + table + s[s.index(e):]
else:
    s = s.rstrip("\n") + "\n\n" + b + "\n" + table + e + "\n"
open(p, "w").write(s)
print(head)
