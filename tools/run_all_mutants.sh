#!/usr/bin/env bash
# tools/run_all_mutants.sh [Cxx ...]  — runs every mutants/<Cxx>/*.diff against its property (quick tier)
HERE="$(cd "$(dirname "${BASH_SOURCE[0]}")/.." && pwd)"
cd "$HERE"
PROPS="${*:-$(ls mutants)}"
for P in $PROPS; do
  for d in mutants/$P/*.diff; do
    [ -f "$d" ] || continue
    tools/run_mutant.sh "$d" "$P" quick
  done
done
