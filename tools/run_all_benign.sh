#!/usr/bin/env bash
# tools/run_all_benign.sh [id ...] — applies every benign/<id>/patch.diff (a behaviour-preserving change) to a
# scratch worktree and runs the check of its property: the check must stay SILENT (exit 0).
HERE="$(cd "$(dirname "${BASH_SOURCE[0]}")/.." && pwd)"
cd "$HERE"
IDS="${*:-$(ls benign | grep -E '^C[0-9]+-')}"
for id in $IDS; do
  P="${id%%-*}"
  out="$(tools/run_mutant.sh "benign/$id/patch.diff" "$P" quick 2>&1 | tail -1)"
  case "$out" in
    SURVIVED*) echo "$id SILENT";;
    KILLED*)   echo "$id FALSE-ALARM ${out#KILLED}" | cut -c1-300;;
    *)         echo "$id $out" | cut -c1-300;;
  esac
done
