#!/usr/bin/env python3
"""Extract the serialized FileDescriptorProto embedded in each protoc-generated *_pb2.py.

usage: pb2_descriptors.py <dir with *_pb2.py> <outdir>

Standard library only (google.protobuf is not available in the sandbox and is not imported:
the modules are parsed with `ast`, never executed). Writes <outdir>/<module>.desc.

The C07 check does NOT need this tool at run time: harness/src/wire.rs::extract_pb2_descriptor
does the same extraction in Rust. The tool exists for manual inspection and as an independent
reference for that un-escaper (`cmp` its output against what the harness decodes).
"""
import ast
import pathlib
import sys


def descriptor_bytes(path: pathlib.Path) -> bytes:
    tree = ast.parse(path.read_text(encoding="utf-8"), filename=str(path))
    found = []
    for node in ast.walk(tree):
        if isinstance(node, ast.Call):
            f = node.func
            name = f.attr if isinstance(f, ast.Attribute) else getattr(f, "id", None)
            if name == "AddSerializedFile" and node.args:
                arg = node.args[0]
                if isinstance(arg, ast.Constant) and isinstance(arg.value, bytes):
                    found.append(arg.value)
    if len(found) != 1:
        raise SystemExit(f"{path}: expected exactly one AddSerializedFile(b'...') call, found {len(found)}")
    return found[0]


def main() -> int:
    if len(sys.argv) != 3:
        print(__doc__)
        return 2
    src, out = pathlib.Path(sys.argv[1]), pathlib.Path(sys.argv[2])
    out.mkdir(parents=True, exist_ok=True)
    n = 0
    for p in sorted(src.glob("*_pb2.py")):
        data = descriptor_bytes(p)
        (out / (p.stem + ".desc")).write_bytes(data)
        print(f"{p.name}: {len(data)} bytes")
        n += 1
    return 0 if n else 1


if __name__ == "__main__":
    sys.exit(main())
