#!/usr/bin/env bash
# tools/run_mutant.sh <patch.diff> <Cxx>[,Cyy...] [tier]
# Applies a patch to a scratch worktree of /repo (never to /repo itself), runs the given checks
# against it and reports, per property, whether the monitor raised a violation.
# The worktree lives at $MUT_WT (default /tmp/ommx-mut/wt) and is reused between calls so that
# only the ommx crate and the harness are rebuilt; remove it with tools/clean_mutants.sh.
set -u
HERE="$(cd "$(dirname "${BASH_SOURCE[0]}")/.." && pwd)"
PATCH="$(realpath "$1")"; PROPS="$2"; TIER="${3:-quick}"
WT="${MUT_WT:-/tmp/ommx-mut/wt}"
HEAD="$(git -C /repo rev-parse HEAD)"
if [ ! -d "$WT/.git" ] && [ ! -f "$WT/.git" ]; then
  mkdir -p "$(dirname "$WT")"
  git -C /repo worktree prune
  git -C /repo worktree add --detach "$WT" "$HEAD" >/dev/null 2>&1 || { echo "cannot create worktree"; exit 2; }
fi
git -C "$WT" checkout -q --detach "$HEAD" 2>/dev/null
git -C "$WT" checkout -q -- . ; git -C "$WT" clean -qfd -e .verif-build
if ! git -C "$WT" apply "$PATCH"; then echo "PATCH-DOES-NOT-APPLY $PATCH"; exit 3; fi
rc_all=0
for P in ${PROPS//,/ }; do
  out="$(VERIF_REPO="$WT" VERIF_SEED="${VERIF_SEED:-1}" "$HERE/check" "$P" "$TIER" 2>&1)"; rc=$?
  sigs="$(printf '%s\n' "$out" | grep -E '^  signature:' | sed 's/^  signature: //' | tr '\n' ';')"
  case $rc in
    1) echo "KILLED   $(basename "$PATCH") by $P $TIER: $sigs";;
    0) echo "SURVIVED $(basename "$PATCH") under $P $TIER"; rc_all=1;;
    *) echo "ERROR    $(basename "$PATCH") under $P $TIER (rc=$rc): $(printf '%s\n' "$out" | grep -E 'INCONCLUSIVE|error' | head -3 | tr '\n' ' ')"; rc_all=2;;
  esac
done
git -C "$WT" checkout -q -- . ; git -C "$WT" clean -qfd -e .verif-build
exit $rc_all
