#!/usr/bin/env python3
"""tools/seed_prompts.py <round> — writes the task descriptions handed to the independent seeding
sub-agents (one per property) to /tmp/seedwork/prompt-<Cxx>-r<round>.txt. An agent sees only this
text (the property as given in properties.jsonl plus rules) and its own worktree /tmp/seed<round>-<Cxx>;
nothing from /verif. Round 1 is the plain request, round 2 adds HARD MODE (rare / structured
triggers), round 3 asks for a different kind of subtlety (secondary clauses, alternative entry
points, cumulative histories)."""
import json, os, sys
BENIGN_ROUND = 1
if len(sys.argv) > 1 and sys.argv[1] in ("benign", "benign2", "benign3", "benign4"):
    rnd = 0
    BENIGN_ROUND = {"benign": 1, "benign2": 2, "benign3": 3, "benign4": 4}[sys.argv[1]]
else:
    rnd = int(sys.argv[1]) if len(sys.argv) > 1 else 1
R = "" if rnd == 1 else str(rnd)
HERE = os.path.dirname(os.path.dirname(os.path.abspath(__file__)))
props = {json.loads(l)['id']: json.loads(l) for l in open(os.path.join(HERE, 'properties.jsonl'))}
HARD2 = '''
## HARD MODE (this is a second round — read carefully)
Easy seeded changes have already been collected. This round wants changes that are much harder to stumble upon. Changes that small random inputs (a handful of variables, terms, samples or operations with ordinary values) would expose with noticeable probability are NOT interesting. Aim for a RARE or STRUCTURED trigger, for example:
- a size threshold (only with >= 16/32/64 terms, variables, samples, constraints, layers, lines …), or only at an exact count;
- a specific numeric value, magnitude or boundary (exactly 0.5, exactly the tolerance, values >= 2^32 or 2^53 as f64, subnormal or very large coefficients, ids >= 2^32 / near u64::MAX/2, id 0, negative zero);
- a specific relation between inputs (two equal ids in a particular position, an id equal to a constraint id, exact ties between three or more candidates, a value equal to a bound end);
- a specific history: three or more operations in a particular order, state left behind by an earlier call, calling the same operation twice, an operation after a failed operation;
- dependence on hash-map iteration order or on the order in which entries are stored in a message;
- interplay of two API calls or two message fields that each look fine alone.
The change must still be a plausible developer slip/refactoring/optimisation (no `if input == magic` special-casing that no reviewer would accept — a threshold-based fast path, a buffer/chunk size, an overflow, a wrong comparison on a boundary, a cache keyed too coarsely, an early exit are all fine). Your demonstration test must construct the rare trigger deterministically and show the property's statement being violated.
'''
HARD3 = '''
## HARD MODE, ROUND 3 (read carefully)
Two rounds of seeded changes have already been collected, and the oracle under evaluation — a runtime monitor that drives the public API with many thousands of generated inputs and histories per property and compares against an independent exact model — now catches all of them. Already covered (do NOT repeat these kinds): size thresholds around 16/32/64 elements, a 32 KiB buffer boundary, endpoints/ids beyond 2^32, 2^53, 2^63, adjacent doubles and exact ties, coefficients below f64::EPSILON, values exactly on a bound or on the tolerance, stored order of terms / variables / constraints (unsorted, descending, shuffled), repeated ids, absent optional fields, relax/restore histories, duplicated identical layers, names colliding with generated names, white space in names.
Find something of a DIFFERENT kind. Directions that tend to be under-tested:
- a SECONDARY clause of the statement (error reporting, "fails and changes nothing", which ids/names/metadata the result carries, what is left untouched, ordering guarantees, the second or third function listed in the anchors rather than the main one);
- an ALTERNATIVE ENTRY POINT to the same behaviour (by-reference vs by-value operator impls, `AddAssign`/`MulAssign`/`Sum`/`Product`, `From`/`TryFrom`/`Into` conversions, a convenience wrapper that re-implements part of the logic, the typed vs the message-level API, reader vs file-path loaders);
- CUMULATIVE or STATEFUL effects (only after the same operation was applied N >= 3 times, only when a previous call failed, only when the result of one call is fed into another, aliasing between two arguments that refer to the same id);
- an interaction between two features that are each exercised alone (e.g. a removed constraint AND a fixed variable AND a dependency on it; parameters AND subscripts; a ranged row AND a negative RHS AND an integer marker);
- arithmetic corner cases other than magnitude: negative zero, sign of a product with an odd number of negative factors, i32/i64/usize conversions of small negative or large values, integer division/remainder on negative numbers, `as` casts;
- degenerate but legal shapes: empty collections where a non-empty one is usual, a function that is identically zero after cancellation, a constraint/objective using no variable, a single-element case of a "list of many".
The change must still be a plausible developer slip / refactoring / optimisation that a reviewer could wave through (no `if input == magic`). Your demonstration test must construct the trigger deterministically and show the property's statement being violated.
'''
HARD4 = '''
## HARD MODE, ROUND 4 (read carefully)
Three rounds of seeded changes have been collected and the oracle under evaluation — a runtime monitor that drives the public API with hundreds of thousands of generated inputs and histories per property and compares with an independent exact (rational-arithmetic) model — now catches all of them. It judges results bit-exactly where the arithmetic is exact and within a rigorous rounding bound otherwise. Already covered (do NOT repeat): size thresholds (16/32/64 elements, 32 KiB buffers); ids or endpoints beyond 2^32, 2^53, 2^63; adjacent doubles, exact ties, infinite objectives; coefficients below f64::EPSILON; values exactly on a bound or on a tolerance; stored order of terms / variables / constraints; repeated ids; absent optional fields, NaN bounds, empty instances, constant constraints; relax/restore and penalty/instantiate histories; states that echo fixed variables; secondary clauses (error paths "change nothing", tags, error context paths); alternative entry points (+=, *=, Sum, Product, From, load_file_bytes, evaluate_samples); file names; duplicated layers; setters called twice.
Find a defect of yet ANOTHER kind. Directions still open:
- SMALL NUMERIC DAMAGE that is real but easy to overlook: a tolerance or threshold constant changed by a factor (1e-6 vs 1e-5, EPSILON vs 2*EPSILON, <= vs <), an intermediate computed in f32 or through an integer cast, a premature rounding (round/floor/ceil/trunc confused for negative numbers), a sum that skips compensation only for many terms, loss of the sign of zero where it matters, an `abs()` or `max()` applied one step too early;
- INTEGER ARITHMETIC on ids and counts: `id + 1` overflowing at u64::MAX, `as i64` / `as u32` / `as usize` casts of ids, subscripts or counts that change large values, signed/unsigned confusion, off-by-one at 0;
- INTERACTION BETWEEN TWO OBJECTS of the same call: aliasing between the id of a variable and the id of a constraint or parameter, the same variable appearing in the objective and in a dependency, two constraints sharing a function, a replacement map that is the identity;
- PARTIAL UPDATE: a multi-step mutation that is correct when it succeeds but leaves a half-updated object when a LATER step fails (error after the first push/remove), or that updates one of two mirrored fields only;
- DEFAULTS: the proto3 default of an enum or number being treated as "set" or as "unset" in the wrong place (sense 0, kind 0, equality 0, a coefficient 0.0, id 0, an empty string name);
- TEXT FORMATS (parsers/writers only): tokens separated by several blanks or tabs, a sign or exponent form of a number (+1, 1., .5, 1e+3, 1D3), a trailing comment, upper/lower case of a keyword, Windows line ends, a final line without newline, negative zero in a file.
The change must still be a plausible developer slip / refactoring / optimisation that a reviewer could wave through (no `if input == magic`). Your demonstration test must construct the trigger deterministically and show the property's statement being violated.
'''
HARD5 = '''
## HARD MODE, ROUND 5 (read carefully)
Four rounds of seeded changes have been collected and the oracle under evaluation — a runtime monitor that drives the public API with hundreds of thousands of generated inputs, histories and SDK pipelines per property and compares with an independent exact model — catches essentially all of them. Do not repeat their kinds: size thresholds; huge ids / endpoints; ties, adjacent doubles, infinities, NaN; below-epsilon coefficients; values on a bound or tolerance; stored order; repeated ids; absent fields and proto3 defaults; empty / constant / degenerate shapes; relax-restore, penalty-instantiate, log-encode-substitute histories; echoing fixed variables; error paths that must change nothing; tags, paths and names; alternative operator / conversion / loader entry points; file names; tolerance constants; casts; one-ulp ends; overflowing constraint values; partial sums; text-layout details.
This round, start from the CODE rather than from the statement: read the functions named in the anchors (and the helpers they call) and look for the classic slip that THIS code structure invites, then check that it really breaks the statement for some input. Typical patterns:
- an error that gets swallowed (`.ok()`, `unwrap_or_default()`, `if let Ok(..)`, `filter_map` dropping failures) so that a bad input yields a plausible result instead of an error, or a good input silently loses a piece;
- `zip` / `take` / `chunks` / `windows` truncating the longer side; `enumerate` index used after a `filter`; an index into the wrong of two parallel vectors;
- `insert` overwriting where accumulation was meant (or `entry().or_insert` keeping a stale value); `extend` vs replace; a missing `clear()`; a duplicated `push`; `dedup` without the `sort` it needs; `retain` with the predicate inverted for one branch only;
- `continue` vs `break` vs early `return` inside a loop over several items; a flag set in the loop and never reset; the first / last element handled outside the loop and then again inside;
- shadowing: the refactored inner variable has the same name as the outer one it was supposed to update; a clone taken before the mutation it was supposed to see; two mutable passes where the second reads what the first already changed;
- wrapping / saturating / checked arithmetic chosen wrongly for ids and counts; `min`/`max` swapped; `<`/`<=` on one side of a two-sided test; sign of a term when moving it across an (in)equality;
- a helper reused for a second purpose with slightly different needs (sorted vs unsorted input, with vs without the constant term, active vs removed constraints, decision variables vs parameters).
The change must read like a plausible refactoring / optimisation / clean-up of that code and keep the 102 tests green. Your demonstration test must construct the trigger deterministically and show the property's statement being violated.
'''
HARD6 = HARD5.replace("ROUND 5", "ROUND 6").replace("Four rounds", "Five rounds") + '''
Already used in the previous code-first round, so pick something else: `.ok()` swallowing a missing-variable error; a short-circuit on a zero factor; `break` for `continue` in a per-sample or per-layer loop; fresh ids taken from the used instead of the defined variables; `map_while` ending a walk at an empty removed entry; only the first id of a grouped objective entry considered; `get_constant()` on a polynomial with several constant monomials; the `substituted_value` of earlier fixings erased by a later `partial_evaluate`; the kind guard narrowed to `Kind::Continuous`; an `as_integer_bound()` applied before scaling; `zip` of a sorted id set against a stored vector; `entry().or_insert` in a setter; a zero-entry section returning an empty vector; a malformed value swallowed by `parse().ok()`; a RANGES entry for an undeclared row skipped; LI/UI values rounded; default bound ends not written.
'''
HARD7 = '''
## HARD MODE, ROUND 7 (read carefully)
Six rounds of seeded changes have been collected and the oracle under evaluation — a runtime monitor that drives the public API with hundreds of thousands of generated inputs, histories and SDK pipelines per property and compares with an independent exact model — now catches nearly everything planted INSIDE the functions the anchors name. This round, plant the defect ELSEWHERE: the diff must NOT touch the body of an anchored function. Instead change something those functions rely on, so that the property breaks indirectly:
- a shared helper, trait impl or macro (`Default`, `From`/`TryFrom`/`Into`, `PartialEq`/`Ord`/`Hash` used for map keys or dedup, `IntoIterator`/term iterators, `AbsDiffEq`, `Zero`/`One`, sorted-id / monomial-key types, bound and interval helpers, id allocators, parse helpers for numbers and tokens, name/tag formatting helpers, the proto <-> typed conversion layer, `arbitrary`-free constructors such as `new`, `zero`, `single_term`);
- a PERFORMANCE-motivated rewrite of such a helper: pre-sizing, caching / memoisation with too coarse a key, `sort_unstable` or `dedup_by_key` where order or full equality mattered, a Vec indexed by id instead of a map, an early exit, `retain` in place of a rebuild, merging two passes into one, `f64::mul_add`, summation in a different container, reusing a buffer across calls without clearing it;
- a change of a CONSTANT, default or limit shared by several call sites (tolerances, maximum sizes, sentinel values, media-type or annotation-key strings, section keywords);
- a change in how a helper treats an EDGE input that its own unit tests do not pin down (empty input, a single element, duplicates, already-sorted vs unsorted, the largest id, negative zero, NaN / infinity, an absent optional field).
The anchored function must still read exactly as before; the break must nevertheless be observable through the PUBLIC behaviour the statement describes, on inputs inside the statement's quantifier. It must read like a plausible refactoring / optimisation / clean-up and keep the 102 tests green (helpers with their own unit or property tests are hard to change unnoticed — look for the ones without). Your demonstration test must construct the trigger deterministically and show the property's statement (not an implementation detail) failing.
Already used in earlier rounds, so pick something else: `SortedIds` addition without re-sorting; `BinaryIdPair` conversion collapsing three ids to two; `Linear` Sum folding from a variable; `Bound::pow` loosened; the parser's line counter; the id-tag parser of the MPS reader; `Digest` comparison without the algorithm; timestamp precision of annotation setters.
'''
HARD8 = '''
## HARD MODE, ROUND 8 (read carefully)
Seven rounds of seeded changes have been collected and the oracle under evaluation — a runtime monitor that drives the public API with hundreds of thousands of generated inputs, histories and SDK pipelines per property and compares with an independent exact model — catches slips planted inside the anchored functions and inside the helpers they rely on. This round, produce the kind of regression that comes with FEATURE WORK: implement a small, plausible, well-meant EXTENSION or behaviour change that a maintainer could really want (it may be 10-40 lines and may add a private helper, an enum arm, an optional code path or a new accepted input), such that everything the extension is *for* works, the 102 tests stay green — and the stated property silently stops holding for some inputs that were handled correctly before. Examples of the genre (pick what fits THIS code, do not copy blindly):
- support for one more case (another variable kind, another section / bound type / keyword / media type, negative or fractional values where only non-negative integers were handled, an additional optional field) whose new branch captures inputs that used to take the old, correct branch;
- a convenience: automatic normalisation / simplification / deduplication / sorting / clamping / defaulting of inputs or outputs "to be helpful", which changes a result the statement pins down;
- robustness: turning a panic or error into a silent fallback, skipping entries that "cannot be handled", tolerating duplicates by keeping the first/last one;
- an early-out or special case for a common situation (all-zero, already-satisfied, single element, identical arguments) whose condition is slightly too broad;
- aligning one function's behaviour with a sibling function ("for consistency") where the statement requires them to differ, or sharing code between two paths that need different details;
- a tolerance made configurable / relative / scaled, a limit raised or lowered, a comparison made inclusive.
The extension must be coherent on its own terms (a reviewer reading the diff and its doc comment sees a feature, not a bug) and must not change any public signature. Your demonstration test must (i) show the property's statement failing on inputs INSIDE its quantifier that were handled correctly before, constructed deterministically, and (ii) may additionally show the new feature working.
'''
os.makedirs('/tmp/seedwork', exist_ok=True)
BENIGN = """You are a careful Rust engineer helping to evaluate a test oracle for FALSE ALARMS. The oracle is a runtime monitor that drives the public API of the OMMX Rust SDK with many generated inputs and checks ONE stated semantic property. A good oracle must stay silent on any code change that keeps the property true. Your job: produce realistic BEHAVIOUR-PRESERVING CHANGES ("benign refactorings") of the code the property is anchored in — changes after which the property STILL HOLDS for every input, but which alter as much as possible of what the property does NOT promise.

## Your workspace
- A private git worktree of the repository: {wt} (detached HEAD). Work ONLY there and in your output directory {out} (create it). Do not touch /repo or any other directory. No network is available; always pass --offline to cargo.
- The Rust SDK is the crate rust/ommx (source in rust/ommx/src). The existing test suite is run with:
  `cd {wt} && cargo nextest run --workspace --no-fail-fast --offline` (fallback: `cargo test --workspace --no-fail-fast --offline`). All 102 tests must still pass with your change applied.

## The property that must KEEP HOLDING
```json
{text}
```

## What to deliver: TWO independent benign changes (A and B)
Each is a plausible refactoring / optimisation / clean-up a maintainer could merge, in the functions named by the anchors (rust/ommx/src), that keeps the property true by its literal statement yet changes observable INCIDENTAL behaviour. Good directions:
- the ORDER of things the statement does not order: terms inside a returned function, entries of a returned list (constraints, decision variables, removed constraints, evaluated constraints), where a newly created variable/constraint/parameter is inserted (front, sorted position, end), iteration order of maps;
- the REPRESENTATION of an equal result: a linear result returned as a Quadratic/Polynomial message or vice versa where the statement only fixes the polynomial; an equivalent but differently scaled/arranged equation (e.g. multiply an equality by a positive constant, flip the sign of both sides of an equality, negative weights with a shifted constant) where only the solution set / value set is promised; different but equally valid fresh IDs; zero terms dropped or kept;
- the ALGORITHM: a different evaluation/summation order only where the statement allows rounding; more or fewer passes of a fixed-point loop; a different data structure; caching;
- ERROR REPORTING beyond what is promised: different wording of error messages, a different (still appropriate) error variant where the statement only says "is an error"/"is rejected", checking preconditions in a different order when several are violated at once;
- extra, harmless work: additional derived metadata the statement does not forbid (e.g. a name or description on a generated variable), defensive copies.
Do NOT change anything the statement promises. If in doubt whether the statement promises something, do not touch it (or say so in meta.json under "doubt").
For each of A and B:
1. The source change (ideally 3-30 lines).
2. A short argument (meta.json "why_property_still_holds") going clause by clause through the statement.
3. A demonstration test file (it will live at rust/ommx/tests/{demo}_<a|b>.rs, public API only) with two kinds of `#[test]`: (i) tests asserting the PROPERTY on a few concrete inputs — these must pass both without and with your change; (ii) one test named `incidental_difference` that PASSES on the unmodified code and FAILS with your change, pinning the incidental behaviour you altered (e.g. the exact order of terms, the exact error text, the position of the new variable). Verify both directions yourself.
4. Confirm the full existing suite still passes with the change applied (move the demo away while running it, or ignore its expected `incidental_difference` failure).

## Output (in {out})
- `A/patch.diff`, `B/patch.diff`: `git diff` of ONLY the source change, applicable with `git apply` on a clean checkout of the same commit.
- `A/demo.rs`, `B/demo.rs`.
- `A/meta.json`, `B/meta.json`: {{"property": "{pid}", "summary": one sentence, "incidental_behaviour_changed": one or two sentences, "why_property_still_holds": a few sentences, "doubt": null or what you are unsure about, "files_changed": [...], "existing_suite": what you observed, "property_tests_with_change": "pass", "incidental_difference_with_change": "fail"}}.
Leave the worktree CLEAN at the end (`git checkout -- . && git clean -fd` except target/).

## Rules
- No new dependencies. Do not edit existing tests. Do not break other workspace members. A and B must differ in kind.
- Your final message: for A and B, three lines (what changed, which incidental behaviour differs, why the property still holds) and the file paths."""
BENIGN2_EXTRA = """
## SECOND ROUND (read carefully)
A first round of benign changes has been collected and the oracle is silent on all of them. Already covered (do NOT repeat these kinds): reordering the terms of a returned function or the entries of a returned list; inserting a new variable somewhere else than at the end; returning an equal polynomial in another message variant (Constant / Linear / Quadratic / Polynomial); multiplying an equality by a positive constant; a different but complete set of bit weights; rewording error messages or reporting another of several simultaneous faults; a topological sort instead of a fixed-point loop; pairwise instead of left-to-right summation; sorting evaluated constraints by id; adding a description to a generated variable; UTC instead of local-offset timestamps.
Find benign changes of a DIFFERENT kind. Directions that are still open:
- IDENTITY freedom: where the statement only says an id is "fresh"/"new"/"unique", choose different fresh ids (a gap, a different base, descending); where it says "one parameter per constraint", keep that but change everything else about the parameters (names, descriptions, order);
- NUMERIC freedom the statement grants explicitly ("up to rounding", "documented dropping of coefficients below machine epsilon", "encloses"): use fused multiply-add, a different association of products, drop a below-epsilon coefficient earlier or later, return a tighter or a (validly) wider enclosure, -0.0 instead of +0.0;
- OPTIONAL-FIELD freedom: an absent optional field vs. its explicit default where the statement treats them alike (bound None vs (-inf, inf), empty vs absent maps and lists, Some(empty parameters) vs None where nothing is promised);
- EXTRA output the statement does not forbid: additional annotations, names, subscripts, removed-reason parameters, log output, an extra unused-but-harmless field set on a result;
- ACCEPTING MORE / REJECTING DIFFERENTLY only outside the statement's quantifier (inputs the statement explicitly excludes), leaving every quantified input untouched;
- INTERNAL STATE: caching, pre-sizing, cloning less, iterating a BTreeMap instead of a HashMap, making a HashMap-order-dependent but equally valid choice deterministic or the other way round;
- API-level refactors that keep signatures: by-value vs by-reference internals, moving logic between the typed and message-level layer.
Stay strictly inside what the statement leaves open: if a reader could argue that the statement promises the behaviour you are changing, pick something else (or record the argument under "doubt").
"""
BENIGN4_EXTRA = """
## FOURTH ROUND (read carefully)
Three rounds of benign refactorings have been collected (reordering, representation of equal results, error wording, fresh ids, optional fields, caching, numeric freedom, normalisation inside shared helpers, string-level freedom of writers and readers) and the oracle is silent on all of them. This round, deliver small genuine FEATURES rather than refactorings: a coherent, well-meant extension of 10-40 lines that a maintainer could really want and that leaves the property true by its literal statement for EVERY input inside its quantifier, while visibly changing behaviour somewhere the statement does not reach. Examples of the genre (pick what fits THIS code):
- accept MORE: an input that used to be rejected and lies OUTSIDE the statement's quantifier and outside its rejection clauses (another spelling, keyword, case, separator, number format, an additional optional section or annotation key, a trailing comment, a byte-order mark, CRLF) is now handled sensibly;
- report MORE: additional information attached to results where nothing is promised (names / descriptions / subscripts / parameters on generated variables or constraints, a removed-reason parameter, extra annotations, richer error messages or an error `source()`, `Display`/`Debug` output), leaving every promised field as it was;
- a better failure: an input outside the quantifier that used to panic or hang now returns an error (or vice versa an over-strict rejection outside the statement is relaxed);
- an OPTIONAL path that is off for every input the statement talks about (only triggered by a new annotation, an environment-independent flag field that defaults to the old behaviour, an otherwise unused enum value);
- a faster algorithm with identical results on every quantified input (closed form instead of a loop, binary search on sorted data the SDK itself produced, skipping work that provably cannot change the result).
Go clause by clause through the statement (including rejection clauses, "changes nothing" clauses, id / name / metadata clauses, exactness and minimality clauses) and make sure none is affected for any quantified input; when the statement lists what is rejected, do not start accepting any of it. If a reader could argue a clause is touched, pick something else or record the argument under "doubt".
"""
BENIGN3_EXTRA = """
## THIRD ROUND (read carefully)
Two rounds of benign changes have been collected and the oracle is silent on all of them. Already covered (do NOT repeat): reordering terms / list entries; where a new variable is inserted; representation of an equal result (Linear vs Quadratic vs Polynomial message, scaled equations); error wording / variant / precondition order; extra metadata on generated objects; different fresh ids; absent optional field vs explicit default; caching, pre-sizing, BTreeMap vs HashMap.
This round, make the change NOT in the functions the anchors name but in a SHARED HELPER they rely on (a constructor such as `Linear::new`, a `From`/`FromIterator`/`IntoIterator` impl, `PartialEq`/`Hash` of a key type, an id allocator, a bound / interval helper, a parse or formatting helper, a constant), such that every caller's promised behaviour is preserved while something incidental about the helper's output changes. Directions:
- NORMALISATION done earlier or later (a helper that now also sorts / merges duplicates / drops explicit zeros or no longer does so where the callers do not depend on it; trimming or not trimming whitespace where every caller trims anyway);
- NUMERIC freedom inside helpers where the statement allows rounding or says "encloses": outward rounding of interval ends by one ulp (`next_down`/`next_up`), a tighter but still valid interval product or power, `mul_add`, a different summation order, a tolerance comparison written differently but equivalent on every reachable value;
- CAPACITY / LAZINESS: returning an iterator that yields the same items in another order where callers collect into sets or maps; allocating ids from a different but still fresh place (e.g. max over a superset of the ids in use);
- DEFENSIVE behaviour on inputs OUTSIDE every statement's quantifier (NaN, invalid messages) — e.g. a helper that now returns an error earlier for an input the callers reject anyway;
- STRING-level freedom: a different but equivalent spelling the reader accepts (number formatting such as `1` vs `1.0` vs `1e0`, upper/lower-case keywords, line endings, trailing blanks, field widths) in writers, or accepting MORE spellings in readers.
Before settling on a change, re-read the statement and make sure that NO clause of it (including secondary clauses about ids, names, errors, untouched parts, minimality or exactness) is affected for ANY input inside its quantifier; if a reader could argue otherwise, pick something else or record the argument under "doubt".
"""
for pid, p in props.items():
    if rnd == 0:
        text = json.dumps({k: p[k] for k in ['id', 'title', 'statement', 'quantifier', 'anchors']}, indent=1)
        tag = {1: 'benign', 2: 'benign2', 3: 'benign3', 4: 'benign4'}[BENIGN_ROUND]
        body = BENIGN.format(wt=f'/tmp/{tag}-{pid}', out=f'/tmp/{tag}-{pid}-out', demo=f'{tag}_demo_{pid.lower()}', text=text, pid=pid)
        if BENIGN_ROUND == 4:
            body = body.replace("## What to deliver: TWO independent benign changes (A and B)", BENIGN4_EXTRA + "\n## What to deliver: TWO independent benign changes (A and B)")
        if BENIGN_ROUND == 3:
            body = body.replace("## What to deliver: TWO independent benign changes (A and B)", BENIGN3_EXTRA + "\n## What to deliver: TWO independent benign changes (A and B)")
        if BENIGN_ROUND == 2:
            body = body.replace("## What to deliver: TWO independent benign changes (A and B)", BENIGN2_EXTRA + "\n## What to deliver: TWO independent benign changes (A and B)")
        open(f'/tmp/seedwork/prompt-{pid}-{tag}.txt', 'w').write(body)
        continue
    text = json.dumps({k: p[k] for k in ['id', 'title', 'statement', 'quantifier', 'why_tests_cant', 'anchors']}, indent=1)
    wt, out, demo = f'/tmp/seed{R}-{pid}', f'/tmp/seed{R}-{pid}-out', f'seeded_demo{R}_{pid.lower()}'
    hard = {1: '', 2: HARD2, 3: HARD3, 4: HARD4, 5: HARD5, 6: HARD6, 7: HARD7, 8: HARD8}[rnd]
    prompt = f'''You are a careful Rust engineer helping to evaluate how well a test oracle detects regressions. Your job: produce realistic BREAKING CHANGES ("seeded defects") to the OMMX Rust SDK that violate ONE stated semantic property while still compiling and passing the project's existing test suite.

## Your workspace
- A private git worktree of the repository: {wt} (detached HEAD). Work ONLY there and in your output directory {out} (create it). Do not touch /repo or any other directory. No network is available; always pass --offline to cargo (e.g. `cargo build -p ommx --offline`).
- The Rust SDK is the crate rust/ommx (source in rust/ommx/src). The existing test suite is run with:
  `cd {wt} && cargo nextest run --workspace --no-fail-fast --offline` (fallback: `cargo test --workspace --no-fail-fast --offline`). The first build takes a few minutes. All 102 tests must still pass with your change applied.

## The property to break
```json
{text}
```
{hard}
## What to deliver: TWO independent seeded changes (call them A and B)
For each of A and B:
1. A small, plausible-looking source change to the SDK (the kind of slip or "refactoring"/"optimisation" a developer could make), in rust/ommx/src (or proto/ / python bindings only if the property is about them), that makes the property FALSE for some inputs / histories / orders, yet (a) compiles without errors, (b) keeps all existing tests passing, and (c) does NOT show up under ordinary, simplest use: it must need something specific to manifest — a particular input shape (e.g. a repeated id, an absent optional field, a zero/negative/fractional value, a specific representation), a multi-step sequence of operations, a particular map iteration order, an unusual but legal combination, or two cooperating edits that each look fine alone. Do not make the whole feature obviously broken (a change that every caller would notice at once is useless here). A and B must break the property in DIFFERENT ways (different code sites or different clauses of the property).
2. A demonstration: a Rust integration test file (it will live at rust/ommx/tests/{demo}_<a|b>.rs; use only the public API of the `ommx` crate and its re-exports, plus std) with one or more `#[test]` functions that PASS on the unmodified code and FAIL with your change applied. The test must check the property's statement directly (not implementation details). Verify both directions yourself: run it without the change (apply/revert your patch with `git apply` / `git apply -R`; never use `git stash`, it is shared between worktrees) and with it: `cargo test -p ommx --offline --test {demo}_a`.
3. Confirm the full existing suite still passes with the change applied (run the nextest command above with each change applied separately; the demo test file may be present — it is expected to fail with the change, so exclude it from this judgement or move it away while you run the suite).

## Output (in {out})
- `A/patch.diff` and `B/patch.diff`: `git diff` of ONLY the breaking source change (not the demo test), relative to the repository root, applicable with `git apply` on a clean checkout of the same commit.
- `A/demo.rs`, `B/demo.rs`: the demonstration test files.
- `A/meta.json`, `B/meta.json`: {{"property": "{pid}", "summary": one sentence, "what_it_needs_to_manifest": one or two sentences, "clause_broken": which clause of the statement, "files_changed": [...], "existing_suite": "102 passed" (what you observed), "demo_without_change": "pass", "demo_with_change": "fail (which assertion)"}}.
Leave the worktree CLEAN at the end (`git checkout -- . && git clean -fd` except build output in target/), so that only the files in {out} carry your result.

## Rules
- Keep each change minimal (ideally 1–10 lines). No new dependencies. Do not edit existing tests. Do not add `#[cfg(test)]` tricks or detect the test harness. Do not break the build of other workspace members.
- If an attempt makes an existing test fail, that change is not acceptable — find a subtler one.
- Your final message: for A and B, a 3-line description (what was changed, why existing tests do not notice, what input exposes it) and the paths of the delivered files.'''
    open(f'/tmp/seedwork/prompt-{pid}-r{rnd}.txt', 'w').write(prompt)
print('wrote', len(props), 'prompts for round', rnd if rnd else 'benign')
