#!/usr/bin/env bash
# tools/mkmut.sh <Cxx> <name> <file relative to repo root> <python-replace: OLD> <NEW>
# Creates mutants/<Cxx>/<name>.diff by replacing the first occurrence of OLD by NEW in the
# scratch worktree (never in /repo). Fails when OLD does not occur.
set -eu
HERE="$(cd "$(dirname "${BASH_SOURCE[0]}")/.." && pwd)"
P="$1"; NAME="$2"; FILE="$3"; OLD="$4"; NEW="$5"
WT="${MKMUT_WT:-/tmp/ommx-mut/mk}"
HEAD="$(git -C /repo rev-parse HEAD)"
if [ ! -e "$WT/.git" ]; then
  mkdir -p "$(dirname "$WT")"; git -C /repo worktree prune
  git -C /repo worktree add --detach "$WT" "$HEAD" >/dev/null
fi
git -C "$WT" checkout -q --detach "$HEAD"; git -C "$WT" checkout -q -- .
OLD="$OLD" NEW="$NEW" python3 - "$WT/$FILE" <<'PY'
import os,sys
p=sys.argv[1]; s=open(p).read(); old=os.environ['OLD']; new=os.environ['NEW']
if old not in s: sys.exit("OLD text not found in "+p)
open(p,'w').write(s.replace(old,new,1))
PY
mkdir -p "$HERE/mutants/$P"
git -C "$WT" diff > "$HERE/mutants/$P/$NAME.diff"
git -C "$WT" checkout -q -- .
echo "wrote mutants/$P/$NAME.diff"
