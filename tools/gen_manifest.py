#!/usr/bin/env python3
"""Regenerates /verif/MANIFEST.json from the table below (kept in one place so that the
manifest is always schema-valid). Run: python3 tools/gen_manifest.py"""
import json, os, subprocess, sys

HERE = os.path.dirname(os.path.dirname(os.path.abspath(__file__)))

# property -> (level category, technique, level text, level note, design ref)
CHECKS = {}

def claim(pid, category, technique, text, note, ref):
    CHECKS[pid] = (category, technique, text, note, ref)

sys.path.insert(0, os.path.join(HERE, "tools"))
from manifest_table import TABLE, NOT_APPLICABLE, HOOK_COMMITS  # noqa: E402

for row in TABLE:
    claim(*row)

props = [json.loads(l)["id"] for l in open(os.path.join(HERE, "properties.jsonl"))]
checks = []
for pid in props:
    if pid not in CHECKS:
        continue
    category, technique, text, note, ref = CHECKS[pid]
    checks.append({
        "property_id": pid,
        "quick_cmd": f"./check {pid} quick",
        "thorough_cmd": f"./check {pid} thorough",
        "evidence_file": f"/verif/evidence/{pid}.json",
        "replay_cmd_template": f"./check {pid} quick --replay {{path}}",
        "engine": "ommx-verif",
        "level_claimed": {"category": category, "text": text, "design_ref": ref},
        "level_note": note,
        "technique": technique,
    })
na = [{"property_id": p, "reason": NOT_APPLICABLE.get(p, "check not built yet (work in progress); nothing is claimed for this property")}
      for p in props if p not in CHECKS]
manifest = {
    "version": 1,
    "setup_cmd": "./setup.sh",
    "hooks": {
        "guard": "cargo feature `verif-hooks` of the ommx crate (off by default)",
        "enable": "the harness depends on ommx by path with features=[\"verif-hooks\"] (harness/Cargo.toml.in); ./check rebuilds it from the working tree",
        "baseline_off_cmd": "cd /repo && cargo nextest run --workspace --no-fail-fast --tool-config-file pb:/w/lib/nextest.toml --profile pb --test-threads 8 --offline || (cd /repo && cargo test --workspace --no-fail-fast --offline)",
        "source_commits": HOOK_COMMITS,
        "add_only": True,
    },
    "engines": [{
        "name": "ommx-verif",
        "path": "/verif/harness",
        "serves_properties": [c["property_id"] for c in checks],
        "kind_free_text": "runtime monitoring: orchestrator + address-space-capped, journaled worker subprocesses running the real SDK (release build with debug assertions and overflow checks, feature verif-hooks) under generated hostile workloads; online monitors compare every observed call with independent exact models (big-rational polynomial algebra, executable history models, independent wire codec and file writers)",
    }],
    "checks": checks,
    "not_applicable": na,
    "notes": "Exit codes of ./check: 0 held on everything observed (or only KNOWN-FINDING lines), 1 with a `VIOLATION property=<id> replay=<path>` line, 2 with INCONCLUSIVE lines (never a VIOLATION line). VERIF_SEED selects all random choices. known_findings.json lists genuine defects (open / fixed).",
}
json.dump(manifest, open(os.path.join(HERE, "MANIFEST.json"), "w"), indent=1)
print("wrote MANIFEST.json with", len(checks), "checks,", len(na), "not_applicable")
try:
    import jsonschema
    jsonschema.validate(manifest, json.load(open("/root/.vp/MANIFEST.schema.json")))
    print("schema: valid")
except ImportError:
    pass
