# (property, level category, technique, level text, level note, DESIGN.md section)
EXPL = "exploration"
TABLE = [
 ("C01", EXPL, "runtime monitor: exact big-rational oracle over generated hostile messages and states",
  "Every Evaluate::evaluate call on generated function messages (all variants and representations) is observed and compared with an exact rational model read from the message fields: bit-equal where a per-case dyadic certificate proves IEEE exactness, rigorous rounding bound otherwise; used-id set and missing-variable rejection checked. Held on the executions observed (counts in evidence), nothing more.",
  "Trusts rustc/std, num-bigint/num-rational and the harness's canonical reader of message fields; inputs bounded as stated in evidence.rule.", "§6 C01"),
]
NOT_APPLICABLE = {}
HOOK_COMMITS = ["be9b929"]
