#!/usr/bin/env bash
# MANIFEST.setup_cmd: offline release build of the harness against /repo's working tree.
set -eu
cd "$(dirname "$0")"
mkdir -p evidence replays
./check build
