//! ommx-verif: runtime monitors for properties C01..C20 of the OMMX Rust SDK.
//!
//!   ommx-verif run    --prop Cxx --tier quick|thorough --seed N --repo R --verif V --out O --jobs J [--replay F]
//!   ommx-verif worker --prop Cxx --tier T --seed N --shard i --nshards n --repo R --dir D [--only K] [--from K]
//!
//! `run` is the orchestrator: it spawns worker subprocesses (address-space capped, journaled),
//! merges what their monitors observed, classifies violations against known_findings.json,
//! writes evidence/<id>.json and replay files, and prints the verdict lines.

mod build;
mod exact;
mod gen;
mod model;
mod monitor;
mod mps_model;
mod props;
mod qplib_model;
mod rng;
mod wire;

use monitor::Monitor;
use rng::Rng;
use serde_json::{json, Value};
use std::collections::{BTreeMap, HashMap, HashSet};
use std::io::{Read, Write};
use std::os::unix::fs::FileExt;
use std::path::{Path, PathBuf};
use std::process::{Child, Command, Stdio};
use std::time::{Duration, Instant};

/// wall-clock limit of a single case (generous: cases take micro- to milliseconds)
const CASE_LIMIT_S: u64 = 300;

#[derive(Clone, Copy, Debug, PartialEq, Eq)]
pub enum Tier {
    Quick,
    Thorough,
}

impl Tier {
    fn name(&self) -> &'static str {
        match self {
            Tier::Quick => "quick",
            Tier::Thorough => "thorough",
        }
    }
}

pub struct Env {
    pub tier: Tier,
    pub seed: u64,
    pub repo: PathBuf,
    /// private scratch directory of this worker (created on demand, removed at the end)
    pub scratch: PathBuf,
}

pub trait Property: Sync {
    fn id(&self) -> &'static str;
    fn level(&self) -> &'static str {
        "exploration"
    }
    /// number of cases of a run; case k is a pure function of (seed, k)
    fn cases(&self, tier: Tier) -> u64;
    /// a run that saw fewer distinct non-trivial cases is inconclusive
    fn min_nontrivial(&self, tier: Tier) -> u64;
    fn rule(&self) -> &'static str;
    fn assumptions(&self) -> Vec<&'static str>;
    fn run_case(&self, k: u64, rng: &mut Rng, env: &Env, mon: &mut Monitor);
    /// true when the cases of this tier enumerate a finite space completely
    fn exhaustive(&self, _tier: Tier) -> bool {
        false
    }
}

fn args_map(args: &[String]) -> HashMap<String, String> {
    let mut m = HashMap::new();
    let mut i = 0;
    while i < args.len() {
        if let Some(k) = args[i].strip_prefix("--") {
            if i + 1 < args.len() && !args[i + 1].starts_with("--") {
                m.insert(k.to_string(), args[i + 1].clone());
                i += 2;
                continue;
            }
            m.insert(k.to_string(), "1".to_string());
        }
        i += 1;
    }
    m
}

fn parse_tier(s: &str) -> Tier {
    match s {
        "thorough" => Tier::Thorough,
        _ => Tier::Quick,
    }
}

fn main() {
    let args: Vec<String> = std::env::args().collect();
    if args.len() < 2 {
        eprintln!("usage: ommx-verif run|worker ...");
        std::process::exit(2);
    }
    let m = args_map(&args[2..]);
    let code = match args[1].as_str() {
        "run" => orchestrate(&m),
        "worker" => worker(&m),
        // prints the schema of <repo>/proto in the frozen form (see wire::lock_text); used once, on the
        // pinned commit, to produce harness/src/schema_lock.tsv
        "schema-lock" => match wire::Schema::from_proto_dir(&PathBuf::from(m.get("repo").cloned().unwrap_or_else(|| "/repo".into())).join("proto")) {
            Ok(s) => {
                print!("{}", wire::lock_text(&s));
                0
            }
            Err(e) => {
                eprintln!("{e}");
                2
            }
        },
        _ => {
            eprintln!("unknown subcommand");
            2
        }
    };
    std::process::exit(code);
}

// ---------------------------------------------------------------------------------------------
// worker

fn worker(m: &HashMap<String, String>) -> i32 {
    let prop_id = m.get("prop").cloned().unwrap_or_default();
    let Some(prop) = props::lookup(&prop_id) else {
        eprintln!("unknown property {prop_id}");
        return 2;
    };
    let tier = parse_tier(m.get("tier").map(|s| s.as_str()).unwrap_or("quick"));
    let seed: u64 = m.get("seed").and_then(|s| s.parse().ok()).unwrap_or(1);
    let shard: u64 = m.get("shard").and_then(|s| s.parse().ok()).unwrap_or(0);
    let nshards: u64 = m.get("nshards").and_then(|s| s.parse().ok()).unwrap_or(1);
    let dir = PathBuf::from(m.get("dir").cloned().unwrap_or_else(|| ".".into()));
    let repo = PathBuf::from(m.get("repo").cloned().unwrap_or_else(|| "/repo".into()));
    let only: Option<u64> = m.get("only").and_then(|s| s.parse().ok());
    let from: u64 = m.get("from").and_then(|s| s.parse().ok()).unwrap_or(0);
    let until: u64 = m.get("until").and_then(|s| s.parse().ok()).unwrap_or(u64::MAX);
    let verbose = m.contains_key("verbose");

    monitor::install_panic_hook();
    let scratch = dir.join(format!("scratch-{shard}"));
    let env = Env {
        tier,
        seed,
        repo,
        scratch: scratch.clone(),
    };
    let journal = std::fs::OpenOptions::new()
        .create(true)
        .write(true)
        .truncate(false)
        .open(dir.join(format!("journal-{shard}")))
        .expect("journal");
    let mut mon = Monitor::new();
    mon.replay_mode = verbose;
    // Per-case wall-clock watchdog: a case that runs longer than CASE_LIMIT_S (harness loop, SDK hang
    // without a hooked budget) ends this worker with exit code 97; the orchestrator reports the case
    // as INCONCLUSIVE (never as a violation) and resumes the shard after it.
    let case_started = std::sync::Arc::new(std::sync::atomic::AtomicU64::new(0));
    {
        let cs = case_started.clone();
        std::thread::spawn(move || loop {
            std::thread::sleep(Duration::from_millis(500));
            let t = cs.load(std::sync::atomic::Ordering::Relaxed);
            if t != 0 {
                let now = std::time::SystemTime::now().duration_since(std::time::UNIX_EPOCH).map(|d| d.as_secs()).unwrap_or(0);
                if now.saturating_sub(t) > CASE_LIMIT_S {
                    eprintln!("case exceeded {CASE_LIMIT_S} s of wall clock");
                    std::process::exit(97);
                }
            }
        });
    }
    let total = prop.cases(tier);
    let mut done = 0u64;
    let mut run_one = |k: u64, mon: &mut Monitor| {
        // BEGIN marker: case index + 1 (0 = idle), written straight to the kernel
        let _ = journal.write_at(&(k + 1).to_le_bytes(), 0);
        let now = std::time::SystemTime::now().duration_since(std::time::UNIX_EPOCH).map(|d| d.as_secs()).unwrap_or(1);
        case_started.store(now.max(1), std::sync::atomic::Ordering::Relaxed);
        mon.case = k;
        let mut rng = Rng::for_case(seed, prop.id(), k);
        // a panic of the harness itself (not inside a probe) is a harness error, reported as such
        let r = std::panic::catch_unwind(std::panic::AssertUnwindSafe(|| {
            prop.run_case(k, &mut rng, &env, mon);
        }));
        if let Err(p) = r {
            let msg = if let Some(s) = p.downcast_ref::<String>() {
                s.clone()
            } else if let Some(s) = p.downcast_ref::<&str>() {
                s.to_string()
            } else {
                "<panic>".to_string()
            };
            let _ = ommx::verif::drain();
            mon.violations.push(monitor::Violation {
                case: k,
                signature: "HARNESS-ERROR".into(),
                detail: format!("harness panicked outside a probe: {msg}"),
            });
        }
        case_started.store(0, std::sync::atomic::Ordering::Relaxed);
        let _ = journal.write_at(&0u64.to_le_bytes(), 0);
    };
    if let Some(k) = only {
        run_one(k, &mut mon);
        done = 1;
    } else {
        let mut k = shard;
        while k < total {
            if k >= from && k < until {
                run_one(k, &mut mon);
                done += 1;
            }
            k += nshards;
        }
    }
    let _ = std::fs::remove_dir_all(&scratch);
    // results
    let suffix = if only.is_some() { format!("{shard}-only") } else { format!("{shard}") };
    let mut v = mon.to_json();
    v["cases_run"] = json!(done);
    let tmp = dir.join(format!("result-{suffix}.json.tmp"));
    std::fs::write(&tmp, serde_json::to_vec(&v).unwrap()).expect("write result");
    let mut fp = Vec::with_capacity(mon.fingerprints.len() * 8);
    for f in &mon.fingerprints {
        fp.extend_from_slice(&f.to_le_bytes());
    }
    std::fs::write(dir.join(format!("fp-{suffix}.bin")), fp).expect("write fp");
    std::fs::rename(&tmp, dir.join(format!("result-{suffix}.json"))).expect("rename");
    0
}

// ---------------------------------------------------------------------------------------------
// orchestrator

struct Known {
    signature: String,
    status: String,
    what: String,
}

fn load_known(verif: &Path, prop: &str) -> Vec<Known> {
    let p = verif.join("known_findings.json");
    let Ok(s) = std::fs::read_to_string(&p) else {
        return vec![];
    };
    let Ok(v) = serde_json::from_str::<Value>(&s) else {
        eprintln!("warning: known_findings.json does not parse");
        return vec![];
    };
    let mut out = vec![];
    if let Some(a) = v.get("findings").and_then(|a| a.as_array()) {
        for e in a {
            if e.get("property").and_then(|x| x.as_str()) == Some(prop) {
                out.push(Known {
                    signature: e.get("signature").and_then(|x| x.as_str()).unwrap_or("").to_string(),
                    status: e.get("status").and_then(|x| x.as_str()).unwrap_or("open").to_string(),
                    what: e.get("what").and_then(|x| x.as_str()).unwrap_or("").to_string(),
                });
            }
        }
    }
    out
}

fn spawn_worker(exe: &Path, common: &[String], extra: &[String], mem_kb: u64) -> std::io::Result<Child> {
    // address-space cap through the shell's ulimit, then exec the worker
    let mut cmd = Command::new("sh");
    cmd.arg("-c")
        .arg(format!("ulimit -v {mem_kb}; exec \"$0\" \"$@\""))
        .arg(exe)
        .arg("worker")
        .args(common)
        .args(extra)
        .env("RUST_BACKTRACE", "0")
        .env("RUST_LIB_BACKTRACE", "0")
        .stdin(Stdio::null())
        .stdout(Stdio::piped())
        .stderr(Stdio::piped());
    cmd.spawn()
}

fn read_journal(dir: &Path, shard: u64) -> Option<u64> {
    let mut f = std::fs::File::open(dir.join(format!("journal-{shard}"))).ok()?;
    let mut b = [0u8; 8];
    f.read_exact(&mut b).ok()?;
    let v = u64::from_le_bytes(b);
    if v == 0 {
        None
    } else {
        Some(v - 1)
    }
}

struct Merged {
    evaluations: u64,
    cases_run: u64,
    hook_events: u64,
    fingerprints: HashSet<u64>,
    facets: BTreeMap<String, u64>,
    observations: BTreeMap<String, u64>,
    distinct: BTreeMap<String, HashSet<u64>>,
    samples: Vec<Value>,
    violations: Vec<(u64, String, String)>,
}

fn merge_result(dir: &Path, suffix: &str, mg: &mut Merged) -> bool {
    let Ok(s) = std::fs::read(dir.join(format!("result-{suffix}.json"))) else {
        return false;
    };
    let Ok(v) = serde_json::from_slice::<Value>(&s) else {
        return false;
    };
    mg.evaluations += v["evaluations"].as_u64().unwrap_or(0);
    mg.cases_run += v["cases_run"].as_u64().unwrap_or(0);
    mg.hook_events += v["hook_events"].as_u64().unwrap_or(0);
    for (name, target) in [("facets", &mut mg.facets), ("observations", &mut mg.observations)] {
        if let Some(o) = v[name].as_object() {
            for (k, n) in o {
                *target.entry(k.clone()).or_insert(0) += n.as_u64().unwrap_or(0);
            }
        }
    }
    if let Some(o) = v["distinct"].as_object() {
        for (k, a) in o {
            let set = mg.distinct.entry(k.clone()).or_default();
            for x in a.as_array().into_iter().flatten() {
                if let Some(n) = x.as_u64() {
                    set.insert(n);
                }
            }
        }
    }
    if let Some(a) = v["samples"].as_array() {
        for s in a {
            if mg.samples.len() < 5 {
                mg.samples.push(s.clone());
            }
        }
    }
    if let Some(a) = v["violations"].as_array() {
        for x in a {
            mg.violations.push((
                x["case"].as_u64().unwrap_or(0),
                x["signature"].as_str().unwrap_or("").to_string(),
                x["detail"].as_str().unwrap_or("").to_string(),
            ));
        }
    }
    if let Ok(b) = std::fs::read(dir.join(format!("fp-{suffix}.bin"))) {
        for c in b.chunks_exact(8) {
            mg.fingerprints.insert(u64::from_le_bytes(c.try_into().unwrap()));
        }
    }
    true
}

fn orchestrate(m: &HashMap<String, String>) -> i32 {
    let t0 = Instant::now();
    let prop_id = m.get("prop").cloned().unwrap_or_default();
    let Some(prop) = props::lookup(&prop_id) else {
        println!("INCONCLUSIVE: unknown property {prop_id}");
        return 2;
    };
    let tier = parse_tier(m.get("tier").map(|s| s.as_str()).unwrap_or("quick"));
    let seed: u64 = m.get("seed").and_then(|s| s.parse().ok()).unwrap_or(1);
    let repo = PathBuf::from(m.get("repo").cloned().unwrap_or_else(|| "/repo".into()));
    let verif = PathBuf::from(m.get("verif").cloned().unwrap_or_else(|| "/verif".into()));
    let out = PathBuf::from(m.get("out").cloned().unwrap_or_else(|| "/verif".into()));
    let jobs: u64 = m.get("jobs").and_then(|s| s.parse().ok()).unwrap_or(16).max(1);
    let exe = std::env::current_exe().expect("current_exe");

    if let Some(f) = m.get("replay") {
        return replay(prop, Path::new(f), &repo, &out);
    }

    let total = prop.cases(tier);
    let nshards = jobs.min(total.max(1));
    let dir = out.join("scratch").join(format!("{}-{}-{}-{}", prop.id(), tier.name(), seed, std::process::id()));
    let _ = std::fs::remove_dir_all(&dir);
    std::fs::create_dir_all(&dir).expect("run dir");
    let common: Vec<String> = vec![
        "--prop".into(), prop.id().into(),
        "--tier".into(), tier.name().into(),
        "--seed".into(), seed.to_string(),
        "--nshards".into(), nshards.to_string(),
        "--repo".into(), repo.display().to_string(),
        "--dir".into(), dir.display().to_string(),
    ];
    let mem_kb: u64 = 4 * 1024 * 1024;
    // generous wall-clock watchdog; its firing is INCONCLUSIVE, never a violation
    let watchdog = match tier {
        Tier::Quick => Duration::from_secs(900),
        Tier::Thorough => Duration::from_secs(2 * 3600),
    };

    let mut inconclusive: Vec<String> = vec![];
    let mut crash_violations: Vec<(u64, String, String)> = vec![];
    let mut mg = Merged {
        evaluations: 0,
        cases_run: 0,
        hook_events: 0,
        fingerprints: HashSet::new(),
        facets: BTreeMap::new(),
        observations: BTreeMap::new(),
        distinct: BTreeMap::new(),
        samples: vec![],
        violations: vec![],
    };

    // work items (shard, from, until); when a worker dies, the journaled case is re-run alone,
    // the cases before it are re-run (their monitor state died with the process) and the shard
    // is resumed after it
    let mut pending: Vec<(u64, u64, u64)> = (0..nshards).map(|s| (s, 0, u64::MAX)).collect();
    let mut deferred: Vec<(u64, u64, u64)> = vec![];
    let mut rounds = 0u64;
    while !pending.is_empty() {
        let mut children: Vec<(u64, u64, u64, Child)> = vec![];
        for (shard, from, until) in pending.drain(..) {
            let _ = std::fs::remove_file(dir.join(format!("result-{shard}.json")));
            let _ = std::fs::remove_file(dir.join(format!("journal-{shard}")));
            let extra = vec![
                "--shard".to_string(), shard.to_string(),
                "--from".to_string(), from.to_string(),
                "--until".to_string(), until.to_string(),
            ];
            match spawn_worker(&exe, &common, &extra, mem_kb) {
                Ok(c) => children.push((shard, from, until, c)),
                Err(e) => inconclusive.push(format!("cannot spawn worker {shard}: {e}")),
            }
        }
        let mut next: Vec<(u64, u64, u64)> = vec![];
        for (shard, from, until, mut child) in children {
            let status = wait_with_deadline(&mut child, t0 + watchdog);
            let mut stderr = String::new();
            if let Some(mut e) = child.stderr.take() {
                let _ = e.read_to_string(&mut stderr);
            }
            match status {
                None => {
                    let at = read_journal(&dir, shard);
                    inconclusive.push(format!("watchdog fired for shard {shard} (in case {at:?})"));
                }
                Some(st) if st.success() => {
                    if !merge_result(&dir, &format!("{shard}"), &mut mg) {
                        inconclusive.push(format!("shard {shard}: result file missing"));
                    }
                }
                Some(st) if st.code() == Some(97) => {
                    // the worker's own per-case watchdog fired: inconclusive, resume after the case
                    let at = read_journal(&dir, shard);
                    inconclusive.push(format!("shard {shard}: case {at:?} exceeded the per-case wall-clock limit of {CASE_LIMIT_S} s (harness loop or SDK hang) — not a verdict"));
                    if let Some(k) = at {
                        if k > from {
                            next.push((shard, from, k));
                        }
                        if k + 1 < until {
                            next.push((shard, k + 1, until));
                        }
                    }
                }
                Some(st) => {
                    let at = read_journal(&dir, shard);
                    let tail: String = stderr.lines().rev().take(3).collect::<Vec<_>>().join(" | ");
                    match at {
                        None => inconclusive.push(format!("shard {shard} died ({st}) outside any case: {tail}")),
                        Some(k) => {
                            let extra = vec![
                                "--shard".to_string(), shard.to_string(),
                                "--only".to_string(), k.to_string(),
                            ];
                            let again = spawn_worker(&exe, &common, &extra, mem_kb)
                                .ok()
                                .and_then(|mut c| wait_with_deadline(&mut c, Instant::now() + Duration::from_secs(600)));
                            match again {
                                Some(st2) if !st2.success() => {
                                    crash_violations.push((
                                        k,
                                        format!("{}.crash:process-died", prop.id()),
                                        format!("worker died twice in case {k} under a {mem_kb} KiB address-space cap: first {st}, again {st2}; stderr: {tail}"),
                                    ));
                                }
                                Some(_) => {
                                    merge_result(&dir, &format!("{shard}-only"), &mut mg);
                                    inconclusive.push(format!("shard {shard} died ({st}) in case {k} but the case did not reproduce the crash"));
                                }
                                None => inconclusive.push(format!("re-run of case {k} timed out")),
                            }
                            if k > from {
                                next.push((shard, from, k));
                            }
                            if k + 1 < until {
                                next.push((shard, k + 1, until));
                            }
                        }
                    }
                }
            }
        }
        // two items of the same shard must not run concurrently (they share file names)
        deferred.extend(next);
        let mut seen = HashSet::new();
        let mut keep = vec![];
        for it in deferred.drain(..) {
            if seen.insert(it.0) {
                pending.push(it);
            } else {
                keep.push(it);
            }
        }
        deferred = keep;
        rounds += 1;
        if rounds > 200 {
            inconclusive.push("too many crash/resume rounds".into());
            break;
        }
    }
    mg.violations.extend(crash_violations);

    // classify
    let known = load_known(&verif, prop.id());
    let mut by_sig: BTreeMap<String, Vec<(u64, String)>> = BTreeMap::new();
    for (case, sig, detail) in &mg.violations {
        by_sig.entry(sig.clone()).or_default().push((*case, detail.clone()));
    }
    let replays = out.join("replays");
    let _ = std::fs::create_dir_all(&replays);
    let mut unknown = 0usize;
    let mut known_hits = 0usize;
    let mut lines: Vec<String> = vec![];
    let mut violation_summaries: Vec<Value> = vec![];
    for (sig, hits) in &by_sig {
        let (case, detail) = &hits[0];
        if sig == "HARNESS-ERROR" {
            inconclusive.push(format!("harness error in case {case}: {detail}"));
            continue;
        }
        if let Some(k) = known.iter().find(|k| &k.signature == sig && k.status == "open") {
            known_hits += 1;
            lines.push(format!("KNOWN-FINDING: property={} {} [{} — {} case(s), e.g. case {}]", prop.id(), k.what, sig, hits.len(), case));
            continue;
        }
        unknown += 1;
        let fname = format!(
            "{}-{}-{}-{}.json",
            prop.id(), seed, case,
            sig.chars().map(|c| if c.is_ascii_alphanumeric() { c } else { '_' }).take(60).collect::<String>()
        );
        let path = replays.join(fname);
        let body = json!({
            "property": prop.id(), "tier": tier.name(), "seed": seed, "case": case,
            "signature": sig, "detail": detail, "occurrences": hits.len(),
            "replay": format!("./check {} {} --replay {}", prop.id(), tier.name(), path.display()),
        });
        let _ = std::fs::write(&path, serde_json::to_string_pretty(&body).unwrap());
        lines.push(format!("VIOLATION property={} replay={}", prop.id(), path.display()));
        lines.push(format!("  signature: {sig} ({} case(s))", hits.len()));
        let first = detail.lines().take(12).collect::<Vec<_>>().join("\n    ");
        lines.push(format!("    {first}"));
        violation_summaries.push(json!({"signature": sig, "cases": hits.len(), "first_case": case}));
    }

    let distinct = mg.fingerprints.len() as u64;
    let floor = prop.min_nontrivial(tier);
    if distinct < floor {
        inconclusive.push(format!("only {distinct} distinct non-trivial cases observed (floor {floor})"));
    }
    if mg.cases_run + (mg.violations.iter().filter(|v| v.1.ends_with(".crash:process-died")).count() as u64) < total && inconclusive.is_empty() && unknown == 0 {
        inconclusive.push(format!("only {} of {} cases ran", mg.cases_run, total));
    }
    let wall = t0.elapsed().as_secs_f64();

    // evidence
    let mut coverage = json!({
        "evaluations": mg.evaluations,
        "distinct_nontrivial": distinct,
        "rule": prop.rule(),
        "samples": mg.samples,
        "cases": mg.cases_run,
        "cases_planned": total,
        "facets": mg.facets,
        "observations_not_judged": mg.observations,
        "hook_events_observed": mg.hook_events,
        "distinct_sets": mg.distinct.iter().map(|(k, v)| (k.clone(), v.len())).collect::<BTreeMap<_, _>>(),
        "workers": nshards,
        "known_findings_hit": known_hits,
        "violation_signatures": violation_summaries,
        "inconclusive": inconclusive,
        "build_profile": "release opt-level=2 debug-assertions=on overflow-checks=on, ommx feature verif-hooks",
    });
    if prop.exhaustive(tier) {
        coverage["exhaustive"] = json!(true);
    }
    if coverage["samples"].as_array().map_or(true, |a| a.is_empty()) {
        coverage["samples"] = json!(["<no sample recorded>"]);
    }
    let evidence = json!({
        "property_id": prop.id(),
        "tier": tier.name(),
        "seed": seed,
        "level": prop.level(),
        "coverage": coverage,
        "assumptions": prop.assumptions(),
        "wall_s": wall,
        "violations": unknown,
    });
    let evdir = out.join("evidence");
    let _ = std::fs::create_dir_all(&evdir);
    let evpath = evdir.join(format!("{}.json", prop.id()));
    if let Err(e) = std::fs::write(&evpath, serde_json::to_string_pretty(&evidence).unwrap()) {
        inconclusive.push(format!("cannot write evidence: {e}"));
    }
    let _ = std::fs::remove_dir_all(&dir);

    for l in &lines {
        println!("{l}");
    }
    println!(
        "{} {} seed={} cases={} evaluations={} distinct_nontrivial={} hook_events={} known_findings={} wall={:.1}s",
        prop.id(), tier.name(), seed, mg.cases_run, mg.evaluations, distinct, mg.hook_events, known_hits, wall
    );
    let _ = std::io::stdout().flush();
    if unknown > 0 {
        return 1;
    }
    if !inconclusive.is_empty() {
        for i in &inconclusive {
            println!("INCONCLUSIVE: {i}");
        }
        return 2;
    }
    println!("HELD on what was observed: property={}", prop.id());
    0
}

fn wait_with_deadline(child: &mut Child, deadline: Instant) -> Option<std::process::ExitStatus> {
    loop {
        match child.try_wait() {
            Ok(Some(st)) => return Some(st),
            Ok(None) => {
                if Instant::now() > deadline {
                    let _ = child.kill();
                    let _ = child.wait();
                    return None;
                }
                std::thread::sleep(Duration::from_millis(20));
            }
            Err(_) => return None,
        }
    }
}

fn replay(prop: &'static dyn Property, file: &Path, repo: &Path, out: &Path) -> i32 {
    let Ok(s) = std::fs::read_to_string(file) else {
        println!("INCONCLUSIVE: cannot read replay file {}", file.display());
        return 2;
    };
    let Ok(v) = serde_json::from_str::<Value>(&s) else {
        println!("INCONCLUSIVE: replay file does not parse");
        return 2;
    };
    let seed = v["seed"].as_u64().unwrap_or(1);
    let case = v["case"].as_u64().unwrap_or(0);
    let tier = parse_tier(v["tier"].as_str().unwrap_or("quick"));
    monitor::install_panic_hook();
    let scratch = out.join("scratch").join(format!("replay-{}", std::process::id()));
    let env = Env {
        tier,
        seed,
        repo: repo.to_path_buf(),
        scratch: scratch.clone(),
    };
    let mut mon = Monitor::new();
    mon.replay_mode = true;
    mon.case = case;
    println!("replaying {} case {} (seed {}, tier {})", prop.id(), case, seed, tier.name());
    let mut rng = Rng::for_case(seed, prop.id(), case);
    prop.run_case(case, &mut rng, &env, &mut mon);
    let _ = std::fs::remove_dir_all(&scratch);
    if mon.violations.is_empty() {
        println!("no violation in this case on the current tree");
        0
    } else {
        println!("VIOLATION property={} replay={}", prop.id(), file.display());
        1
    }
}
