//! Abstract LP/MIP model, an independent free-format MPS writer with layout switches, and the
//! *expected problem* computed from the abstract model (never from the rendered text).
//! Shares no code with the SDK's reader or writer. Also the value-domain model of DESIGN §4
//! used by C17 and C18 (`integer [0,1]` and `binary` are the same domain).

use crate::exact::{qfrac, Poly, Q};
use crate::rng::Rng;
use num::Zero;
use ommx::v1;

// ---------------------------------------------------------------------------------------------
// numbers: short dyadic decimals k/den (den in 1,2,4,8), so every correct parser returns the
// exact value and every rendering below denotes exactly k/den

#[derive(Clone, Copy, Debug, PartialEq, Eq)]
pub struct Num {
    pub k: i64,
    pub den: i64,
}

impl Num {
    pub fn new(k: i64, den: i64) -> Num {
        assert!(matches!(den, 1 | 2 | 4 | 8), "harness: denominators are 1,2,4,8");
        Num { k, den }
    }
    pub fn int(k: i64) -> Num {
        Num { k, den: 1 }
    }
    pub fn q(&self) -> Q {
        qfrac(self.k, self.den)
    }
    pub fn f(&self) -> f64 {
        self.k as f64 / self.den as f64
    }
    pub fn is_zero(&self) -> bool {
        self.k == 0
    }
    pub fn is_neg(&self) -> bool {
        self.k < 0
    }
    pub fn abs(&self) -> Num {
        Num { k: self.k.abs(), den: self.den }
    }
    /// plain decimal text, e.g. `-2.125`
    pub fn plain(&self) -> String {
        let m = self.k.unsigned_abs() * 1000 / self.den as u64; // thousandths, exact
        let (ip, fp) = (m / 1000, m % 1000);
        let mut s = String::new();
        if self.k < 0 {
            s.push('-');
        }
        s.push_str(&ip.to_string());
        if fp != 0 {
            let f = format!("{fp:03}");
            s.push('.');
            s.push_str(f.trim_end_matches('0'));
        }
        s
    }
    /// one of several spellings of the same decimal number
    pub fn render(&self, rng: &mut Rng) -> String {
        let neg = self.k < 0;
        let m = self.k.unsigned_abs() * 1000 / self.den as u64;
        let (ip, fp) = (m / 1000, m % 1000);
        let frac = format!("{fp:03}");
        let frac_short = frac.trim_end_matches('0').to_string();
        let body = match rng.below(10) {
            // exponent forms
            0 | 1 => {
                if m == 0 {
                    (*rng.pick(&["0e0", "0.0E+00", "0E1"])).to_string()
                } else {
                    // m = m0 * 10^t thousandths  =>  value = m0 * 10^(t-3)
                    let mut m0 = m;
                    let mut e: i64 = -3;
                    while m0 % 10 == 0 {
                        m0 /= 10;
                        e += 1;
                    }
                    let digits = m0.to_string();
                    let (mant, e) = if rng.bool() && digits.len() > 1 {
                        (format!("{}.{}", &digits[..1], &digits[1..]), e + digits.len() as i64 - 1)
                    } else {
                        (digits, e)
                    };
                    let ech = if rng.bool() { "e" } else { "E" };
                    let es = match rng.below(3) {
                        0 => format!("{e}"),
                        1 => format!("{}{:02}", if e < 0 { "-" } else { "+" }, e.abs()),
                        _ => format!("{}{}", if e < 0 { "-" } else { "+" }, e.abs()),
                    };
                    format!("{mant}{ech}{es}")
                }
            }
            // padded fraction / explicit ".0" / bare "."
            2 => {
                if fp == 0 {
                    format!("{ip}{}", rng.pick(&[".0", ".", ".00"]))
                } else {
                    format!("{ip}.{frac}")
                }
            }
            // leading dot for |v| < 1
            3 => {
                if ip == 0 && fp != 0 {
                    format!(".{frac_short}")
                } else if fp == 0 {
                    format!("{ip}")
                } else {
                    format!("{ip}.{frac_short}")
                }
            }
            _ => {
                if fp == 0 {
                    format!("{ip}")
                } else {
                    format!("{ip}.{frac_short}")
                }
            }
        };
        if neg {
            format!("-{body}")
        } else if rng.chance(1, 12) {
            format!("+{body}")
        } else {
            body
        }
    }
}

// ---------------------------------------------------------------------------------------------
// value domains (DESIGN §4)

#[derive(Clone, Copy, Debug, PartialEq, Eq)]
pub enum Kind {
    Continuous,
    Integer,
    Binary,
}

/// A value domain: an interval of reals, or the integers inside an interval (end points
/// normalised to integers). `binary` is `integer` intersected with [0,1]. All empty domains are
/// equal.
#[derive(Clone, Copy, Debug, PartialEq)]
pub struct Domain {
    pub discrete: bool,
    pub lo: f64,
    pub hi: f64,
}

impl Domain {
    pub fn new(kind: Kind, lo: f64, hi: f64) -> Domain {
        assert!(!lo.is_nan() && !hi.is_nan(), "harness: NaN bound in domain model");
        let (mut lo, mut hi) = (lo, hi);
        let discrete = kind != Kind::Continuous;
        if kind == Kind::Binary {
            lo = lo.max(0.0);
            hi = hi.min(1.0);
        }
        if discrete {
            lo = lo.ceil();
            hi = hi.floor();
        }
        if lo > hi {
            lo = f64::INFINITY;
            hi = f64::NEG_INFINITY;
        }
        Domain { discrete, lo: lo + 0.0, hi: hi + 0.0 }
    }
    pub fn show(&self) -> String {
        if self.lo > self.hi {
            return "empty".into();
        }
        let l = if self.lo == f64::NEG_INFINITY { "(-inf".to_string() } else { format!("[{}", self.lo) };
        let u = if self.hi == f64::INFINITY { "+inf)".to_string() } else { format!("{}]", self.hi) };
        format!("{} {l}, {u}", if self.discrete { "integer" } else { "continuous" })
    }
}

/// domain of a decision-variable message: unspecified bound = unbounded, [0,1] for binary
pub fn domain_of_dvar(v: &v1::DecisionVariable) -> Option<Domain> {
    let kind = match v.kind {
        1 => Kind::Binary,
        2 => Kind::Integer,
        3 => Kind::Continuous,
        _ => return None,
    };
    let (lo, hi) = match &v.bound {
        Some(b) => (b.lower, b.upper),
        None => {
            if kind == Kind::Binary {
                (0.0, 1.0)
            } else {
                (f64::NEG_INFINITY, f64::INFINITY)
            }
        }
    };
    if lo.is_nan() || hi.is_nan() {
        return None;
    }
    Some(Domain::new(kind, lo, hi))
}

// ---------------------------------------------------------------------------------------------
// abstract model

#[derive(Clone, Copy, Debug, PartialEq, Eq)]
pub enum RowType {
    E,
    L,
    G,
}

impl RowType {
    pub fn letter(&self) -> &'static str {
        match self {
            RowType::E => "E",
            RowType::L => "L",
            RowType::G => "G",
        }
    }
}

#[derive(Clone, Copy, Debug, PartialEq, Eq)]
pub enum BoundType {
    UP,
    LO,
    FX,
    MI,
    PL,
    FR,
    BV,
    LI,
    UI,
}

impl BoundType {
    pub fn word(&self) -> &'static str {
        match self {
            BoundType::UP => "UP",
            BoundType::LO => "LO",
            BoundType::FX => "FX",
            BoundType::MI => "MI",
            BoundType::PL => "PL",
            BoundType::FR => "FR",
            BoundType::BV => "BV",
            BoundType::LI => "LI",
            BoundType::UI => "UI",
        }
    }
    pub fn has_value(&self) -> bool {
        matches!(self, BoundType::UP | BoundType::LO | BoundType::FX | BoundType::LI | BoundType::UI)
    }
}

#[derive(Clone, Debug)]
pub struct Column {
    pub name: String,
    /// listed between 'MARKER' 'INTORG' and 'MARKER' 'INTEND'
    pub integer: bool,
    pub obj: Option<Num>,
    /// (row index, coefficient), each row at most once
    pub coefs: Vec<(usize, Num)>,
}

#[derive(Clone, Debug)]
pub struct Row {
    pub name: String,
    pub ty: RowType,
    pub rhs: Option<Num>,
    /// never zero
    pub range: Option<Num>,
}

#[derive(Clone, Debug)]
pub struct Model {
    pub name: String,
    /// None: no OBJSENSE section (minimise); Some(false): MIN; Some(true): MAX
    pub sense: Option<bool>,
    pub obj_name: String,
    /// position of the N line among the lines of ROWS (0..=rows.len())
    pub obj_pos: usize,
    pub columns: Vec<Column>,
    pub rows: Vec<Row>,
    /// RHS entry on the objective row: the objective constant is its negative
    pub obj_rhs: Option<Num>,
    /// in file order; value present exactly for UP LO FX LI UI
    pub bounds: Vec<(BoundType, usize, Option<Num>)>,
}

impl Model {
    pub fn bound_words(&self, col: usize) -> Vec<&'static str> {
        self.bounds.iter().filter(|b| b.1 == col).map(|b| b.0.word()).collect()
    }
}

// ---------------------------------------------------------------------------------------------
// expected problem

#[derive(Clone, Debug)]
pub struct ExpectedRow {
    pub name: String,
    pub ty: RowType,
    /// 0 not ranged, +1 / -1 sign of the RANGES entry
    pub range_sign: i8,
    /// (function over column indices, is-equality); `<= 0` when not equality
    pub constraints: Vec<(Poly, bool)>,
}

#[derive(Clone, Debug)]
pub struct Expected {
    pub maximize: bool,
    /// over column indices, constant included
    pub objective: Poly,
    pub constant: Q,
    pub rows: Vec<ExpectedRow>,
    pub domains: Vec<Domain>,
}

fn domain_of_column(m: &Model, j: usize) -> Domain {
    let mut kind = if m.columns[j].integer { Kind::Integer } else { Kind::Continuous };
    let mut lo = 0.0f64;
    let mut hi = f64::INFINITY;
    let mut lower_given = false;
    for (ty, col, v) in &m.bounds {
        if *col != j {
            continue;
        }
        let val = v.map(|n| n.f());
        match ty {
            BoundType::UP => hi = val.expect("harness: UP needs a value"),
            BoundType::LO => {
                lo = val.expect("harness: LO needs a value");
                lower_given = true;
            }
            BoundType::FX => {
                lo = val.expect("harness: FX needs a value");
                hi = lo;
                lower_given = true;
            }
            BoundType::MI => {
                lo = f64::NEG_INFINITY;
                lower_given = true;
            }
            BoundType::PL => hi = f64::INFINITY,
            BoundType::FR => {
                lo = f64::NEG_INFINITY;
                hi = f64::INFINITY;
                lower_given = true;
            }
            BoundType::BV => {
                kind = Kind::Binary;
                lo = 0.0;
                hi = 1.0;
                lower_given = true;
            }
            BoundType::LI => {
                if kind == Kind::Continuous {
                    kind = Kind::Integer;
                }
                lo = val.expect("harness: LI needs a value");
                lower_given = true;
            }
            BoundType::UI => {
                if kind == Kind::Continuous {
                    kind = Kind::Integer;
                }
                hi = val.expect("harness: UI needs a value");
            }
        }
    }
    // classic rule: a negative upper bound without any lower bound opens the lower bound
    if !lower_given && hi < 0.0 {
        lo = f64::NEG_INFINITY;
    }
    assert!(lower_given || hi != 0.0, "harness: `UP 0` without a lower bound is ambiguous and must not be generated");
    Domain::new(kind, lo, hi)
}

pub fn expected(m: &Model) -> Expected {
    let mut objective = Poly::zero();
    for (j, c) in m.columns.iter().enumerate() {
        if let Some(v) = c.obj {
            objective.add_term(vec![j as u64], v.q());
        }
    }
    let constant = match m.obj_rhs {
        Some(r) => -r.q(),
        None => Q::zero(),
    };
    objective.add_term(vec![], constant.clone());
    let mut rows = vec![];
    for (i, r) in m.rows.iter().enumerate() {
        let mut f = Poly::zero();
        for (j, c) in m.columns.iter().enumerate() {
            for (ri, v) in &c.coefs {
                if *ri == i {
                    f.add_term(vec![j as u64], v.q());
                }
            }
        }
        let rhs = r.rhs.map(|n| n.q()).unwrap_or_else(Q::zero);
        let f_minus = |b: &Q| f.sub(&Poly::constant(b.clone()));
        let (constraints, range_sign) = match r.range {
            None => (
                match r.ty {
                    RowType::E => vec![(f_minus(&rhs), true)],
                    RowType::L => vec![(f_minus(&rhs), false)],
                    RowType::G => vec![(f_minus(&rhs).neg(), false)],
                },
                0,
            ),
            Some(rg) => {
                assert!(!rg.is_zero(), "harness: RANGES value 0 must not be generated");
                let a = rg.abs().q();
                let (lo, hi) = match (r.ty, rg.is_neg()) {
                    (RowType::G, _) => (rhs.clone(), &rhs + &a),
                    (RowType::L, _) => (&rhs - &a, rhs.clone()),
                    (RowType::E, false) => (rhs.clone(), &rhs + &a),
                    (RowType::E, true) => (&rhs - &a, rhs.clone()),
                };
                // lo <= f <= hi   <=>   f - hi <= 0  and  lo - f <= 0
                (vec![(f_minus(&hi), false), (f_minus(&lo).neg(), false)], if rg.is_neg() { -1 } else { 1 })
            }
        };
        rows.push(ExpectedRow {
            name: r.name.clone(),
            ty: r.ty,
            range_sign,
            constraints,
        });
    }
    let domains = (0..m.columns.len()).map(|j| domain_of_column(m, j)).collect();
    Expected {
        maximize: m.sense == Some(true),
        objective,
        constant,
        rows,
        domains,
    }
}

// ---------------------------------------------------------------------------------------------
// writer

#[derive(Clone, Copy, Debug, PartialEq, Eq)]
pub enum ObjSenseStyle {
    Inline,
    OwnLine,
}

#[derive(Clone, Debug)]
pub struct Layout {
    pub objsense: ObjSenseStyle,
    pub cols5: bool,
    pub rhs5: bool,
    pub ranges5: bool,
    pub comments: bool,
    pub blanks: bool,
    pub tabs: bool,
    pub wide: bool,
    pub crlf: bool,
    pub trailing_ws: bool,
    /// headers of empty RHS / RANGES / BOUNDS sections are written anyway
    pub empty_sections: bool,
    pub final_newline: bool,
    /// MI / PL / FR / BV lines carry a (meaningless) value field, as some writers emit
    pub valueless_with_value: bool,
    /// adjacent integer columns are sometimes put in separate marker blocks
    pub split_marker_blocks: bool,
    /// bound lines interleaved across columns instead of grouped per column (decided by the
    /// generator of the model; recorded here for the evidence only)
    pub rhs_name: String,
    pub range_name: String,
    pub bound_name: String,
}

impl Layout {
    pub fn random(rng: &mut Rng) -> Layout {
        Layout {
            objsense: if rng.bool() { ObjSenseStyle::Inline } else { ObjSenseStyle::OwnLine },
            cols5: rng.bool(),
            rhs5: rng.bool(),
            ranges5: rng.bool(),
            comments: rng.chance(1, 2),
            blanks: rng.chance(1, 3),
            tabs: rng.chance(1, 3),
            wide: rng.chance(1, 2),
            crlf: rng.chance(1, 8),
            trailing_ws: rng.chance(1, 4),
            empty_sections: rng.bool(),
            final_newline: rng.chance(7, 8),
            valueless_with_value: rng.chance(1, 6),
            split_marker_blocks: rng.chance(1, 4),
            rhs_name: (*rng.pick(&["RHS", "rhs", "B", "RHS1", "RHS_V"])).to_string(),
            range_name: (*rng.pick(&["RNG", "rng", "RANGE1", "R"])).to_string(),
            bound_name: (*rng.pick(&["BND", "bnd", "BOUND", "BND1", "BOUNDS1"])).to_string(),
        }
    }
    pub fn facets(&self) -> Vec<&'static str> {
        let mut v = vec![];
        if self.comments {
            v.push("comments");
        }
        if self.blanks {
            v.push("blank-lines");
        }
        if self.tabs {
            v.push("tabs");
        }
        if self.crlf {
            v.push("crlf");
        }
        if self.trailing_ws {
            v.push("trailing-whitespace");
        }
        if !self.final_newline {
            v.push("no-final-newline");
        }
        v
    }
}

/// deliberate defects of the text (error workloads) — or text the reader is known to ignore
#[derive(Clone, Copy, Debug, PartialEq, Eq)]
pub enum Fault {
    None,
    UndeclaredRowInColumns,
    UndeclaredRowInRanges,
    UnknownRowType,
    UnknownBoundType,
    BadMarker,
    BadObjSense,
    UnknownSection,
    BadNumber,
    /// not judged (DESIGN §6 C17 G)
    UndeclaredRowInRhs,
    /// not judged
    UndeclaredColumnInBounds,
}

impl Fault {
    pub fn name(&self) -> &'static str {
        match self {
            Fault::None => "none",
            Fault::UndeclaredRowInColumns => "undeclared-row-in-COLUMNS",
            Fault::UndeclaredRowInRanges => "undeclared-row-in-RANGES",
            Fault::UnknownRowType => "unknown-row-type",
            Fault::UnknownBoundType => "unknown-bound-type",
            Fault::BadMarker => "bad-marker",
            Fault::BadObjSense => "bad-OBJSENSE-value",
            Fault::UnknownSection => "unknown-section-keyword",
            Fault::BadNumber => "unparsable-number",
            Fault::UndeclaredRowInRhs => "undeclared-row-in-RHS",
            Fault::UndeclaredColumnInBounds => "undeclared-column-in-BOUNDS",
        }
    }
}

struct DLine {
    fields: Vec<String>,
    /// indices of fields that a reader must parse as numbers
    nums: Vec<usize>,
}

enum Item {
    Header(String),
    Data(DLine),
}

pub struct Rendered {
    pub text: String,
    /// layout features that actually occur in this text
    pub features: Vec<String>,
    /// where the fault was put (for the witness)
    pub fault_note: String,
}

fn pack(prefix: &str, entries: Vec<(String, String)>, five: bool, rng: &mut Rng, items: &mut Vec<Item>, used5: &mut bool, used3: &mut bool) {
    let mut i = 0;
    while i < entries.len() {
        let two = five && i + 1 < entries.len() && rng.chance(2, 3);
        if two {
            items.push(Item::Data(DLine {
                fields: vec![
                    prefix.to_string(),
                    entries[i].0.clone(),
                    entries[i].1.clone(),
                    entries[i + 1].0.clone(),
                    entries[i + 1].1.clone(),
                ],
                nums: vec![2, 4],
            }));
            *used5 = true;
            i += 2;
        } else {
            items.push(Item::Data(DLine {
                fields: vec![prefix.to_string(), entries[i].0.clone(), entries[i].1.clone()],
                nums: vec![2],
            }));
            *used3 = true;
            i += 1;
        }
    }
}

const GARBAGE_NUMBERS: [&str; 8] = ["abc", "1.2.3", "1,5", "--1", "1e", "0x10", "2..5", "1_000"];
const GARBAGE_ROW_TYPES: [&str; 6] = ["X", "Q", "EQ", "GE", "Z", "LE"];
const GARBAGE_BOUND_TYPES: [&str; 6] = ["XX", "UB", "LB", "BN", "LOW", "U"];
const GARBAGE_MARKERS: [&str; 4] = ["'INTBEG'", "'INTSTART'", "'INTORGX'", "'END'"];
const GARBAGE_SENSES: [&str; 5] = ["BIG", "UP", "MINMAX", "LARGEST", "DOWN"];
const GARBAGE_SECTIONS: [&str; 8] = ["ROWZ", "COLUMN", "COLS", "RANGE", "BOUND", "CONSTRAINTS", "SECTION", "ENDDATA"];

/// Render the model as free-format MPS text. Section headers start in column 1, data lines start
/// with a space; fields are separated by runs of spaces and/or tabs.
pub fn render(m: &Model, lay: &Layout, fault: Fault, rng: &mut Rng) -> Rendered {
    let mut items: Vec<Item> = vec![];
    let mut feats: Vec<String> = vec![];
    let mut note = String::new();
    let undeclared_row = "NOSUCHROW".to_string();

    // NAME
    if m.name.is_empty() {
        items.push(Item::Header("NAME".into()));
    } else {
        items.push(Item::Header(format!("NAME{}{}", if lay.wide { "          " } else { " " }, m.name)));
    }

    // OBJSENSE
    let sense_word: Option<String> = if fault == Fault::BadObjSense {
        let w = (*rng.pick(&GARBAGE_SENSES)).to_string();
        note = format!("OBJSENSE value {w}");
        Some(w)
    } else {
        m.sense.map(|mx| if mx { "MAX".to_string() } else { "MIN".to_string() })
    };
    match sense_word {
        None => feats.push("objsense:absent".into()),
        Some(w) => match lay.objsense {
            ObjSenseStyle::Inline => {
                items.push(Item::Header(format!("OBJSENSE {w}")));
                feats.push("objsense:inline".into());
            }
            ObjSenseStyle::OwnLine => {
                items.push(Item::Header("OBJSENSE".into()));
                items.push(Item::Data(DLine { fields: vec![w], nums: vec![] }));
                feats.push("objsense:own-line".into());
            }
        },
    }

    // ROWS
    items.push(Item::Header("ROWS".into()));
    let bad_row_at = if fault == Fault::UnknownRowType {
        // index in 0..=rows.len(): an existing row gets the bad type, or (== len) an extra line
        Some(rng.usize_below(m.rows.len() + 1))
    } else {
        None
    };
    for i in 0..=m.rows.len() {
        if i == m.obj_pos {
            items.push(Item::Data(DLine { fields: vec!["N".into(), m.obj_name.clone()], nums: vec![] }));
        }
        if i < m.rows.len() {
            let mut ty = m.rows[i].ty.letter().to_string();
            if bad_row_at == Some(i) {
                ty = (*rng.pick(&GARBAGE_ROW_TYPES)).to_string();
                note = format!("row {} declared with type {ty}", m.rows[i].name);
            }
            items.push(Item::Data(DLine { fields: vec![ty, m.rows[i].name.clone()], nums: vec![] }));
        } else if bad_row_at == Some(i) {
            let ty = (*rng.pick(&GARBAGE_ROW_TYPES)).to_string();
            note = format!("extra row BADROW declared with type {ty}");
            items.push(Item::Data(DLine { fields: vec![ty, "BADROW".into()], nums: vec![] }));
        }
    }

    // COLUMNS
    items.push(Item::Header("COLUMNS".into()));
    let (mut used5, mut used3) = (false, false);
    let mut in_block = false;
    let mut marker_no = 0usize;
    let marker_style = rng.below(3);
    let mut marker = |items: &mut Vec<Item>, word: &str| {
        let name = match marker_style {
            0 => "MARKER".to_string(),
            1 => format!("M{}", marker_no + 1),
            _ => format!("MARKER{:04}", marker_no),
        };
        marker_no += 1;
        items.push(Item::Data(DLine { fields: vec![name, "'MARKER'".into(), word.to_string()], nums: vec![] }));
    };
    let fault_col = if m.columns.is_empty() { None } else { Some(rng.usize_below(m.columns.len())) };
    let bad_marker_before = if fault == Fault::BadMarker { Some(rng.usize_below(m.columns.len() + 1)) } else { None };
    for (j, c) in m.columns.iter().enumerate() {
        if bad_marker_before == Some(j) {
            let w = (*rng.pick(&GARBAGE_MARKERS)).to_string();
            note = format!("marker line with {w} before column {}", c.name);
            items.push(Item::Data(DLine { fields: vec!["MX".into(), "'MARKER'".into(), w], nums: vec![] }));
        }
        if c.integer && !in_block {
            marker(&mut items, "'INTORG'");
            in_block = true;
            feats.push("marker-block".into());
        } else if !c.integer && in_block {
            marker(&mut items, "'INTEND'");
            in_block = false;
        } else if c.integer && in_block && lay.split_marker_blocks && rng.bool() {
            marker(&mut items, "'INTEND'");
            marker(&mut items, "'INTORG'");
            feats.push("marker-block-split".into());
        }
        let mut entries: Vec<(String, String)> = vec![];
        if let Some(v) = c.obj {
            entries.push((m.obj_name.clone(), v.render(rng)));
        }
        for (ri, v) in &c.coefs {
            entries.push((m.rows[*ri].name.clone(), v.render(rng)));
        }
        assert!(!entries.is_empty(), "harness: a column without entries cannot be declared in MPS");
        rng.shuffle(&mut entries);
        if fault == Fault::UndeclaredRowInColumns && fault_col == Some(j) {
            let at = rng.usize_below(entries.len() + 1);
            entries.insert(at, (undeclared_row.clone(), "1".into()));
            note = format!("column {} has an entry in undeclared row {undeclared_row}", c.name);
        }
        pack(&c.name, entries, lay.cols5, rng, &mut items, &mut used5, &mut used3);
    }
    if bad_marker_before == Some(m.columns.len()) {
        let w = (*rng.pick(&GARBAGE_MARKERS)).to_string();
        note = format!("marker line with {w} at the end of COLUMNS");
        items.push(Item::Data(DLine { fields: vec!["MX".into(), "'MARKER'".into(), w], nums: vec![] }));
    }
    if in_block {
        marker(&mut items, "'INTEND'");
    }
    if used5 {
        feats.push("columns:5-field".into());
    }
    if used3 {
        feats.push("columns:3-field".into());
    }

    // RHS
    let mut entries: Vec<(String, String)> = vec![];
    if let Some(v) = m.obj_rhs {
        entries.push((m.obj_name.clone(), v.render(rng)));
        feats.push("rhs:objective-row".into());
    }
    for r in &m.rows {
        if let Some(v) = r.rhs {
            entries.push((r.name.clone(), v.render(rng)));
        }
    }
    rng.shuffle(&mut entries);
    if fault == Fault::UndeclaredRowInRhs {
        let at = rng.usize_below(entries.len() + 1);
        entries.insert(at, (undeclared_row.clone(), "3".into()));
        note = format!("RHS entry for undeclared row {undeclared_row}");
    }
    if !entries.is_empty() || lay.empty_sections {
        items.push(Item::Header("RHS".into()));
        if entries.is_empty() {
            feats.push("empty-section:RHS".into());
        }
        let (mut u5, mut u3) = (false, false);
        pack(&lay.rhs_name, entries, lay.rhs5, rng, &mut items, &mut u5, &mut u3);
        if u5 {
            feats.push("rhs:5-field".into());
        }
        if u3 {
            feats.push("rhs:3-field".into());
        }
    }

    // RANGES
    let mut entries: Vec<(String, String)> = vec![];
    for r in &m.rows {
        if let Some(v) = r.range {
            entries.push((r.name.clone(), v.render(rng)));
        }
    }
    rng.shuffle(&mut entries);
    if fault == Fault::UndeclaredRowInRanges {
        let at = rng.usize_below(entries.len() + 1);
        entries.insert(at, (undeclared_row.clone(), "2".into()));
        note = format!("RANGES entry for undeclared row {undeclared_row}");
    }
    if !entries.is_empty() || (lay.empty_sections && rng.bool()) {
        items.push(Item::Header("RANGES".into()));
        if entries.is_empty() {
            feats.push("empty-section:RANGES".into());
        }
        let (mut u5, mut u3) = (false, false);
        pack(&lay.range_name, entries, lay.ranges5, rng, &mut items, &mut u5, &mut u3);
        if u5 {
            feats.push("ranges:5-field".into());
        }
        if u3 {
            feats.push("ranges:3-field".into());
        }
    }

    // BOUNDS
    let mut blines: Vec<DLine> = vec![];
    for (ty, col, v) in &m.bounds {
        let mut fields = vec![ty.word().to_string(), lay.bound_name.clone(), m.columns[*col].name.clone()];
        let mut nums = vec![];
        match v {
            Some(n) => {
                assert!(ty.has_value());
                fields.push(n.render(rng));
                nums.push(3);
            }
            None => {
                assert!(!ty.has_value());
                if lay.valueless_with_value && rng.bool() {
                    fields.push(if *ty == BoundType::BV { "1".into() } else { "0".into() });
                    feats.push("bounds:value-field-on-valueless-type".into());
                }
            }
        }
        blines.push(DLine { fields, nums });
    }
    if fault == Fault::UnknownBoundType {
        let ty = (*rng.pick(&GARBAGE_BOUND_TYPES)).to_string();
        let col = fault_col.map(|j| m.columns[j].name.clone()).unwrap_or_else(|| "X".into());
        note = format!("bound type {ty} on column {col}");
        let at = rng.usize_below(blines.len() + 1);
        blines.insert(at, DLine { fields: vec![ty, lay.bound_name.clone(), col, "1".into()], nums: vec![] });
    }
    if fault == Fault::UndeclaredColumnInBounds {
        let at = rng.usize_below(blines.len() + 1);
        note = "BOUNDS entry for undeclared column NOSUCHCOL".into();
        blines.insert(at, DLine { fields: vec!["UP".into(), lay.bound_name.clone(), "NOSUCHCOL".into(), "4".into()], nums: vec![3] });
    }
    if !blines.is_empty() || (lay.empty_sections && rng.bool()) {
        items.push(Item::Header("BOUNDS".into()));
        if blines.is_empty() {
            feats.push("empty-section:BOUNDS".into());
        }
        for l in blines {
            items.push(Item::Data(l));
        }
    }
    items.push(Item::Header("ENDATA".into()));

    // faults applied to the finished item list
    if fault == Fault::BadNumber {
        let mut sites = vec![];
        for (i, it) in items.iter().enumerate() {
            if let Item::Data(d) = it {
                for n in &d.nums {
                    sites.push((i, *n));
                }
            }
        }
        assert!(!sites.is_empty(), "harness: BadNumber needs a numeric field");
        let (i, n) = *rng.pick(&sites);
        let g = (*rng.pick(&GARBAGE_NUMBERS)).to_string();
        if let Item::Data(d) = &mut items[i] {
            note = format!("number {} replaced by {g} in line {:?}", d.fields[n], d.fields);
            d.fields[n] = g;
        }
    }
    if fault == Fault::UnknownSection {
        let headers: Vec<usize> = items
            .iter()
            .enumerate()
            .filter(|(_, it)| matches!(it, Item::Header(h) if !h.starts_with("NAME") && !h.starts_with("OBJSENSE")))
            .map(|(i, _)| i)
            .collect();
        let at = *rng.pick(&headers);
        let g = (*rng.pick(&GARBAGE_SECTIONS)).to_string();
        if rng.bool() {
            if let Item::Header(h) = &mut items[at] {
                note = format!("section header {h} replaced by {g}");
                *h = g;
            }
        } else {
            note = format!("section header {g} inserted");
            items.insert(at, Item::Header(g));
        }
    }

    // text
    let eol = if lay.crlf { "\r\n" } else { "\n" };
    let mut text = String::new();
    let sep = |rng: &mut Rng| -> String {
        if lay.tabs && rng.chance(1, 3) {
            (*rng.pick(&["\t", "\t\t", " \t", "\t "])).to_string()
        } else if lay.wide {
            " ".repeat(1 + rng.usize_below(8))
        } else {
            " ".repeat(1 + rng.usize_below(2))
        }
    };
    let trail = |rng: &mut Rng| -> &'static str {
        if lay.trailing_ws && rng.chance(1, 3) {
            *rng.pick(&[" ", "   ", "\t"])
        } else {
            ""
        }
    };
    let comments = ["* comment", "*", "*  ROWS", "* N FAKE", "*--------------------", "* X  LIM1  1.0", "*ENDATA"];
    let n_items = items.len();
    for (idx, it) in items.into_iter().enumerate() {
        if lay.comments && rng.chance(1, 5) {
            text.push_str(*rng.pick(&comments));
            text.push_str(eol);
        }
        if lay.blanks && rng.chance(1, 6) {
            text.push_str(*rng.pick(&["", "", "   "]));
            text.push_str(eol);
        }
        match it {
            Item::Header(h) => {
                text.push_str(&h);
                text.push_str(trail(rng));
            }
            Item::Data(d) => {
                text.push(' ');
                if lay.wide {
                    text.push_str(&" ".repeat(rng.usize_below(4)));
                }
                if lay.tabs && rng.chance(1, 6) {
                    text.push('\t');
                }
                for (i, f) in d.fields.iter().enumerate() {
                    if i > 0 {
                        text.push_str(&sep(rng));
                    }
                    text.push_str(f);
                }
                text.push_str(trail(rng));
            }
        }
        if idx + 1 < n_items || lay.final_newline {
            text.push_str(eol);
        }
    }
    if lay.final_newline && lay.blanks && rng.chance(1, 4) {
        text.push_str(eol);
    }
    feats.sort();
    feats.dedup();
    Rendered {
        text,
        features: feats,
        fault_note: note,
    }
}
