//! Constructors for prost messages. All generated types are `#[non_exhaustive]`, so messages are
//! built by `Default::default()` + field assignment — exactly what an external producer does.

use ommx::v1;
use std::collections::HashMap;

pub fn term(id: u64, coefficient: f64) -> v1::linear::Term {
    let mut t = v1::linear::Term::default();
    t.id = id;
    t.coefficient = coefficient;
    t
}

pub fn linear(terms: Vec<(u64, f64)>, constant: f64) -> v1::Linear {
    let mut l = v1::Linear::default();
    l.terms = terms.into_iter().map(|(i, c)| term(i, c)).collect();
    l.constant = constant;
    l
}

pub fn quadratic(entries: Vec<(u64, u64, f64)>, lin: Option<v1::Linear>) -> v1::Quadratic {
    let mut q = v1::Quadratic::default();
    for (r, c, v) in entries {
        q.rows.push(r);
        q.columns.push(c);
        q.values.push(v);
    }
    q.linear = lin;
    q
}

pub fn monomial(ids: Vec<u64>, coefficient: f64) -> v1::Monomial {
    let mut m = v1::Monomial::default();
    m.ids = ids;
    m.coefficient = coefficient;
    m
}

pub fn polynomial(terms: Vec<(Vec<u64>, f64)>) -> v1::Polynomial {
    let mut p = v1::Polynomial::default();
    p.terms = terms.into_iter().map(|(i, c)| monomial(i, c)).collect();
    p
}

pub fn f_unset() -> v1::Function {
    v1::Function::default()
}
pub fn f_const(c: f64) -> v1::Function {
    let mut f = v1::Function::default();
    f.function = Some(v1::function::Function::Constant(c));
    f
}
pub fn f_linear(l: v1::Linear) -> v1::Function {
    let mut f = v1::Function::default();
    f.function = Some(v1::function::Function::Linear(l));
    f
}
pub fn f_quadratic(q: v1::Quadratic) -> v1::Function {
    let mut f = v1::Function::default();
    f.function = Some(v1::function::Function::Quadratic(q));
    f
}
pub fn f_polynomial(p: v1::Polynomial) -> v1::Function {
    let mut f = v1::Function::default();
    f.function = Some(v1::function::Function::Polynomial(p));
    f
}

pub fn state(entries: impl IntoIterator<Item = (u64, f64)>) -> v1::State {
    let mut s = v1::State::default();
    s.entries = entries.into_iter().collect();
    s
}

pub fn bound(lower: f64, upper: f64) -> v1::Bound {
    let mut b = v1::Bound::default();
    b.lower = lower;
    b.upper = upper;
    b
}

pub const KIND_BINARY: i32 = 1;
pub const KIND_INTEGER: i32 = 2;
pub const KIND_CONTINUOUS: i32 = 3;
pub const KIND_SEMI_INTEGER: i32 = 4;
pub const KIND_SEMI_CONTINUOUS: i32 = 5;
pub const EQ_ZERO: i32 = 1;
pub const LE_ZERO: i32 = 2;
pub const SENSE_MIN: i32 = 1;
pub const SENSE_MAX: i32 = 2;

pub fn dvar(id: u64, kind: i32, b: Option<(f64, f64)>) -> v1::DecisionVariable {
    let mut v = v1::DecisionVariable::default();
    v.id = id;
    v.kind = kind;
    v.bound = b.map(|(l, u)| bound(l, u));
    v
}

pub fn constraint(id: u64, equality: i32, f: Option<v1::Function>) -> v1::Constraint {
    let mut c = v1::Constraint::default();
    c.id = id;
    c.equality = equality;
    c.function = f;
    c
}

pub fn removed(c: v1::Constraint, reason: &str, params: HashMap<String, String>) -> v1::RemovedConstraint {
    let mut r = v1::RemovedConstraint::default();
    r.constraint = Some(c);
    r.removed_reason = reason.to_string();
    r.removed_reason_parameters = params;
    r
}

pub fn parameter(id: u64) -> v1::Parameter {
    let mut p = v1::Parameter::default();
    p.id = id;
    p
}

pub fn parameters(entries: impl IntoIterator<Item = (u64, f64)>) -> v1::Parameters {
    let mut p = v1::Parameters::default();
    p.entries = entries.into_iter().collect();
    p
}

pub fn samples_entry(st: v1::State, ids: Vec<u64>) -> v1::samples::SamplesEntry {
    let mut e = v1::samples::SamplesEntry::default();
    e.state = Some(st);
    e.ids = ids;
    e
}
