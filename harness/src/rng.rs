//! Deterministic PRNG (xoshiro256** seeded through SplitMix64). Every case `k` of a property
//! gets its own generator derived from (VERIF_SEED, property id, k), so a single case can be
//! replayed without the shard's history.

#[derive(Clone, Debug)]
pub struct Rng {
    s: [u64; 4],
}

fn splitmix(x: &mut u64) -> u64 {
    *x = x.wrapping_add(0x9E37_79B9_7F4A_7C15);
    let mut z = *x;
    z = (z ^ (z >> 30)).wrapping_mul(0xBF58_476D_1CE4_E5B9);
    z = (z ^ (z >> 27)).wrapping_mul(0x94D0_49BB_1331_11EB);
    z ^ (z >> 31)
}

pub fn hash_str(s: &str) -> u64 {
    let mut h: u64 = 0xcbf2_9ce4_8422_2325;
    for b in s.bytes() {
        h ^= b as u64;
        h = h.wrapping_mul(0x0000_0100_0000_01B3);
    }
    h
}

impl Rng {
    pub fn new(seed: u64) -> Self {
        let mut x = seed;
        let s = [
            splitmix(&mut x),
            splitmix(&mut x),
            splitmix(&mut x),
            splitmix(&mut x),
        ];
        Rng { s }
    }

    pub fn for_case(seed: u64, prop: &str, k: u64) -> Self {
        let mut x = seed ^ hash_str(prop).rotate_left(17);
        let a = splitmix(&mut x);
        let mut y = a ^ k.wrapping_mul(0xD6E8_FEB8_6659_FD93);
        let b = splitmix(&mut y);
        Rng::new(b)
    }

    pub fn next_u64(&mut self) -> u64 {
        let r = self.s[1].wrapping_mul(5).rotate_left(7).wrapping_mul(9);
        let t = self.s[1] << 17;
        self.s[2] ^= self.s[0];
        self.s[3] ^= self.s[1];
        self.s[1] ^= self.s[2];
        self.s[0] ^= self.s[3];
        self.s[2] ^= t;
        self.s[3] = self.s[3].rotate_left(45);
        r
    }

    /// uniform in 0..n (n > 0)
    pub fn below(&mut self, n: u64) -> u64 {
        debug_assert!(n > 0);
        // multiply-shift; bias is irrelevant for test generation
        ((self.next_u64() as u128 * n as u128) >> 64) as u64
    }

    pub fn usize_below(&mut self, n: usize) -> usize {
        self.below(n as u64) as usize
    }

    /// uniform in lo..=hi
    pub fn range(&mut self, lo: i64, hi: i64) -> i64 {
        debug_assert!(lo <= hi);
        lo + self.below((hi - lo) as u64 + 1) as i64
    }

    pub fn bool(&mut self) -> bool {
        self.next_u64() & 1 == 1
    }

    /// true with probability num/den
    pub fn chance(&mut self, num: u64, den: u64) -> bool {
        self.below(den) < num
    }

    /// uniform in [0,1)
    pub fn unit(&mut self) -> f64 {
        (self.next_u64() >> 11) as f64 / (1u64 << 53) as f64
    }

    pub fn pick<'a, T>(&mut self, xs: &'a [T]) -> &'a T {
        &xs[self.usize_below(xs.len())]
    }

    pub fn shuffle<T>(&mut self, xs: &mut [T]) {
        for i in (1..xs.len()).rev() {
            let j = self.usize_below(i + 1);
            xs.swap(i, j);
        }
    }

    /// random subset: each element kept with probability num/den
    pub fn subset<T: Clone>(&mut self, xs: &[T], num: u64, den: u64) -> Vec<T> {
        xs.iter().filter(|_| self.chance(num, den)).cloned().collect()
    }

    pub fn ascii_word(&mut self, max_len: usize) -> String {
        let n = 1 + self.usize_below(max_len.max(1));
        (0..n)
            .map(|_| (b'a' + self.below(26) as u8) as char)
            .collect()
    }
}
