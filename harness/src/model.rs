//! Reference semantics of instance evaluation (independent of the SDK): what a Solution must
//! contain for a given instance and state, computed with exact rationals.

use crate::exact::*;
use crate::gen::effective_bound;
use num::{Signed, Zero};
use ommx::v1;
use std::collections::{BTreeMap, BTreeSet};

/// value of one function at an f64 state, exact, with the tolerance the SDK's f64 result gets
pub struct ExactValue {
    pub value: Q,
    pub tol: Tol,
}

/// rigorous rounding bound for evaluating the stored terms in any order
pub fn eval_bound(f: &v1::Function, x: &BTreeMap<u64, Q>) -> Q {
    let terms = stored_terms(f);
    let deg = terms.iter().map(|t| t.0.len()).max().unwrap_or(0);
    let k = 2 * (terms.len() + deg) + 4;
    let mut s = Q::zero();
    for (ids, c) in &terms {
        let mut t = q(*c).abs();
        for id in ids {
            if let Some(v) = x.get(id) {
                t *= v.abs();
            }
        }
        s += t;
    }
    gamma(k) * s
}

/// None if a variable of the function is missing in the state
pub fn exact_value(f: &v1::Function, x: &BTreeMap<u64, f64>) -> Option<ExactValue> {
    let xq = map_q(x);
    let value = canon_function(f).eval(&xq)?;
    // canon drops zero terms; a zero-coefficient term with a missing variable is tolerated either way by callers
    let tol = if eval_is_exact(&stored_terms(f), x) {
        Tol::Exact
    } else {
        Tol::Abs(eval_bound(f, &xq))
    };
    Some(ExactValue { value, tol })
}

pub fn opt_fn(f: &Option<v1::Function>) -> v1::Function {
    f.clone().unwrap_or_default()
}

#[derive(Clone, Debug)]
pub struct RefConstraint {
    pub id: u64,
    pub equality: i32,
    pub value: Q,
    pub tol_exact: bool,
    pub bound: Q,
    pub removed: Option<(String, BTreeMap<String, String>)>,
    pub name: Option<String>,
    pub description: Option<String>,
    pub subscripts: Vec<i64>,
    pub parameters: BTreeMap<String, String>,
    pub used_ids: BTreeSet<u64>,
}

pub struct RefSolution {
    pub objective: ExactValue,
    pub constraints: Vec<RefConstraint>,
    /// expected reported state: id -> (exact value, must be bit-equal to this f64 if Some)
    pub state: BTreeMap<u64, RefStateEntry>,
}

#[derive(Clone, Debug)]
pub enum RefStateEntry {
    /// must be exactly this f64 (given / fixed / nearest-to-zero values)
    Bits(f64, &'static str),
    /// dependent value: exact rational; `certified` when the whole chain is exact in f64; the last
    /// field is the magnitude sum |c|*prod|x| of its function at the extended state (for uncertified
    /// chains the comparison is relative to that magnitude, not to the possibly cancelled result)
    Dependent(Q, bool, Q),
}

#[derive(Debug, Clone, PartialEq)]
pub enum RefReject {
    OutOfBound(u64),
    Missing(u64),
    /// dependencies cyclic or referring to variables without value
    Dependencies,
}

pub fn nearest_to_zero(l: f64, u: f64) -> f64 {
    if l >= 0.0 {
        l
    } else if u <= 0.0 {
        u
    } else {
        0.0
    }
}

fn ref_constraint(c: &v1::Constraint, x: &BTreeMap<u64, f64>, removed: Option<(String, BTreeMap<String, String>)>) -> Result<RefConstraint, RefReject> {
    let f = opt_fn(&c.function);
    let used = occurring_ids(&f);
    for id in &used {
        if !x.contains_key(id) {
            return Err(RefReject::Missing(*id));
        }
    }
    let ev = exact_value(&f, x).expect("all ids present");
    let (tol_exact, bound) = match &ev.tol {
        Tol::Exact => (true, Q::zero()),
        Tol::Abs(b) => (false, b.clone()),
    };
    Ok(RefConstraint {
        id: c.id,
        equality: c.equality,
        value: ev.value,
        tol_exact,
        bound,
        removed,
        name: c.name.clone(),
        description: c.description.clone(),
        subscripts: c.subscripts.clone(),
        parameters: c.parameters.iter().map(|(k, v)| (k.clone(), v.clone())).collect(),
        used_ids: used,
    })
}

/// Reference topological evaluation of a dependency map over a state (exact); Err on cycles or
/// references to variables without a value. Returns values and whether all f64 steps are exact.
pub fn ref_dependencies(
    deps: &BTreeMap<u64, v1::Function>,
    x: &BTreeMap<u64, f64>,
) -> Result<BTreeMap<u64, (Q, bool, Q)>, RefReject> {
    let mut known: BTreeMap<u64, Q> = map_q(x);
    // f64 shadow used only for the exactness certificate
    let mut shadow: BTreeMap<u64, f64> = x.clone();
    let mut certified_all: BTreeMap<u64, bool> = BTreeMap::new();
    let mut out = BTreeMap::new();
    // magnitudes without cancellation, propagated through chains: a dependent value that is small by
    // cancellation still carries (and passes on) the rounding of its large terms
    let mut mags: BTreeMap<u64, Q> = known.iter().map(|(k, v)| (*k, v.abs())).collect();
    let mut remaining: BTreeSet<u64> = deps.keys().cloned().collect();
    loop {
        let mut progressed = false;
        let ids: Vec<u64> = remaining.iter().cloned().collect();
        for id in ids {
            let f = &deps[&id];
            let occ = occurring_ids(f);
            // a dependency may only use values that exist and are not themselves unresolved dependents
            if occ.iter().all(|i| known.contains_key(i) && !remaining.contains(i)) {
                let v = canon_function(f).eval(&known).expect("ids known");
                let mag = abs_stored_poly(f).eval(&mags).unwrap_or_else(Q::zero);
                let cert = eval_is_exact(&stored_terms(f), &shadow) && occ.iter().all(|i| *certified_all.get(i).unwrap_or(&true));
                let vf = q_to_f64(&v);
                let cert = cert && f64_eq_q(vf, &v);
                mags.insert(id, if mag > v.abs() { mag.clone() } else { v.abs() });
                known.insert(id, v.clone());
                shadow.insert(id, vf);
                certified_all.insert(id, cert);
                out.insert(id, (v, cert, mag));
                remaining.remove(&id);
                progressed = true;
            }
        }
        if remaining.is_empty() {
            return Ok(out);
        }
        if !progressed {
            return Err(RefReject::Dependencies);
        }
    }
}

/// What `Instance::evaluate(state)` must return (or why it must be rejected).
/// `bound_check`: apply the bound rule (out by more than 1e-7 => reject); callers keep generated
/// values away from the threshold.
pub fn ref_solution(inst: &v1::Instance, x: &BTreeMap<u64, f64>) -> Result<RefSolution, RefReject> {
    for v in &inst.decision_variables {
        if let Some(val) = x.get(&v.id) {
            let (l, u) = effective_bound(v);
            if *val < l - 1e-7 || *val > u + 1e-7 {
                return Err(RefReject::OutOfBound(v.id));
            }
        }
    }
    let mut constraints = vec![];
    for c in &inst.constraints {
        constraints.push(ref_constraint(c, x, None)?);
    }
    for r in &inst.removed_constraints {
        let c = r.constraint.as_ref().expect("generated removed constraints carry a constraint");
        let params = r.removed_reason_parameters.iter().map(|(k, v)| (k.clone(), v.clone())).collect();
        constraints.push(ref_constraint(c, x, Some((r.removed_reason.clone(), params)))?);
    }
    let fobj = opt_fn(&inst.objective);
    for id in occurring_ids(&fobj) {
        if !x.contains_key(&id) {
            return Err(RefReject::Missing(id));
        }
    }
    let objective = exact_value(&fobj, x).expect("ids present");

    let mut state: BTreeMap<u64, RefStateEntry> = BTreeMap::new();
    let mut ext = x.clone();
    for (k, v) in x {
        state.insert(*k, RefStateEntry::Bits(*v, "given"));
    }
    for v in &inst.decision_variables {
        if let Some(s) = v.substituted_value {
            state.insert(v.id, RefStateEntry::Bits(s, "fixed"));
            ext.insert(v.id, s);
        }
    }
    let deps: BTreeMap<u64, v1::Function> = inst.decision_variable_dependency.iter().map(|(k, f)| (*k, f.clone())).collect();
    let dep_values = ref_dependencies(&deps, &ext)?;
    for (id, (v, cert, mag)) in dep_values {
        state.insert(id, RefStateEntry::Dependent(v, cert, mag));
    }
    for v in &inst.decision_variables {
        if let std::collections::btree_map::Entry::Vacant(e) = state.entry(v.id) {
            let (l, u) = effective_bound(v);
            e.insert(RefStateEntry::Bits(nearest_to_zero(l, u), "nearest-to-zero"));
        }
    }
    Ok(RefSolution {
        objective,
        constraints,
        state,
    })
}

/// feasibility of one reported constraint value under the stated rule
pub fn holds(equality: i32, v: f64) -> Option<bool> {
    match equality {
        1 => Some(v.abs() < 1e-6),
        2 => Some(v < 1e-6),
        _ => None,
    }
}

/// true when the exact value is so close to the feasibility threshold that rounding may flip it
pub fn near_threshold(c: &RefConstraint) -> bool {
    let t = q(1e-6);
    let d1 = (&c.value - &t).abs();
    let d2 = (&c.value + &t).abs();
    let margin = &c.bound + q(1e-15);
    d1 <= margin || (c.equality == 1 && d2 <= margin)
}

/// Compare an SDK Solution with the reference; returns (signature tail, detail) for each mismatch.
pub fn compare_solution(sol: &v1::Solution, r: &RefSolution, inst: &v1::Instance) -> Vec<(String, String)> {
    let mut out = vec![];
    if !within(sol.objective, &r.objective.value, &r.objective.tol) {
        out.push(("objective".to_string(), format!("objective {:e} but exact value {} ({:e})", sol.objective, r.objective.value, q_to_f64(&r.objective.value))));
    }
    // constraints: exactly one entry per id
    let mut seen: BTreeMap<u64, usize> = BTreeMap::new();
    for e in &sol.evaluated_constraints {
        *seen.entry(e.id).or_insert(0) += 1;
    }
    for c in &r.constraints {
        match seen.get(&c.id) {
            None => out.push((format!("constraint-missing:{}", if c.removed.is_some() { "removed" } else { "active" }), format!("constraint {} is not listed", c.id))),
            Some(1) => {}
            Some(n) => out.push(("constraint-duplicated".into(), format!("constraint {} listed {n} times", c.id))),
        }
    }
    let known: BTreeSet<u64> = r.constraints.iter().map(|c| c.id).collect();
    for e in &sol.evaluated_constraints {
        if !known.contains(&e.id) {
            out.push(("constraint-unknown".into(), format!("solution lists constraint {} which the instance does not have", e.id)));
        }
    }
    let mut all_active = true;
    let mut all = true;
    let mut flags_decidable = true;
    for c in &r.constraints {
        let Some(e) = sol.evaluated_constraints.iter().find(|e| e.id == c.id) else { continue };
        let kind = if c.removed.is_some() { "removed" } else { "active" };
        let tol = if c.tol_exact { Tol::Exact } else { Tol::Abs(c.bound.clone()) };
        if !within(e.evaluated_value, &c.value, &tol) {
            out.push((format!("constraint-value:{kind}"), format!("constraint {} value {:e}, exact {} ({:e})", c.id, e.evaluated_value, c.value, q_to_f64(&c.value))));
        }
        if e.equality != c.equality {
            out.push((format!("constraint-equality:{kind}"), format!("constraint {} equality {} expected {}", c.id, e.equality, c.equality)));
        }
        let params: BTreeMap<String, String> = e.parameters.iter().map(|(k, v)| (k.clone(), v.clone())).collect();
        if e.name != c.name || e.description != c.description || e.subscripts != c.subscripts || params != c.parameters {
            out.push((format!("constraint-metadata:{kind}"), format!("constraint {} metadata differs: got name={:?} description={:?} subscripts={:?} parameters={:?}, expected name={:?} description={:?} subscripts={:?} parameters={:?}", c.id, e.name, e.description, e.subscripts, params, c.name, c.description, c.subscripts, c.parameters)));
        }
        let used: BTreeSet<u64> = e.used_decision_variable_ids.iter().cloned().collect();
        if used != c.used_ids || used.len() != e.used_decision_variable_ids.len() {
            out.push((format!("constraint-used-ids:{kind}"), format!("constraint {} used ids {:?}, ids occurring in its function {:?}", c.id, e.used_decision_variable_ids, c.used_ids)));
        }
        match &c.removed {
            None => {
                if e.removed_reason.is_some() || !e.removed_reason_parameters.is_empty() {
                    out.push(("removed-reason:on-active".into(), format!("active constraint {} carries removal reason {:?}", c.id, e.removed_reason)));
                }
            }
            Some((reason, params)) => {
                let got: BTreeMap<String, String> = e.removed_reason_parameters.iter().map(|(k, v)| (k.clone(), v.clone())).collect();
                if e.removed_reason.as_ref() != Some(reason) || &got != params {
                    out.push(("removed-reason:lost".into(), format!("removed constraint {}: reason {:?} params {:?}, expected {:?} {:?}", c.id, e.removed_reason, got, reason, params)));
                }
            }
        }
        // flags from the REPORTED values with the stated rule
        match holds(c.equality, e.evaluated_value) {
            Some(h) => {
                if !h {
                    all = false;
                    if c.removed.is_none() {
                        all_active = false;
                    }
                }
            }
            None => flags_decidable = false,
        }
    }
    if flags_decidable && out.iter().all(|(s, _)| !s.starts_with("constraint-missing")) {
        if sol.feasible_relaxed != Some(all_active) {
            out.push(("feasible-relaxed".into(), format!("feasible_relaxed={:?} but the reported values of the active constraints give {}", sol.feasible_relaxed, all_active)));
        }
        if sol.feasible != all {
            out.push(("feasible".into(), format!("feasible={} but the reported values of all constraints give {}", sol.feasible, all)));
        }
    }
    // state
    match &sol.state {
        None => out.push(("state-missing".into(), "solution has no state".into())),
        Some(s) => {
            for (id, e) in &r.state {
                match (s.entries.get(id), e) {
                    (None, RefStateEntry::Bits(_, why)) => out.push((format!("state-entry-missing:{why}"), format!("reported state lacks variable {id} ({why})"))),
                    (None, RefStateEntry::Dependent(..)) => out.push(("state-entry-missing:dependent".into(), format!("reported state lacks dependent variable {id}"))),
                    (Some(v), RefStateEntry::Bits(x, why)) => {
                        if v != x {
                            out.push((format!("state-value:{why}"), format!("variable {id} reported {v:e}, expected {x:e} ({why})")));
                        }
                    }
                    (Some(v), RefStateEntry::Dependent(x, cert, mag)) => {
                        let ok = if *cert {
                            f64_eq_q(*v, x)
                        } else {
                            // uncertified chains: comparison relative to the magnitude of the terms (a result
                            // that is small by cancellation still carries the rounding of its large terms)
                            (q(*v) - x).abs() <= (mag + x.abs() + q(1.0)) * q(1e-9)
                        };
                        if !ok {
                            out.push(("state-value:dependent".into(), format!("dependent variable {id} reported {v:e}, exact {} ({:e})", x, q_to_f64(x))));
                        }
                    }
                }
            }
            for id in s.entries.keys() {
                if !r.state.contains_key(id) {
                    out.push(("state-extra".into(), format!("reported state has unexpected variable {id}")));
                }
            }
        }
    }
    // Solution.decision_variables (a copy of the instance's list) is not part of any statement: not judged
    let _ = inst;
    out
}
