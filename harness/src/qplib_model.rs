//! Abstract QP model and an independent QPLIB writer (C19).
//!
//! The text is rendered from the format description in the appendix of Furini et al., "QPLIB: a
//! library of quadratic programming instances" (name; three-letter code OVC; sense; n; [m];
//! [Q0]; b0; q0; [Qi]; [bi]; infinity; [c_l; c_u]; [l; u]; [types]; x0; [y0]; z0; variable
//! names; constraint names), with layout switches drawn from an `Rng`. The *expected* instance
//! is computed from the abstract model, never from the text, and shares no code with the SDK.
//!
//! Conventions of the model: indices are 1-based as in the file; every "default + non-default
//! entries" section is a `DefList` whose effective value at position i is the entry for i if
//! one is listed and the default otherwise (no index is listed twice).

use crate::exact::{q, qi, Poly};
use crate::rng::Rng;

pub const OBJ_KINDS: [char; 4] = ['L', 'D', 'C', 'Q'];
pub const VAR_KINDS: [char; 5] = ['C', 'B', 'M', 'I', 'G'];
pub const CON_KINDS: [char; 6] = ['N', 'B', 'L', 'D', 'C', 'Q'];

/// the 120 problem-type codes, numbered 0..120
pub fn code_letters(code: u64) -> (char, char, char) {
    let code = (code % 120) as usize;
    (OBJ_KINDS[code / 30], VAR_KINDS[(code / 6) % 5], CON_KINDS[code % 6])
}

#[derive(Clone, Copy, Debug, PartialEq, Eq)]
pub enum VType {
    Continuous,
    Integer,
    Binary,
}

impl VType {
    /// code used in the variable-types section of the file
    pub fn file_code(&self) -> &'static str {
        match self {
            VType::Continuous => "0",
            VType::Integer => "1",
            VType::Binary => "2",
        }
    }
}

#[derive(Clone, Debug)]
pub struct DefList<T> {
    pub default: T,
    /// (1-based index, value); an index occurs at most once
    pub entries: Vec<(usize, T)>,
}

impl<T: Clone> DefList<T> {
    /// effective value at 0-based position `i0`
    pub fn value(&self, i0: usize) -> T {
        self.entries
            .iter()
            .find(|e| e.0 == i0 + 1)
            .map(|e| e.1.clone())
            .unwrap_or_else(|| self.default.clone())
    }
}

#[derive(Clone, Debug)]
pub struct QpModel {
    pub name: String,
    pub o: char,
    pub v: char,
    pub c: char,
    pub maximize: bool,
    pub n: usize,
    pub m: usize,
    /// lower triangle of the symmetric Q0: (i, j, value), i >= j, 1-based, distinct positions
    pub q0: Vec<(usize, usize, f64)>,
    pub b0: DefList<f64>,
    pub q0c: f64,
    /// lower triangles of the symmetric Qi: (constraint, i, j, value), 1-based
    pub qi: Vec<(usize, usize, usize, f64)>,
    /// (constraint, j, value), 1-based
    pub bi: Vec<(usize, usize, f64)>,
    pub infinity: f64,
    pub cl: DefList<f64>,
    pub cu: DefList<f64>,
    /// not written (and not used) when V = B
    pub l: DefList<f64>,
    pub u: DefList<f64>,
    /// written only when V is M or G
    pub types: DefList<VType>,
    pub x0: DefList<f64>,
    pub y0: DefList<f64>,
    pub z0: DefList<f64>,
    pub var_names: Vec<(usize, String)>,
    pub con_names: Vec<(usize, String)>,
}

impl QpModel {
    pub fn code(&self) -> String {
        format!("{}{}{}", self.o, self.v, self.c)
    }
    pub fn has_constraint_sections(&self) -> bool {
        !matches!(self.c, 'N' | 'B')
    }
    /// kind of variable i (0-based) as the code and the types section declare it
    pub fn var_type(&self, i0: usize) -> VType {
        match self.v {
            'C' => VType::Continuous,
            'B' => VType::Binary,
            'I' => VType::Integer,
            _ => self.types.value(i0),
        }
    }
}

// ---------------------------------------------------------------------------------------------
// expected instance

#[derive(Clone, Debug, PartialEq)]
pub enum Domain {
    Invalid,
    Empty,
    Point(f64),
    /// closed real interval, endpoints may be infinite
    Interval(f64, f64),
    /// integers a..=b, endpoints may be infinite
    Lattice(f64, f64),
}

/// set of values of a variable of `kind` with bounds [l,u] (DESIGN §4 "Value domains")
pub fn domain(kind: VType, l: f64, u: f64) -> Domain {
    if l.is_nan() || u.is_nan() {
        return Domain::Invalid;
    }
    match kind {
        VType::Continuous => {
            if l > u {
                Domain::Empty
            } else if l == u {
                Domain::Point(l)
            } else {
                Domain::Interval(l, u)
            }
        }
        VType::Integer | VType::Binary => {
            let (mut a, mut b) = (l.ceil(), u.floor());
            if kind == VType::Binary {
                a = a.max(0.0);
                b = b.min(1.0);
            }
            if a > b {
                Domain::Empty
            } else if a == b {
                Domain::Point(a)
            } else {
                Domain::Lattice(a, b)
            }
        }
    }
}

#[derive(Clone, Debug)]
pub struct ExpVar {
    pub id: u64,
    pub kind: VType,
    pub lower: f64,
    pub upper: f64,
    pub domain: Domain,
    pub name: Option<String>,
}

#[derive(Clone, Debug)]
pub struct ExpSide {
    /// 0-based constraint row of the file
    pub row: usize,
    /// 'u' for `expr - c_u <= 0`, 'l' for `c_l - expr <= 0`
    pub side: char,
    /// the function with diagonal entries counted half (what the format says)
    pub half: Poly,
    /// the function with diagonal entries at full weight (used only to classify a mismatch)
    pub full: Poly,
}

#[derive(Clone, Debug)]
pub struct Expected {
    pub vars: Vec<ExpVar>,
    pub objective: Poly,
    pub objective_full_diag: Poly,
    pub maximize: bool,
    pub sides: Vec<ExpSide>,
}

fn add_sym_entry(half: &mut Poly, full: &mut Poly, i: usize, j: usize, v: f64) {
    let ids = vec![(i - 1) as u64, (j - 1) as u64];
    if i == j {
        // 1/2 * Q_ii * x_i^2
        half.add_term(ids.clone(), q(v) / qi(2));
        full.add_term(ids, q(v));
    } else {
        // 1/2 * (Q_ij + Q_ji) * x_i x_j with Q_ji = Q_ij
        half.add_term(ids.clone(), q(v));
        full.add_term(ids, q(v));
    }
}

impl QpModel {
    pub fn lower_bound(&self, i0: usize) -> f64 {
        if self.v == 'B' {
            return 0.0;
        }
        let x = self.l.value(i0);
        if x.abs() >= self.infinity {
            f64::NEG_INFINITY
        } else {
            x
        }
    }
    pub fn upper_bound(&self, i0: usize) -> f64 {
        if self.v == 'B' {
            return 1.0;
        }
        let x = self.u.value(i0);
        if x.abs() >= self.infinity {
            f64::INFINITY
        } else {
            x
        }
    }

    pub fn expected(&self) -> Expected {
        let mut vars = vec![];
        for i in 0..self.n {
            let kind = self.var_type(i);
            let (lo, up) = (self.lower_bound(i), self.upper_bound(i));
            let d = domain(kind, lo, up);
            assert!(
                !matches!(d, Domain::Empty | Domain::Invalid),
                "harness: generated variable {i} with empty domain ({kind:?} [{lo},{up}])"
            );
            vars.push(ExpVar {
                id: i as u64,
                kind,
                lower: lo,
                upper: up,
                domain: d,
                name: self.var_names.iter().find(|e| e.0 == i + 1).map(|e| e.1.clone()),
            });
        }
        let mut half = Poly::zero();
        let mut full = Poly::zero();
        for &(i, j, v) in &self.q0 {
            add_sym_entry(&mut half, &mut full, i, j, v);
        }
        for i in 0..self.n {
            let b = self.b0.value(i);
            half.add_term(vec![i as u64], q(b));
            full.add_term(vec![i as u64], q(b));
        }
        half.add_term(vec![], q(self.q0c));
        full.add_term(vec![], q(self.q0c));

        let mut sides = vec![];
        for r in 0..self.m {
            let mut eh = Poly::zero();
            let mut ef = Poly::zero();
            for &(c, i, j, v) in &self.qi {
                if c == r + 1 {
                    add_sym_entry(&mut eh, &mut ef, i, j, v);
                }
            }
            for &(c, j, v) in &self.bi {
                if c == r + 1 {
                    eh.add_term(vec![(j - 1) as u64], q(v));
                    ef.add_term(vec![(j - 1) as u64], q(v));
                }
            }
            let cu = self.cu.value(r);
            let cl = self.cl.value(r);
            if cu.abs() < self.infinity {
                let k = Poly::constant(q(cu));
                sides.push(ExpSide { row: r, side: 'u', half: eh.sub(&k), full: ef.sub(&k) });
            }
            if cl.abs() < self.infinity {
                let k = Poly::constant(q(cl));
                sides.push(ExpSide { row: r, side: 'l', half: k.sub(&eh), full: k.sub(&ef) });
            }
        }
        Expected {
            vars,
            objective: half,
            objective_full_diag: full,
            maximize: self.maximize,
            sides,
        }
    }
}

// ---------------------------------------------------------------------------------------------
// generator

fn quarter(rng: &mut Rng, max_k: i64) -> f64 {
    loop {
        let k = rng.range(-max_k, max_k);
        if k != 0 {
            return k as f64 / 4.0;
        }
    }
}

/// a value that means "infinite" in a file whose infinity value is `inf`: exactly the
/// threshold, or beyond it
fn infinite_value(rng: &mut Rng, inf: f64) -> f64 {
    match rng.below(6) {
        0 => inf * 2.0,
        1 => {
            if inf < 1e6 {
                inf + 0.25
            } else {
                inf * 10.0
            }
        }
        _ => inf,
    }
}

/// a finite magnitude for bounds / constraint sides: small quarters, and values just below a
/// small infinity value
fn finite_side(rng: &mut Rng, inf: f64) -> f64 {
    if inf < 1e6 && rng.chance(1, 8) {
        let x = *rng.pick(&[9999.75, 9999.0, 5000.0, 1234.5]);
        if rng.bool() {
            x
        } else {
            -x
        }
    } else if rng.chance(1, 5) {
        0.0
    } else {
        quarter(rng, 24)
    }
}

fn split_default<T: Clone + PartialEq>(rng: &mut Rng, values: &[T], default: T) -> DefList<T> {
    let mut entries = vec![];
    for (i, v) in values.iter().enumerate() {
        // explicit entries equal to the default are legal and are written sometimes
        if *v != default || rng.chance(1, 4) {
            entries.push((i + 1, v.clone()));
        }
    }
    if rng.chance(1, 3) {
        rng.shuffle(&mut entries);
    }
    DefList { default, entries }
}

fn pick_default_f64(rng: &mut Rng, values: &[f64], fallback: f64) -> f64 {
    if values.is_empty() || rng.chance(1, 4) {
        fallback
    } else {
        *rng.pick(values)
    }
}

fn word(rng: &mut Rng) -> String {
    const STYLES: [&str; 6] = ["x", "var_", "X", "c", "row.", "y["];
    let mut s = String::new();
    match rng.below(4) {
        0 => s.push_str(*rng.pick(&STYLES)),
        1 => s.push_str(&rng.ascii_word(5).to_uppercase()),
        _ => {}
    }
    s.push_str(&rng.ascii_word(6));
    if rng.chance(1, 3) {
        s.push_str(&format!("{}", rng.below(100)));
    }
    if s.starts_with("y[") {
        s.push(']');
    }
    s
}

fn lower_triangle(rng: &mut Rng, n: usize, diagonal_only: bool, num: u64, den: u64) -> Vec<(usize, usize, f64)> {
    let mut out = vec![];
    for i in 1..=n {
        for j in 1..=i {
            if diagonal_only && i != j {
                continue;
            }
            if rng.chance(num, den) {
                // an explicitly listed zero is legal (rare)
                let v = if rng.chance(1, 30) { 0.0 } else { quarter(rng, 16) };
                out.push((i, j, v));
            }
        }
    }
    out
}

pub fn gen_model(rng: &mut Rng, o: char, v: char, c: char) -> QpModel {
    let n = if rng.chance(1, 24) { 0 } else { 1 + rng.usize_below(5) };
    let has_c = !matches!(c, 'N' | 'B');
    let m = if !has_c {
        0
    } else if rng.chance(1, 12) {
        0
    } else {
        1 + rng.usize_below(4)
    };
    let infinity = *rng.pick(&[1e20, 1e20, 1e30, 10000.0, 10000.0]);

    // objective
    let mut q0 = match o {
        'L' => vec![],
        'D' => lower_triangle(rng, n, true, 2, 3),
        _ => lower_triangle(rng, n, false, 1, 2),
    };
    if rng.chance(1, 2) {
        rng.shuffle(&mut q0);
    }
    let b0_vals: Vec<f64> = (0..n)
        .map(|_| {
            if rng.chance(1, 3) {
                0.0
            } else if rng.chance(1, 16) {
                // non-zero coefficients far below f64::EPSILON are coefficients like any other
                *rng.pick(&[1e-18, -1e-18, 5e-324, 2e-16, -1.5e-17, 1e-100])
            } else if infinity < 1e6 && rng.chance(1, 30) {
                // coefficients are not subject to the infinity value
                20000.0
            } else {
                quarter(rng, 16)
            }
        })
        .collect();
    let b0_alt = quarter(rng, 16);
    let b0_default = if rng.chance(1, 2) { 0.0 } else { pick_default_f64(rng, &b0_vals, b0_alt) };
    let b0 = split_default(rng, &b0_vals, b0_default);
    let q0c = if rng.chance(1, 3) { 0.0 } else { quarter(rng, 40) };

    // constraints
    let mut qi_entries = vec![];
    let mut bi_entries = vec![];
    if has_c {
        for r in 1..=m {
            if !matches!(c, 'L') {
                for (i, j, val) in lower_triangle(rng, n, c == 'D', 1, 3) {
                    qi_entries.push((r, i, j, val));
                }
            }
            for j in 1..=n {
                if rng.chance(1, 2) {
                    let val = if rng.chance(1, 30) {
                        0.0
                    } else if rng.chance(1, 30) {
                        *rng.pick(&[1e-18, -1e-18, 5e-324, 2e-16, -1.5e-17, 1e-100])
                    } else {
                        quarter(rng, 16)
                    };
                    bi_entries.push((r, j, val));
                }
            }
        }
        if rng.chance(1, 3) {
            rng.shuffle(&mut qi_entries);
        }
        if rng.chance(1, 3) {
            rng.shuffle(&mut bi_entries);
        }
    }
    let mut cl_vals = vec![];
    let mut cu_vals = vec![];
    for _ in 0..m {
        // one row in 16 writes an infinite side with the unusual sign: by the magnitude rule
        // c_l = +infinity or c_u = -infinity also mean "no such side"
        let (lo, up) = match if rng.chance(1, 16) { 10 + rng.below(5) } else { rng.below(10) } {
            10 => (infinite_value(rng, infinity), finite_side(rng, infinity)),
            11 => (finite_side(rng, infinity), -infinite_value(rng, infinity)),
            12 => (infinite_value(rng, infinity), infinite_value(rng, infinity)),
            13 => (-infinite_value(rng, infinity), -infinite_value(rng, infinity)),
            14 => (infinite_value(rng, infinity), -infinite_value(rng, infinity)),
            0..=2 => {
                let a = finite_side(rng, infinity);
                let mut b = finite_side(rng, infinity);
                if b == a {
                    b = a + 0.5;
                }
                (a.min(b), a.max(b))
            }
            3 | 4 => {
                let a = finite_side(rng, infinity);
                (a, a)
            }
            5 | 6 => (-infinite_value(rng, infinity), finite_side(rng, infinity)),
            7 | 8 => (finite_side(rng, infinity), infinite_value(rng, infinity)),
            _ => (-infinite_value(rng, infinity), infinite_value(rng, infinity)),
        };
        cl_vals.push(lo);
        cu_vals.push(up);
    }
    let cl_default = pick_default_f64(rng, &cl_vals, -infinity);
    let cu_default = pick_default_f64(rng, &cu_vals, infinity);
    let cl = split_default(rng, &cl_vals, cl_default);
    let cu = split_default(rng, &cu_vals, cu_default);

    // variables
    let kinds: Vec<VType> = (0..n)
        .map(|_| match v {
            'C' => VType::Continuous,
            'B' => VType::Binary,
            'I' => VType::Integer,
            'M' => {
                if rng.bool() {
                    VType::Continuous
                } else {
                    VType::Binary
                }
            }
            _ => *rng.pick(&[VType::Continuous, VType::Integer, VType::Binary]),
        })
        .collect();
    let mut l_vals = vec![];
    let mut u_vals = vec![];
    for k in &kinds {
        let (lo, up) = match k {
            VType::Continuous => {
                let lo = match rng.below(4) {
                    0 => 0.0,
                    1 => -infinite_value(rng, infinity),
                    _ => finite_side(rng, infinity),
                };
                // one variable in 16: an infinite bound with the unusual sign (also "unbounded")
                let lo = if rng.chance(1, 32) { infinite_value(rng, infinity) } else { lo };
                let up = if rng.chance(1, 32) {
                    -infinite_value(rng, infinity)
                } else if lo.abs() >= infinity {
                    if rng.bool() {
                        infinite_value(rng, infinity)
                    } else {
                        finite_side(rng, infinity)
                    }
                } else {
                    match rng.below(5) {
                        0 => lo, // fixed
                        1 | 2 => infinite_value(rng, infinity),
                        _ => {
                            let up = lo + rng.range(1, 40) as f64 / 4.0;
                            if up.abs() >= infinity {
                                infinite_value(rng, infinity)
                            } else {
                                up
                            }
                        }
                    }
                };
                (lo, up)
            }
            VType::Integer => match rng.below(12) {
                // the three bound pairs the reader turns into binary variables
                0 | 1 => (0.0, 1.0),
                2 => (1.0, 1.0),
                3 => (0.0, 0.0),
                4 => (-infinite_value(rng, infinity), rng.range(-3, 6) as f64),
                5 => (rng.range(-3, 6) as f64, infinite_value(rng, infinity)),
                6 => match rng.below(8) {
                    0 => (infinite_value(rng, infinity), rng.range(-3, 6) as f64),
                    1 => (rng.range(-3, 6) as f64, -infinite_value(rng, infinity)),
                    2 => (infinite_value(rng, infinity), -infinite_value(rng, infinity)),
                    _ => (-infinite_value(rng, infinity), infinite_value(rng, infinity)),
                },
                // fractional bounds around 0 and 1 (declared integer stays integer)
                8 => *rng.pick(&[(0.0, 1.5), (-0.5, 0.5), (0.5, 1.0), (0.25, 1.75), (-0.75, 1.0), (0.0, 0.5), (1.0, 1.5)]),
                7 => {
                    // fractional bounds with at least one integer between them
                    let a = rng.range(-4, 4) as f64;
                    (a - 0.5, a + rng.range(0, 3) as f64 + 0.25)
                }
                _ => {
                    let a = rng.range(-5, 5) as f64;
                    (a, a + rng.range(0, 6) as f64)
                }
            },
            VType::Binary => match rng.below(10) {
                0 => (0.0, infinite_value(rng, infinity)),
                1 => (-1.0, 2.0),
                2 => (-infinite_value(rng, infinity), infinite_value(rng, infinity)),
                3 => (0.0, 0.0),
                4 => (1.0, 1.0),
                _ => (0.0, 1.0),
            },
        };
        l_vals.push(lo);
        u_vals.push(up);
    }
    let l_default = if rng.bool() { 0.0 } else { pick_default_f64(rng, &l_vals, -infinity) };
    let u_default = if rng.bool() { infinity } else { pick_default_f64(rng, &u_vals, 1.0) };
    let (l, u) = if v == 'B' {
        (DefList { default: 0.0, entries: vec![] }, DefList { default: 1.0, entries: vec![] })
    } else {
        (split_default(rng, &l_vals, l_default), split_default(rng, &u_vals, u_default))
    };
    let t_default = match v {
        'M' => *rng.pick(&[VType::Continuous, VType::Binary]),
        'G' => *rng.pick(&[VType::Continuous, VType::Integer, VType::Binary]),
        'C' => VType::Continuous,
        'B' => VType::Binary,
        _ => VType::Integer,
    };
    let types = if matches!(v, 'M' | 'G') {
        split_default(rng, &kinds, t_default)
    } else {
        DefList { default: t_default, entries: vec![] }
    };

    // starting points: arbitrary, ignored by the conversion
    let start = |rng: &mut Rng, len: usize| -> DefList<f64> {
        let vals: Vec<f64> = (0..len).map(|_| if rng.bool() { 0.0 } else { quarter(rng, 40) }).collect();
        let d = if rng.bool() { 0.0 } else { quarter(rng, 8) };
        let mut dl = split_default(rng, &vals, d);
        if rng.chance(1, 2) {
            dl.entries.clear();
        }
        dl
    };
    let x0 = start(rng, n);
    let y0 = start(rng, m);
    let z0 = start(rng, n);

    let mut var_names = vec![];
    for i in 1..=n {
        if rng.chance(1, 3) {
            var_names.push((i, word(rng)));
        }
    }
    let mut con_names = vec![];
    for i in 1..=m {
        if rng.chance(1, 3) {
            con_names.push((i, word(rng)));
        }
    }
    if rng.chance(1, 4) {
        rng.shuffle(&mut var_names);
    }

    let name = match rng.below(4) {
        0 => format!("QPLIB_{:04}", rng.below(10000)),
        1 => "MIPBAND".to_string(),
        _ => rng.ascii_word(8),
    };
    QpModel {
        name,
        o,
        v,
        c,
        maximize: rng.bool(),
        n,
        m,
        q0,
        b0,
        q0c,
        qi: qi_entries,
        bi: bi_entries,
        infinity,
        cl,
        cu,
        l,
        u,
        types,
        x0,
        y0,
        z0,
        var_names,
        con_names,
    }
}

// ---------------------------------------------------------------------------------------------
// writer

#[derive(Clone, Copy, Debug, PartialEq, Eq)]
pub enum TokKind {
    Name,
    Code,
    Sense,
    Count,
    Index,
    Num,
    VarType,
    NameStr,
}

#[derive(Clone, Debug)]
pub struct DataLine {
    pub toks: Vec<(TokKind, String)>,
    /// commentary after the expected tokens (ignored by a reader)
    pub trailing: Option<String>,
    /// the one separator character used between all tokens of this line
    pub sep: char,
    pub section: &'static str,
    /// true for the `index ... value` lines of a section, false for defaults / counts / header
    pub entry: bool,
    /// white space before the first token (right-aligned / indented files)
    pub lead: String,
    /// how many times the separator is repeated between tokens
    pub sep_width: usize,
}

#[derive(Clone, Debug)]
pub enum PLine {
    Data(DataLine),
    Comment(String),
    Blank(String),
}

impl PLine {
    fn render(&self) -> String {
        match self {
            PLine::Comment(s) | PLine::Blank(s) => s.clone(),
            PLine::Data(d) => {
                let mut s = d.lead.clone();
                for (k, (_, t)) in d.toks.iter().enumerate() {
                    if k > 0 {
                        for _ in 0..d.sep_width.max(1) {
                            s.push(d.sep);
                        }
                    }
                    s.push_str(t);
                }
                if let Some(t) = &d.trailing {
                    s.push(d.sep);
                    s.push_str(t);
                }
                s
            }
        }
    }
}

#[derive(Clone, Debug)]
pub struct Layout {
    /// characters used for comment lines (empty: no comment lines)
    pub comment_chars: Vec<char>,
    pub blank_lines: bool,
    /// 0 none, 1 `#`/`!`/`%` commentary, 2 bare words, 3 both
    pub trailing: u8,
    /// 0 blanks, 1 tabs, 2 per line
    pub tabs: u8,
    pub lower_code: bool,
    /// 0 lower, 1 Capitalised, 2 UPPER
    pub sense_style: u8,
    pub final_newline: bool,
    /// data lines may start with white space
    pub indent: bool,
}

impl Layout {
    pub fn random(rng: &mut Rng) -> Layout {
        let comment_chars = match rng.below(6) {
            0 => vec![],
            1 => vec!['!'],
            2 => vec!['#'],
            3 => vec!['%'],
            _ => rng.subset(&['!', '#', '%'], 2, 3),
        };
        Layout {
            comment_chars,
            blank_lines: rng.chance(1, 2),
            trailing: rng.below(4) as u8,
            tabs: *rng.pick(&[0u8, 0, 1, 2]),
            lower_code: rng.chance(1, 3),
            sense_style: rng.below(3) as u8,
            final_newline: rng.chance(3, 4),
            indent: rng.chance(2, 5),
        }
    }
    pub fn facets(&self) -> Vec<String> {
        let mut f = vec![];
        if self.comment_chars.is_empty() {
            f.push("layout:no-comment-lines".to_string());
        }
        for c in &self.comment_chars {
            f.push(format!("layout:comment-lines:{c}"));
        }
        if self.blank_lines {
            f.push("layout:blank-lines".into());
        }
        f.push(format!(
            "layout:trailing-text:{}",
            ["none", "comment-char", "bare-words", "both"][self.trailing as usize]
        ));
        f.push(format!("layout:separator:{}", ["blank", "tab", "mixed"][self.tabs as usize]));
        f.push(format!("layout:type-code:{}", if self.lower_code { "lower" } else { "upper" }));
        f.push(format!("layout:sense:{}", ["lower", "Capitalised", "UPPER"][self.sense_style as usize]));
        f.push(format!("layout:final-newline:{}", self.final_newline));
        f
    }
}

/// decimal text of a value; every value of the model is either a multiple of 1/4 below 1e6, a tiny
/// coefficient (written in shortest round-trip exponent form) or one of the large infinity markers, so each style denotes the value exactly (or, for 1e30
/// and its multiples, rounds to it)
pub fn fmt_num(rng: &mut Rng, v: f64) -> String {
    assert!(v.is_finite(), "harness: non-finite value in the QP model");
    if v == 0.0 {
        return rng.pick(&["0", "0.0", "0.00", "0.0E+00", "0e0"]).to_string();
    }
    // plain decimal styles only where they are exact: not for the huge markers, not for tiny coefficients
    let big = v.abs() >= 1e15 || v.abs() < 1e-3;
    let fortran = |v: f64| -> String {
        let s = format!("{:e}", v);
        let (mant, exp) = s.split_once('e').expect("exponent");
        let mant = if mant.contains('.') { mant.to_string() } else { format!("{mant}.0") };
        let e: i32 = exp.parse().expect("exponent value");
        format!("{mant}E{}{:02}", if e < 0 { '-' } else { '+' }, e.abs())
    };
    match rng.below(6) {
        0 | 1 if !big => format!("{}", v),
        2 if !big => {
            if v.fract() == 0.0 {
                format!("{:.1}", v)
            } else {
                format!("{:.2}", v)
            }
        }
        3 => format!("{:e}", v),
        4 => format!("{:E}", v),
        _ => fortran(v),
    }
}

#[derive(Clone, Debug)]
pub struct Rendered {
    pub lines: Vec<PLine>,
    pub final_newline: bool,
}

struct W<'a> {
    rng: &'a mut Rng,
    layout: &'a Layout,
    lines: Vec<PLine>,
}

impl<'a> W<'a> {
    fn filler(&mut self) {
        if !self.layout.comment_chars.is_empty() {
            while self.rng.chance(1, 6) {
                let c = *self.rng.pick(&self.layout.comment_chars);
                let body = match self.rng.below(6) {
                    0 => String::new(),
                    1 => "---------------".to_string(),
                    // a comment that looks like data
                    2 => format!(" {} {} {}", self.rng.below(6), self.rng.below(6), quarter(self.rng, 16)),
                    3 => format!("{}", self.rng.below(9)),
                    _ => format!(" {} {}", self.rng.ascii_word(7), self.rng.ascii_word(5)),
                };
                self.lines.push(PLine::Comment(format!("{c}{body}")));
            }
        }
        if self.layout.blank_lines {
            while self.rng.chance(1, 8) {
                let b = match self.rng.below(8) {
                    0 => " ",
                    1 => "\t",
                    _ => "",
                };
                self.lines.push(PLine::Blank(b.to_string()));
            }
        }
    }
    fn data(&mut self, section: &'static str, entry: bool, toks: Vec<(TokKind, String)>, note: &str) {
        self.filler();
        let sep = match self.layout.tabs {
            0 => ' ',
            1 => '\t',
            _ => {
                if self.rng.bool() {
                    '\t'
                } else {
                    ' '
                }
            }
        };
        let trailing = if self.layout.trailing == 0 || !self.rng.chance(2, 3) {
            None
        } else {
            let with_char = match self.layout.trailing {
                1 => true,
                2 => false,
                _ => self.rng.bool(),
            };
            Some(if with_char {
                let c = *self.rng.pick(&['#', '!', '%']);
                match self.rng.below(3) {
                    0 => format!("{c} {note}"),
                    1 => format!("{c}{note}"),
                    _ => format!("{c}"),
                }
            } else {
                match self.rng.below(4) {
                    0 => "|".to_string(),
                    // bare commentary that starts with a number, as in the paper's example
                    1 => format!("{} lines {note}", self.rng.below(9)),
                    _ => note.to_string(),
                }
            })
        };
        // scalar lines (type code, sense, counts, defaults, constants - the reader takes their first token) may be
        // indented or right-aligned and may separate trailing text by several blanks / tabs. The `index ... value`
        // lines are kept single-separated and flush left: the reader splits them at every single white-space
        // character (files of the QPLIB library are written that way); aligned entry lines are outside the
        // quantifier's layout list and are not generated.
        let lead = if !entry && self.layout.indent && self.rng.chance(1, 2) { (*self.rng.pick(&[" ", "   ", "\t", "        ", " \t"])).to_string() } else { String::new() };
        let sep_width = if !entry && self.rng.chance(1, 5) { 2 + self.rng.usize_below(3) } else { 1 };
        self.lines.push(PLine::Data(DataLine { toks, trailing, sep, section, entry, lead, sep_width }));
    }
    fn num(&mut self, v: f64) -> (TokKind, String) {
        (TokKind::Num, fmt_num(self.rng, v))
    }
    fn count(&mut self, section: &'static str, k: usize, note: &str) {
        self.data(section, false, vec![(TokKind::Count, k.to_string())], note);
    }
    fn idx(k: usize) -> (TokKind, String) {
        (TokKind::Index, k.to_string())
    }
    fn deflist(&mut self, section: &'static str, d: &DefList<f64>, what: &str) {
        let t = self.num(d.default);
        self.data(section, false, vec![t], &format!("default value for entries in {what}"));
        self.count(section, d.entries.len(), &format!("non default entries in {what}"));
        for (i, v) in &d.entries {
            let t = self.num(*v);
            self.data(section, true, vec![Self::idx(*i), t], "index & value");
        }
    }
}

pub fn render(m: &QpModel, layout: &Layout, rng: &mut Rng) -> Rendered {
    let mut w = W { rng, layout, lines: vec![] };
    let has_c = m.has_constraint_sections();
    w.data("name", false, vec![(TokKind::Name, m.name.clone())], "problem name");
    let code = if layout.lower_code { m.code().to_lowercase() } else { m.code() };
    w.data("type", false, vec![(TokKind::Code, code)], "problem type");
    let sense = match (m.maximize, layout.sense_style) {
        (false, 0) => "minimize",
        (false, 1) => "Minimize",
        (false, _) => "MINIMIZE",
        (true, 0) => "maximize",
        (true, 1) => "Maximize",
        (true, _) => "MAXIMIZE",
    };
    w.data("sense", false, vec![(TokKind::Sense, sense.to_string())], "objective sense");
    w.count("n", m.n, "variables");
    if has_c {
        w.count("m", m.m, "general constraints");
    }
    if m.o != 'L' {
        w.count("Q0", m.q0.len(), "nonzeros in lower triangle of Q^0");
        for &(i, j, v) in &m.q0 {
            let t = w.num(v);
            w.data("Q0", true, vec![W::idx(i), W::idx(j), t], "row & column index & value of nonzero in lower triangle Q^0");
        }
    }
    w.deflist("b0", &m.b0, "b_0");
    let t = w.num(m.q0c);
    w.data("q0", false, vec![t], "value of q^0");
    if has_c && m.c != 'L' {
        w.count("Qi", m.qi.len(), "nonzeros in lower triangles of Q^i");
        for &(c, i, j, v) in &m.qi {
            let t = w.num(v);
            w.data("Qi", true, vec![W::idx(c), W::idx(i), W::idx(j), t], "constraint, row & column index & value");
        }
    }
    if has_c {
        w.count("bi", m.bi.len(), "nonzeros in vectors b^i");
        for &(c, j, v) in &m.bi {
            let t = w.num(v);
            w.data("bi", true, vec![W::idx(c), W::idx(j), t], "constraint, index & value of nonzero in b^i");
        }
    }
    let t = w.num(m.infinity);
    w.data("infinity", false, vec![t], "infinity");
    if has_c {
        w.deflist("c_l", &m.cl, "c_l");
        w.deflist("c_u", &m.cu, "c_u");
    }
    if m.v != 'B' {
        w.deflist("l", &m.l, "l");
        w.deflist("u", &m.u, "u");
    }
    if matches!(m.v, 'M' | 'G') {
        w.data(
            "types",
            false,
            vec![(TokKind::VarType, m.types.default.file_code().to_string())],
            "default variable type",
        );
        w.count("types", m.types.entries.len(), "non default variable types");
        for (i, t) in &m.types.entries {
            w.data("types", true, vec![W::idx(*i), (TokKind::VarType, t.file_code().to_string())], "variable type");
        }
    }
    w.deflist("x0", &m.x0, "initial x");
    if has_c {
        w.deflist("y0", &m.y0, "initial y");
    }
    w.deflist("z0", &m.z0, "initial z");
    w.count("var-names", m.var_names.len(), "non default names for variables");
    for (i, s) in &m.var_names {
        w.data("var-names", true, vec![W::idx(*i), (TokKind::NameStr, s.clone())], "name");
    }
    w.count("con-names", m.con_names.len(), "non default names for constraints");
    for (i, s) in &m.con_names {
        w.data("con-names", true, vec![W::idx(*i), (TokKind::NameStr, s.clone())], "name");
    }
    w.filler();
    Rendered { lines: w.lines, final_newline: layout.final_newline }
}

impl Rendered {
    pub fn text(&self) -> String {
        Self::text_of(&self.lines, self.final_newline)
    }
    fn text_of(lines: &[PLine], final_newline: bool) -> String {
        let mut s = String::new();
        for (k, l) in lines.iter().enumerate() {
            if k > 0 {
                s.push('\n');
            }
            s.push_str(&l.render());
        }
        if final_newline && !lines.is_empty() {
            s.push('\n');
        }
        s
    }
    /// (physical line index, token index) of every token of a kind
    pub fn tokens(&self, kind: TokKind) -> Vec<(usize, usize)> {
        let mut out = vec![];
        for (li, l) in self.lines.iter().enumerate() {
            if let PLine::Data(d) = l {
                for (ti, (k, _)) in d.toks.iter().enumerate() {
                    if *k == kind {
                        out.push((li, ti));
                    }
                }
            }
        }
        out
    }
    fn with_token(&self, li: usize, ti: usize, new: &str) -> Vec<PLine> {
        let mut lines = self.lines.clone();
        if let PLine::Data(d) = &mut lines[li] {
            d.toks[ti].1 = new.to_string();
        }
        lines
    }
    fn token(&self, li: usize, ti: usize) -> &str {
        match &self.lines[li] {
            PLine::Data(d) => &d.toks[ti].1,
            _ => "",
        }
    }
    fn section(&self, li: usize) -> &'static str {
        match &self.lines[li] {
            PLine::Data(d) => d.section,
            _ => "",
        }
    }
    pub fn last_data_line(&self) -> usize {
        self.lines
            .iter()
            .rposition(|l| matches!(l, PLine::Data(_)))
            .expect("harness: rendering without data lines")
    }
}

// ---------------------------------------------------------------------------------------------
// faults

pub const FAULT_CLASSES: [&str; 9] = [
    "type-code-bad-letter",
    "type-code-too-short",
    "count",
    // a negative count is its own class: whether a reader rejects it depends on the integer
    // type it parses into, not on its handling of non-numeric text
    "count-negative",
    "number",
    "index",
    "variable-type",
    "sense",
    "truncation",
];

#[derive(Clone, Debug)]
pub struct Faulty {
    pub class: &'static str,
    pub text: String,
    /// 1-based physical line of the bad token; for a truncation: number of physical lines left
    pub line: usize,
    pub what: String,
}

impl Rendered {
    /// one fault of the given class, or None when the text has no token of the kind needed
    pub fn inject(&self, rng: &mut Rng, class: &'static str) -> Option<Faulty> {
        let replace = |rng: &mut Rng, kind: TokKind, garbage: &[&str]| -> Option<(usize, String, String)> {
            let toks = self.tokens(kind);
            if toks.is_empty() {
                return None;
            }
            let (li, ti) = *rng.pick(&toks);
            let g = rng.pick(garbage).to_string();
            let what = format!("{} token `{}` of section {} replaced by `{g}`", class, self.token(li, ti), self.section(li));
            Some((li, Self::text_of(&self.with_token(li, ti, &g), self.final_newline), what))
        };
        let r = match class {
            "type-code-bad-letter" => {
                let (li, ti) = self.tokens(TokKind::Code)[0];
                let old: Vec<char> = self.token(li, ti).chars().collect();
                let pos = rng.usize_below(3);
                // letters that are valid at another position, digits and symbols
                let bad: &[char] = match pos {
                    0 => &['B', 'M', 'I', 'G', 'N', 'X', '1', '?'],
                    1 => &['L', 'D', 'Q', 'N', 'X', '0', '-'],
                    _ => &['M', 'I', 'G', 'X', '2', '.'],
                };
                let mut b = *rng.pick(bad);
                if old[pos].is_ascii_lowercase() {
                    b = b.to_ascii_lowercase();
                }
                let mut new = old.clone();
                new[pos] = b;
                let new: String = new.into_iter().collect();
                let what = format!("type code `{}` replaced by `{new}`", self.token(li, ti));
                Some((li, Self::text_of(&self.with_token(li, ti, &new), self.final_newline), what))
            }
            "type-code-too-short" => {
                let (li, ti) = self.tokens(TokKind::Code)[0];
                let keep = 1 + rng.usize_below(2);
                let new: String = self.token(li, ti).chars().take(keep).collect();
                let what = format!("type code `{}` shortened to `{new}`", self.token(li, ti));
                Some((li, Self::text_of(&self.with_token(li, ti, &new), self.final_newline), what))
            }
            "count" => replace(rng, TokKind::Count, &["x", "3.5", "two", "3,", "1e1", "2;", "1.0"]),
            "count-negative" => replace(rng, TokKind::Count, &["-1", "-2", "-10"]),
            "number" => replace(rng, TokKind::Num, &["abc", "1.2.3", "--1", "1,5", "0x1A", "O.5", "1.0F+2", "2.5e", "1e+"]),
            "index" => replace(rng, TokKind::Index, &["a", "1.5", "-2", "i", "1,", "2e0"]),
            "variable-type" => replace(rng, TokKind::VarType, &["3", "9", "x", "c", "-1", "B"]),
            "sense" => replace(rng, TokKind::Sense, &["minimise", "min", "max", "maximum", "optimize", "minimize:", "1"]),
            "truncation" => {
                // keep `cut` physical lines; the last required line is never kept
                let cut = rng.usize_below(self.last_data_line() + 1);
                let nl = cut > 0 && rng.bool();
                let what = format!("text cut after {cut} of {} lines (before the last required line)", self.lines.len());
                let text = Self::text_of(&self.lines[..cut], nl);
                // physical lines of the cut text: an empty last line without a newline is no line
                let physical = text.matches('\n').count() + usize::from(!text.is_empty() && !text.ends_with('\n'));
                return Some(Faulty { class, text, line: physical, what });
            }
            _ => panic!("harness: unknown fault class {class}"),
        };
        r.map(|(li, text, what)| Faulty { class, text, line: li + 1, what })
    }

    /// Debatable malformations (never judged): an entry line that lost its last token, or an
    /// index 0. Returns (kind, text, 1-based line).
    pub fn inject_debatable(&self, rng: &mut Rng) -> Option<(&'static str, String, usize)> {
        let entries: Vec<usize> = self
            .lines
            .iter()
            .enumerate()
            .filter(|(_, l)| matches!(l, PLine::Data(d) if d.entry))
            .map(|(i, _)| i)
            .collect();
        if entries.is_empty() {
            return None;
        }
        let li = *rng.pick(&entries);
        let mut lines = self.lines.clone();
        let kind = if let PLine::Data(d) = &mut lines[li] {
            if rng.bool() {
                d.toks.pop();
                if rng.bool() {
                    d.trailing = None;
                    "short-line"
                } else {
                    "short-line-with-trailing-text"
                }
            } else {
                let idx: Vec<usize> = d.toks.iter().enumerate().filter(|(_, t)| t.0 == TokKind::Index).map(|(i, _)| i).collect();
                let ti = *rng.pick(&idx);
                d.toks[ti].1 = "0".to_string();
                "zero-index"
            }
        } else {
            unreachable!()
        };
        Some((kind, Self::text_of(&lines, self.final_newline), li + 1))
    }
}
