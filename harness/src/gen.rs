//! Hostile generators: messages as another producer may legally send them — unsorted, repeated,
//! split, zero-coefficient terms, lower-triangular / symmetric / non-symmetric quadratic entries,
//! absent optional parts, unset oneofs, huge and colliding ids.

use crate::build::*;
use crate::rng::Rng;
use ommx::v1;
use std::collections::{BTreeMap, BTreeSet, HashMap};

#[derive(Clone, Copy, Debug, PartialEq, Eq)]
pub enum Regime {
    /// dyadic: coefficients k/8 (|k|<=64), values k/4 (|k|<=16): IEEE arithmetic is exact
    D,
    /// reals: log-uniform magnitudes, mixed signs, edge values
    R,
}

pub fn coef(rng: &mut Rng, regime: Regime) -> f64 {
    match regime {
        Regime::D => {
            let mut k = rng.range(-64, 64);
            if k == 0 {
                k = 8;
            }
            k as f64 / 8.0
        }
        Regime::R => {
            if rng.chance(1, 40) {
                return *rng.pick(&[1e-17, -1e-17, f64::EPSILON, -f64::EPSILON, 3e-16, 1.0, -1.0]);
            }
            let e = rng.unit() * 12.0 - 6.0;
            let m = 10f64.powf(e);
            if rng.bool() {
                m
            } else {
                -m
            }
        }
    }
}

pub fn value(rng: &mut Rng, regime: Regime) -> f64 {
    match regime {
        Regime::D => rng.range(-16, 16) as f64 / 4.0,
        Regime::R => {
            if rng.chance(1, 30) {
                return *rng.pick(&[0.0, -0.0, 1.0, -1.0]);
            }
            let e = rng.unit() * 6.0 - 3.0;
            let m = 10f64.powf(e);
            if rng.bool() {
                m
            } else {
                -m
            }
        }
    }
}

/// pool of ids: small colliding ones, optionally mixed with sparse / huge ones
pub fn id_pool(rng: &mut Rng, n: usize, allow_huge: bool) -> Vec<u64> {
    let mut s = BTreeSet::new();
    let flavor = rng.below(if allow_huge { 4 } else { 2 });
    while s.len() < n {
        let id = match flavor {
            0 => rng.below(6.max(2 * n as u64)),
            1 => rng.below(12.max(2 * n as u64)),
            2 => {
                if rng.bool() {
                    rng.below(6)
                } else {
                    *rng.pick(&[1u64 << 32, (1u64 << 32) + 1, 1u64 << 53, (1u64 << 53) + 2, 1_000_003, (1u64 << 62) - 40]) + if n > 8 { rng.below(n as u64) } else { 0 }
                }
            }
            _ => (1u64 << 32) + rng.below(8.max(2 * n as u64)),
        };
        s.insert(id);
    }
    let mut v: Vec<u64> = s.into_iter().collect();
    rng.shuffle(&mut v);
    v
}

#[derive(Clone, Debug)]
pub struct FnCfg {
    pub ids: Vec<u64>,
    pub regime: Regime,
    pub max_terms: usize,
    pub max_degree: usize,
    /// duplicate (row, column) positions in quadratic messages
    pub dup_positions: bool,
    pub allow_unset: bool,
    /// explicit zero coefficients
    pub zero_terms: bool,
    /// repeated ids in linear terms / repeated monomials
    pub repeats: bool,
}

impl FnCfg {
    pub fn new(ids: Vec<u64>, regime: Regime) -> Self {
        FnCfg {
            ids,
            regime,
            max_terms: 8,
            max_degree: 4,
            dup_positions: true,
            allow_unset: true,
            zero_terms: true,
            repeats: true,
        }
    }
}

fn c_or_zero(rng: &mut Rng, cfg: &FnCfg) -> f64 {
    if cfg.zero_terms && rng.chance(1, 12) {
        if rng.bool() {
            0.0
        } else {
            -0.0
        }
    } else {
        coef(rng, cfg.regime)
    }
}

pub fn gen_linear(rng: &mut Rng, cfg: &FnCfg) -> v1::Linear {
    let n = if cfg.ids.is_empty() { 0 } else { rng.usize_below(cfg.max_terms + 1) };
    let mut terms = vec![];
    let mut used = BTreeSet::new();
    for _ in 0..n {
        let id = *rng.pick(&cfg.ids);
        if !cfg.repeats && !used.insert(id) {
            continue;
        }
        terms.push((id, c_or_zero(rng, cfg)));
    }
    let c = match rng.below(4) {
        0 => 0.0,
        _ => c_or_zero(rng, cfg),
    };
    linear(terms, c)
}

pub fn gen_quadratic(rng: &mut Rng, cfg: &FnCfg) -> v1::Quadratic {
    let n = if cfg.ids.is_empty() { 0 } else { rng.usize_below(cfg.max_terms + 1) };
    let mut entries: Vec<(u64, u64, f64)> = vec![];
    let mut seen = BTreeSet::new();
    // shape: 0 arbitrary, 1 upper triangular, 2 lower triangular, 3 symmetrised pairs
    let shape = rng.below(4);
    for _ in 0..n {
        let mut r = *rng.pick(&cfg.ids);
        let mut c = *rng.pick(&cfg.ids);
        match shape {
            1 if r > c => std::mem::swap(&mut r, &mut c),
            2 if r < c => std::mem::swap(&mut r, &mut c),
            _ => {}
        }
        let v = c_or_zero(rng, cfg);
        if shape == 3 && r != c {
            if !cfg.dup_positions && (seen.contains(&(r, c)) || seen.contains(&(c, r))) {
                continue;
            }
            seen.insert((r, c));
            seen.insert((c, r));
            // c/2 on both triangles (exact in binary unless subnormal)
            entries.push((r, c, v / 2.0));
            entries.push((c, r, v / 2.0));
            continue;
        }
        if !cfg.dup_positions && !seen.insert((r, c)) {
            continue;
        }
        entries.push((r, c, v));
    }
    rng.shuffle(&mut entries);
    let lin = match rng.below(4) {
        0 => None,
        1 => Some(linear(vec![], 0.0)),
        _ => Some(gen_linear(rng, cfg)),
    };
    quadratic(entries, lin)
}

pub fn gen_polynomial(rng: &mut Rng, cfg: &FnCfg) -> v1::Polynomial {
    let n = rng.usize_below(cfg.max_terms + 1);
    let mut terms: Vec<(Vec<u64>, f64)> = vec![];
    let mut seen = BTreeSet::new();
    for _ in 0..n {
        let d = if cfg.ids.is_empty() { 0 } else { rng.usize_below(cfg.max_degree + 1) };
        let ids: Vec<u64> = (0..d).map(|_| *rng.pick(&cfg.ids)).collect(); // unsorted, repeated ids
        if !cfg.repeats {
            let mut k = ids.clone();
            k.sort_unstable();
            if !seen.insert(k) {
                continue;
            }
        }
        terms.push((ids, c_or_zero(rng, cfg)));
    }
    polynomial(terms)
}

/// variant: 0 unset, 1 constant, 2 linear, 3 quadratic, 4 polynomial
pub fn gen_function_variant(rng: &mut Rng, cfg: &FnCfg, variant: u64) -> v1::Function {
    match variant {
        0 => f_unset(),
        1 => f_const(c_or_zero(rng, cfg)),
        2 => f_linear(gen_linear(rng, cfg)),
        3 => f_quadratic(gen_quadratic(rng, cfg)),
        _ => f_polynomial(gen_polynomial(rng, cfg)),
    }
}

pub fn gen_function(rng: &mut Rng, cfg: &FnCfg) -> v1::Function {
    let max_variant = match cfg.max_degree {
        0 => 1,
        1 => 2,
        2 => 3,
        _ => 4,
    };
    let lo = if cfg.allow_unset { 0 } else { 1 };
    let mut v = rng.range(lo, max_variant) as u64;
    // favour the structured variants
    if v <= 1 && rng.bool() {
        v = rng.range(2.min(max_variant), max_variant) as u64;
    }
    gen_function_variant(rng, cfg, v)
}

pub fn variant_name(f: &v1::Function) -> &'static str {
    use v1::function::Function as F;
    match &f.function {
        None => "unset",
        Some(F::Constant(_)) => "constant",
        Some(F::Linear(_)) => "linear",
        Some(F::Quadratic(_)) => "quadratic",
        Some(F::Polynomial(_)) => "polynomial",
        #[allow(unreachable_patterns)]
        _ => "other",
    }
}

pub fn gen_state(rng: &mut Rng, ids: &BTreeSet<u64>, regime: Regime) -> v1::State {
    state(ids.iter().map(|i| (*i, value(rng, regime))))
}

// ---------------------------------------------------------------------------------------------
// instances

#[derive(Clone, Debug)]
pub struct InstCfg {
    pub regime: Regime,
    pub max_vars: usize,
    pub max_constraints: usize,
    pub max_removed: usize,
    pub max_degree: usize,
    pub semi_kinds: bool,
    pub allow_huge_ids: bool,
    /// variables that are defined but never used
    pub irrelevant: bool,
    pub dup_positions: bool,
    pub metadata: bool,
    /// `function: None` on constraints / objective
    pub absent_functions: bool,
    /// a present Function message whose oneof is unset
    pub unset_oneof: bool,
    /// up to 32 stored terms per function part instead of 6
    pub big_functions: bool,
}

/// one case in eight, spread evenly over the worker shards (shard = k mod 16)
pub fn is_deep_case(k: u64) -> bool {
    (k / 16) % 8 == 5
}

impl InstCfg {
    /// thorough tier: one case in eight explores a much larger instance (many variables, constraints
    /// and terms), so that defects with a size threshold have a chance to show
    pub fn deepen(&mut self, thorough: bool, k: u64) {
        // (k / 16) so that the deep cases spread over all 16 worker shards (shard = k mod 16)
        if thorough && is_deep_case(k) {
            self.max_vars = 24;
            self.max_constraints = 20;
            self.max_removed = 10;
            self.big_functions = true;
        }
    }

    pub fn new(regime: Regime) -> Self {
        InstCfg {
            regime,
            max_vars: 6,
            max_constraints: 4,
            max_removed: 3,
            max_degree: 4,
            semi_kinds: false,
            allow_huge_ids: true,
            irrelevant: true,
            dup_positions: true,
            metadata: true,
            absent_functions: true,
            unset_oneof: true,
            big_functions: false,
        }
    }
}

/// a bound shape and the kind; all endpoints are small multiples of 1/4 (or infinite)
pub fn gen_bound(rng: &mut Rng, kind: i32) -> Option<(f64, f64)> {
    let inf = f64::INFINITY;
    if kind == KIND_BINARY {
        return match rng.below(4) {
            0 => None,
            1 => Some((0.0, 1.0)),
            2 => Some((0.0, 1.0)),
            _ => *rng.pick(&[Some((0.0, 0.0)), Some((1.0, 1.0)), Some((-1.0, 2.0)), Some((0.0, 1.0)), Some((0.0, -0.0)), Some((-0.0, 1.0))]),
        };
    }
    if rng.chance(1, 25) {
        // large magnitudes: `bound + 1e-7` rounds back to the bound
        let big = *rng.pick(&[4294967296.0, 1e10, 2147483648.0, 9007199254740992.0]);
        return Some(*rng.pick(&[(-big, big), (0.0, big), (-big, 0.0), (big / 2.0, big), (-big, -big / 2.0)]));
    }
    let a = rng.range(-16, 16) as f64 / 4.0;
    let w = rng.range(0, 24) as f64 / 4.0;
    match rng.below(8) {
        0 => None,
        1 => Some((-inf, inf)),
        2 => Some((a, inf)),
        3 => Some((-inf, a)),
        // degenerate; at zero also with the signs of the two zeros mixed (0.0 <= -0.0 holds)
        4 => Some(if a == 0.0 { *rng.pick(&[(0.0, 0.0), (0.0, -0.0), (-0.0, 0.0), (-0.0, -0.0)]) } else { (a, a) }),
        5 => Some((a + 0.125, a + w + 0.375)), // fractional
        _ => Some((a, a + w)),
    }
}

/// effective (domain) bound of a variable: unspecified means unbounded, [0,1] for binaries
pub fn effective_bound(v: &v1::DecisionVariable) -> (f64, f64) {
    match &v.bound {
        Some(b) => (b.lower, b.upper),
        None => {
            if v.kind == KIND_BINARY {
                (0.0, 1.0)
            } else {
                (f64::NEG_INFINITY, f64::INFINITY)
            }
        }
    }
}

/// an in-bound value for a variable, integral for binary / integer kinds when possible
pub fn value_in_bound(rng: &mut Rng, v: &v1::DecisionVariable, regime: Regime) -> f64 {
    let (l, u) = effective_bound(v);
    // exactly on a finite end of the bound (both regimes)
    if rng.chance(1, 10) {
        if l.is_finite() && (rng.bool() || !u.is_finite()) {
            return l;
        }
        if u.is_finite() {
            return u;
        }
    }
    let integral = v.kind == KIND_BINARY || v.kind == KIND_INTEGER || v.kind == KIND_SEMI_INTEGER;
    let lo = if l.is_finite() { l } else { (if u.is_finite() { u } else { 0.0 }) - 4.0 };
    let hi = if u.is_finite() { u } else { lo.max(if l.is_finite() { l } else { -4.0 }) + 8.0 };
    if integral {
        let a = lo.ceil() as i64;
        let b = hi.floor() as i64;
        if a <= b {
            return rng.range(a, b) as f64;
        }
        return lo; // no integer inside: any in-bound value (evaluate checks bounds only)
    }
    match regime {
        Regime::D => {
            // multiples of 1/8 inside [lo, hi]
            let a = (lo * 8.0).ceil() as i64;
            let b = (hi * 8.0).floor() as i64;
            if a <= b {
                let k = rng.range(a, b);
                // prefer quarters
                let k = if k % 2 != 0 && k + 1 <= b { k + 1 } else { k };
                k as f64 / 8.0
            } else {
                lo
            }
        }
        Regime::R => {
            if rng.chance(1, 6) {
                return if rng.bool() { lo } else { hi };
            }
            lo + (hi - lo) * rng.unit()
        }
    }
}

pub fn gen_metadata(rng: &mut Rng, c: &mut v1::Constraint) {
    if rng.bool() {
        c.name = Some(rng.ascii_word(6));
    }
    if rng.bool() {
        c.description = Some(rng.ascii_word(10));
    }
    for _ in 0..rng.below(3) {
        c.subscripts.push(rng.range(-3, 9));
    }
    for _ in 0..rng.below(3) {
        c.parameters.insert(rng.ascii_word(3), rng.ascii_word(4));
    }
}

pub fn gen_constraint_id_pool(rng: &mut Rng, n: usize) -> Vec<u64> {
    let mut s = BTreeSet::new();
    let sparse = rng.chance(1, 3);
    while s.len() < n {
        s.insert(if sparse { rng.below(1000) * 7 + 3 } else { rng.below(10.max(3 * n as u64)) });
    }
    let mut v: Vec<u64> = s.into_iter().collect();
    rng.shuffle(&mut v);
    v
}

pub struct GenInstance {
    pub instance: v1::Instance,
    /// ids that the generator intends to be used by functions
    pub pool: Vec<u64>,
}

pub fn gen_instance(rng: &mut Rng, cfg: &InstCfg) -> GenInstance {
    let nv = rng.usize_below(cfg.max_vars + 1);
    let all_ids = id_pool(rng, nv, cfg.allow_huge_ids);
    let mut inst = v1::Instance::default();
    for id in &all_ids {
        let kind = if cfg.semi_kinds && rng.chance(1, 6) {
            *rng.pick(&[KIND_SEMI_INTEGER, KIND_SEMI_CONTINUOUS])
        } else {
            *rng.pick(&[KIND_BINARY, KIND_INTEGER, KIND_CONTINUOUS, KIND_CONTINUOUS])
        };
        let mut v = dvar(*id, kind, gen_bound(rng, kind));
        if cfg.metadata && rng.chance(1, 3) {
            v.name = Some(rng.ascii_word(4));
            v.subscripts = vec![rng.range(0, 5)];
        }
        inst.decision_variables.push(v);
    }
    // used pool: maybe leave some variables irrelevant
    let pool: Vec<u64> = if cfg.irrelevant && nv > 1 {
        let mut p = rng.subset(&all_ids, 3, 4);
        if p.is_empty() {
            p.push(all_ids[0]);
        }
        p
    } else {
        all_ids.clone()
    };
    let mut fcfg = FnCfg::new(pool.clone(), cfg.regime);
    fcfg.max_degree = cfg.max_degree;
    fcfg.dup_positions = cfg.dup_positions;
    fcfg.allow_unset = cfg.unset_oneof;
    fcfg.max_terms = if cfg.big_functions { 32 } else { 6 };
    inst.objective = if cfg.absent_functions && rng.chance(1, 10) {
        None
    } else {
        Some(gen_function(rng, &fcfg))
    };
    inst.sense = if rng.bool() { SENSE_MIN } else { SENSE_MAX };
    let nc = rng.usize_below(cfg.max_constraints + 1);
    let nr = rng.usize_below(cfg.max_removed + 1);
    let cids = gen_constraint_id_pool(rng, nc + nr);
    for (i, cid) in cids.iter().enumerate() {
        let f = if cfg.absent_functions && rng.chance(1, 12) {
            None
        } else {
            Some(gen_function(rng, &fcfg))
        };
        let mut c = constraint(*cid, if rng.bool() { EQ_ZERO } else { LE_ZERO }, f);
        if cfg.metadata {
            gen_metadata(rng, &mut c);
        }
        if i < nc {
            inst.constraints.push(c);
        } else {
            let mut params = HashMap::new();
            if rng.bool() {
                params.insert(rng.ascii_word(3), rng.ascii_word(3));
            }
            // the reason is free text: the empty string and a blank are reasons like any other
            let word = rng.ascii_word(5);
            let reason = match rng.below(8) {
                0 => "",
                1 => " ",
                _ => word.as_str(),
            };
            inst.removed_constraints.push(removed(c, reason, params));
        }
    }
    if cfg.metadata && rng.chance(1, 3) {
        let mut d = v1::instance::Description::default();
        d.name = Some(rng.ascii_word(5));
        if rng.bool() {
            d.authors = vec![rng.ascii_word(4)];
        }
        inst.description = Some(d);
    }
    GenInstance { instance: inst, pool }
}

/// a complete in-bound state (all defined variables, or only the given ids)
pub fn gen_state_in_bounds(rng: &mut Rng, inst: &v1::Instance, only: Option<&BTreeSet<u64>>, regime: Regime) -> v1::State {
    let mut s = v1::State::default();
    for v in &inst.decision_variables {
        if let Some(o) = only {
            if !o.contains(&v.id) {
                continue;
            }
        }
        s.entries.insert(v.id, value_in_bound(rng, v, regime));
    }
    s
}

/// ids used by objective, constraints and removed constraints, read from the message fields
pub fn used_ids(inst: &v1::Instance) -> BTreeSet<u64> {
    let mut s = BTreeSet::new();
    if let Some(f) = &inst.objective {
        s.extend(crate::exact::occurring_ids(f));
    }
    for c in &inst.constraints {
        if let Some(f) = &c.function {
            s.extend(crate::exact::occurring_ids(f));
        }
    }
    for r in &inst.removed_constraints {
        if let Some(c) = &r.constraint {
            if let Some(f) = &c.function {
                s.extend(crate::exact::occurring_ids(f));
            }
        }
    }
    s
}

pub fn var_map(inst: &v1::Instance) -> BTreeMap<u64, &v1::DecisionVariable> {
    inst.decision_variables.iter().map(|v| (v.id, v)).collect()
}

pub fn sorted_state(s: &v1::State) -> BTreeMap<u64, f64> {
    s.entries.iter().map(|(k, v)| (*k, *v)).collect()
}

/// well-formed constraint hints: refer to active constraints and defined variables, no repeats
pub fn gen_hints(rng: &mut Rng, inst: &v1::Instance) -> Option<v1::ConstraintHints> {
    if inst.constraints.is_empty() || inst.decision_variables.is_empty() || rng.chance(1, 3) {
        return None;
    }
    let cids: Vec<u64> = inst.constraints.iter().map(|c| c.id).collect();
    let vids: Vec<u64> = inst.decision_variables.iter().map(|v| v.id).collect();
    let mut h = v1::ConstraintHints::default();
    for _ in 0..rng.below(3) {
        let mut o = v1::OneHot::default();
        o.constraint_id = *rng.pick(&cids);
        let mut vs = rng.subset(&vids, 1, 2);
        rng.shuffle(&mut vs);
        o.decision_variables = vs;
        h.one_hot_constraints.push(o);
    }
    for _ in 0..rng.below(2) {
        let mut s = v1::Sos1::default();
        s.binary_constraint_id = *rng.pick(&cids);
        let mut big = rng.subset(&cids, 1, 2);
        rng.shuffle(&mut big);
        s.big_m_constraint_ids = big;
        let mut vs = rng.subset(&vids, 1, 2);
        rng.shuffle(&mut vs);
        s.decision_variables = vs;
        h.sos1_constraints.push(s);
    }
    Some(h)
}

/// id pool for pure look-up properties (evaluate, partial_evaluate): like `id_pool`, and the extreme
/// ids 0, u64::MAX-1, u64::MAX may occur
pub fn id_pool_lookup(rng: &mut Rng, n: usize) -> Vec<u64> {
    let mut v = id_pool(rng, n, true);
    if rng.chance(1, 6) && !v.is_empty() {
        let extremes = [u64::MAX, u64::MAX - 1, 0, u64::MAX / 2, (u64::MAX / 2) + 1];
        let mut k = 0;
        for slot in v.iter_mut() {
            if rng.chance(1, 3) && k < extremes.len() {
                let e = extremes[k];
                k += 1;
                *slot = e;
            }
        }
        v.sort_unstable();
        v.dedup();
        rng.shuffle(&mut v);
    }
    v
}

/// like `value`, but in the R regime one value in 15 has an extreme magnitude (tiny or huge) so that
/// partial products can fall below EPSILON or far above 1 while full products stay ordinary
pub fn value_x(rng: &mut Rng, regime: Regime) -> f64 {
    if regime == Regime::R && rng.chance(1, 15) {
        return *rng.pick(&[1e-20, 1e20, -1e-20, -1e20, 1e-9, 2.5e18, 1e-12, 1e12, 4e-17, 2.5e16]);
    }
    value(rng, regime)
}

pub fn gen_state_x(rng: &mut Rng, ids: &BTreeSet<u64>, regime: Regime) -> v1::State {
    state(ids.iter().map(|i| (*i, value_x(rng, regime))))
}

// ---------------------------------------------------------------------------------------------
// order-insensitive views: the order in which an instance lists its variables and constraints is
// not part of any property, so comparisons pair entries by id

/// pairs two constraint lists by id; None when the id sets differ or an id repeats
pub fn pair_by_id<'a>(a: &'a [v1::Constraint], b: &'a [v1::Constraint]) -> Option<Vec<(&'a v1::Constraint, &'a v1::Constraint)>> {
    let ma: BTreeMap<u64, &v1::Constraint> = a.iter().map(|c| (c.id, c)).collect();
    let mb: BTreeMap<u64, &v1::Constraint> = b.iter().map(|c| (c.id, c)).collect();
    if ma.len() != a.len() || mb.len() != b.len() || !ma.keys().eq(mb.keys()) {
        return None;
    }
    Some(a.iter().map(|c| (c, mb[&c.id])).collect())
}

/// the same for removed constraints (entries without a constraint never pair)
pub fn pair_removed_by_id<'a>(a: &'a [v1::RemovedConstraint], b: &'a [v1::RemovedConstraint]) -> Option<Vec<(&'a v1::RemovedConstraint, &'a v1::RemovedConstraint)>> {
    let key = |r: &v1::RemovedConstraint| r.constraint.as_ref().map(|c| c.id);
    let ma: BTreeMap<u64, &v1::RemovedConstraint> = a.iter().filter_map(|r| key(r).map(|k| (k, r))).collect();
    let mb: BTreeMap<u64, &v1::RemovedConstraint> = b.iter().filter_map(|r| key(r).map(|k| (k, r))).collect();
    if ma.len() != a.len() || mb.len() != b.len() || !ma.keys().eq(mb.keys()) {
        return None;
    }
    Some(a.iter().map(|r| (r, mb[&key(r).unwrap()])).collect())
}

/// equal as collections keyed by id (order ignored, repeats significant)
pub fn same_variables(a: &[v1::DecisionVariable], b: &[v1::DecisionVariable]) -> bool {
    let mut x: Vec<&v1::DecisionVariable> = a.iter().collect();
    let mut y: Vec<&v1::DecisionVariable> = b.iter().collect();
    x.sort_by_key(|v| v.id);
    y.sort_by_key(|v| v.id);
    x == y
}

pub fn same_removed(a: &[v1::RemovedConstraint], b: &[v1::RemovedConstraint]) -> bool {
    let key = |r: &&v1::RemovedConstraint| r.constraint.as_ref().map(|c| c.id);
    let mut x: Vec<&v1::RemovedConstraint> = a.iter().collect();
    let mut y: Vec<&v1::RemovedConstraint> = b.iter().collect();
    x.sort_by_key(key);
    y.sort_by_key(key);
    x == y
}

// ---------------------------------------------------------------------------------------------
// instances that come out of the SDK's own transformations

/// Applies a random pipeline of 1-4 SDK transformations to a valid instance (log-encode an integer
/// variable and substitute the encoding, fix a variable by partial evaluation, relax / restore a
/// constraint, turn an inequality into an equality with an integer slack, convert to a minimisation,
/// penalty method followed by instantiating the weights). A step that fails, panics or leaves an
/// instance that does not validate is skipped. Used as a source of realistic input shapes for the
/// monitors of other properties (each transformation has its own property).
pub fn pipeline_instance(rng: &mut Rng, mut inst: v1::Instance) -> (v1::Instance, Vec<&'static str>) {
    use ommx::Evaluate;
    let mut steps = vec![];
    for _ in 0..1 + rng.below(4) {
        let step = rng.below(7);
        let seed = rng.next_u64();
        let start = inst.clone();
        let r = crate::monitor::probe(move || -> Option<(v1::Instance, &'static str)> {
            let mut rng = Rng::new(seed);
            let mut i = start;
            let dep_keys: BTreeSet<u64> = i.decision_variable_dependency.keys().cloned().collect();
            match step {
                0 => {
                    let cand: Vec<u64> = i
                        .decision_variables
                        .iter()
                        .filter(|v| v.kind == KIND_INTEGER && v.substituted_value.is_none() && !dep_keys.contains(&v.id))
                        .filter(|v| v.bound.as_ref().map_or(false, |b| b.lower.is_finite() && b.upper.is_finite() && b.upper - b.lower <= 64.0))
                        .map(|v| v.id)
                        .collect();
                    let id = *cand.get(rng.usize_below(cand.len().max(1)))?;
                    let lin = i.log_encode(id).ok()?;
                    let mut m = HashMap::new();
                    m.insert(id, v1::Function::from(lin));
                    i.substitute(m).ok()?;
                    Some((i, "log_encode+substitute"))
                }
                1 => {
                    let cand: Vec<&v1::DecisionVariable> = i.decision_variables.iter().filter(|v| v.substituted_value.is_none() && !dep_keys.contains(&v.id)).collect();
                    let v = *cand.get(rng.usize_below(cand.len().max(1)))?;
                    let st = state([(v.id, value_in_bound(&mut rng, v, Regime::D))]);
                    i.partial_evaluate(&st).ok()?;
                    Some((i, "partial_evaluate"))
                }
                2 => {
                    let id = i.constraints.get(rng.usize_below(i.constraints.len().max(1)))?.id;
                    i.relax_constraint(id, "pipeline".into(), Default::default()).ok()?;
                    Some((i, "relax_constraint"))
                }
                3 => {
                    let id = i.removed_constraints.get(rng.usize_below(i.removed_constraints.len().max(1)))?.constraint.as_ref()?.id;
                    i.restore_constraint(id).ok()?;
                    Some((i, "restore_constraint"))
                }
                4 => {
                    let cand: Vec<u64> = i.constraints.iter().filter(|c| c.equality == LE_ZERO).map(|c| c.id).collect();
                    let id = *cand.get(rng.usize_below(cand.len().max(1)))?;
                    i.convert_inequality_to_equality_with_integer_slack(id, 4096).ok()?;
                    Some((i, "inequality->equality+slack"))
                }
                5 => {
                    i.as_minimization_problem();
                    Some((i, "as_minimization_problem"))
                }
                _ => {
                    if i.constraints.is_empty() || i.constraints.len() > 3 {
                        return None;
                    }
                    let pi = if rng.bool() { i.penalty_method() } else { i.uniform_penalty_method() }.ok()?;
                    let w = parameters(pi.parameters.iter().map(|p| (p.id, *rng.pick(&[1.0, 2.0, 0.5]))));
                    Some((pi.with_parameters(w).ok()?, "penalty+with_parameters"))
                }
            }
        });
        if let Ok(Some((i, name))) = r {
            if i.validate().is_ok() {
                inst = i;
                steps.push(name);
            }
        }
    }
    (inst, steps)
}

/// variables that a state must not give: fixed ones and the keys of the dependency map
pub fn fixed_or_dependent(inst: &v1::Instance) -> BTreeSet<u64> {
    inst.decision_variables.iter().filter(|v| v.substituted_value.is_some()).map(|v| v.id).chain(inst.decision_variable_dependency.keys().cloned()).collect()
}
