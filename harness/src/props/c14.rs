//! C14 — relaxing and restoring constraints only moves them.

use crate::gen::*;
use crate::model::holds;
use crate::monitor::{fp_msg, fp_state, panic_site, probe, Fp, Monitor};
use crate::props::c05::add_threshold_constraints;
use crate::rng::Rng;
use crate::{Env, Property, Tier};
use ommx::{v1, Evaluate};
use serde_json::json;
use std::collections::{BTreeMap, HashMap};

pub struct C14;

#[derive(Clone, Debug)]
enum Op {
    Relax(u64, String, BTreeMap<String, String>),
    Restore(u64),
    Evaluate,
    /// the same question through evaluate_samples: three states under four sample ids
    EvaluateSamples,
}

/// executable model: id -> (constraint, Some(reason, params) if removed)
type Model = BTreeMap<u64, (v1::Constraint, Option<(String, BTreeMap<String, String>)>)>;

fn model_of(inst: &v1::Instance) -> Result<Model, String> {
    let mut m = Model::new();
    for c in &inst.constraints {
        if m.insert(c.id, (c.clone(), None)).is_some() {
            return Err(format!("constraint id {} occurs twice", c.id));
        }
    }
    for r in &inst.removed_constraints {
        let Some(c) = &r.constraint else { return Err("removed constraint without constraint".into()) };
        let params = r.removed_reason_parameters.iter().map(|(k, v)| (k.clone(), v.clone())).collect();
        if m.insert(c.id, (c.clone(), Some((r.removed_reason.clone(), params)))).is_some() {
            return Err(format!("constraint id {} occurs twice (in both lists or repeated)", c.id));
        }
    }
    Ok(m)
}

impl Property for C14 {
    fn id(&self) -> &'static str {
        "C14"
    }
    fn cases(&self, tier: Tier) -> u64 {
        match tier {
            Tier::Quick => 100_000,
            Tier::Thorough => 6_000_000,
        }
    }
    fn min_nontrivial(&self, tier: Tier) -> u64 {
        match tier {
            Tier::Quick => 20_000,
            Tier::Thorough => 1_200_000,
        }
    }
    fn rule(&self) -> &'static str {
        "each case: a generated valid instance (one in six first passed through a random pipeline of SDK transformations) with 1-7 constraints spread over the active and removed lists (metadata, threshold-valued constraints; half of them with one-hot / SOS1 constraint hints naming active constraints) and a history of up to 8 (quick) / 24 (thorough) operations drawn from relax(id, reason, parameters) / restore(id) with ids from the active list, the removed list and unknown ids, interleaved with evaluate at one fixed in-bound state and evaluate_samples over three fixed states under four sample ids (per-sample flags equal those of evaluate and stay constant); relax reasons include the empty string; where a variable is used by exactly one constraint, a state lacking it is evaluated as well and must be accepted or rejected alike whichever list that constraint is in. After every operation the instance is compared with an executable two-map model: same (id, function, equality, metadata) collection, each id in exactly one list, reason/parameters recorded, failing operations leave the instance equal; across the history the per-constraint values and `feasible` are constant and `feasible_relaxed` equals the conjunction over the model's active set. Non-trivial = history with >= 2 successful moves; distinct = fingerprint of (instance, history)."
    }
    fn assumptions(&self) -> Vec<&'static str> {
        vec!["the order of constraints inside a list is not part of the property and is not compared", "feasibility is judged from the values the Solution itself reports (the values are checked by C05)"]
    }

    fn run_case(&self, k: u64, rng: &mut Rng, env: &Env, mon: &mut Monitor) {
        let regime = Regime::D;
        let mut cfg = InstCfg::new(regime);
        cfg.deepen(env.tier == Tier::Thorough, k);
        cfg.max_constraints = 3;
        cfg.max_removed = 2;
        let g = gen_instance(rng, &cfg);
        let mut inst = g.instance;
        add_threshold_constraints(rng, &mut inst, &g.pool);
        // one case in six: an instance out of a pipeline of the SDK's own transformations
        if rng.chance(1, 6) {
            let (i2, steps) = pipeline_instance(rng, inst);
            inst = i2;
            if !steps.is_empty() {
                mon.facet("instance-out-of-an-SDK-pipeline");
            }
        }
        // half of the instances carry constraint hints (one-hot / SOS1) that name active constraints
        if rng.bool() {
            inst.constraint_hints = gen_hints(rng, &inst);
            if inst.constraint_hints.is_some() {
                mon.facet("instance-with-constraint-hints");
            }
        }
        if inst.constraints.is_empty() && inst.removed_constraints.is_empty() {
            mon.facet("no-constraints");
        }
        // states give every variable except fixed and dependent ones
        let hidden = fixed_or_dependent(&inst);
        let give: std::collections::BTreeSet<u64> = inst.decision_variables.iter().map(|v| v.id).filter(|i| !hidden.contains(i)).collect();
        let st = gen_state_in_bounds(rng, &inst, Some(&give), regime);
        let st2 = gen_state_in_bounds(rng, &inst, Some(&give), regime);
        let st3 = gen_state_in_bounds(rng, &inst, Some(&give), regime);
        let mut base_sample_flags: Option<BTreeMap<u64, bool>> = None;
        // a state that lacks one variable which exactly one constraint (active or removed) uses: whether
        // evaluation accepts it must not depend on the list that constraint is in at the moment
        let mut st_incomplete: Option<v1::State> = None;
        {
            let mut users: BTreeMap<u64, usize> = BTreeMap::new();
            let mut count = |f: &Option<v1::Function>| {
                if let Some(f) = f {
                    for id in crate::exact::nonzero_term_ids(f) {
                        *users.entry(id).or_insert(0) += 1;
                    }
                }
            };
            count(&inst.objective);
            count(&inst.objective); // a variable of the objective never qualifies
            for c in inst.constraints.iter().chain(inst.removed_constraints.iter().filter_map(|r| r.constraint.as_ref())) {
                count(&c.function);
            }
            for f in inst.decision_variable_dependency.values() {
                count(&Some(f.clone()));
                count(&Some(f.clone()));
            }
            let cand: Vec<u64> = users.iter().filter(|(id, n)| **n == 1 && st.entries.contains_key(id)).map(|(id, _)| *id).collect();
            if !cand.is_empty() {
                let mut s2 = st.clone();
                s2.entries.remove(rng.pick(&cand));
                st_incomplete = Some(s2);
                mon.facet("state-lacking-a-variable-of-one-constraint");
            }
        }
        let mut base_incomplete: Option<bool> = None;
        let max_len = match env.tier {
            Tier::Quick => 8,
            Tier::Thorough => 24,
        };
        let len = 1 + rng.usize_below(max_len);
        let original = inst.clone();
        let mut model = match model_of(&inst) {
            Ok(m) => m,
            Err(e) => panic!("harness: generated instance is not valid: {e}"),
        };
        let all_ids: Vec<u64> = model.keys().cloned().collect();
        let mut history: Vec<(Op, bool)> = vec![];
        let mut moves = 0;
        let mut base_values: Option<BTreeMap<u64, u64>> = None;
        let mut base_feasible: Option<bool> = None;
        let ctx = |inst: &v1::Instance, history: &Vec<(Op, bool)>| format!("history (op, succeeded)={history:?}\noriginal={original:?}\nnow={inst:?}");
        for step in 0..len {
            let op = match rng.below(10) {
                0..=3 => {
                    let id = if all_ids.is_empty() || rng.chance(1, 6) { 9_000_000 + rng.below(5) } else { *rng.pick(&all_ids) };
                    let mut p = BTreeMap::new();
                    for _ in 0..rng.below(3) {
                        p.insert(rng.ascii_word(3), rng.ascii_word(4));
                    }
                    // the reason is whatever the caller gives, the empty string included
                    let reason = match rng.below(6) {
                        0 => String::new(),
                        1 => " ".to_string(),
                        _ => format!("why{step}"),
                    };
                    if rng.chance(1, 8) {
                        p.insert(String::new(), String::new());
                    }
                    Op::Relax(id, reason, p)
                }
                4..=7 => {
                    let id = if all_ids.is_empty() || rng.chance(1, 6) { 9_000_000 + rng.below(5) } else { *rng.pick(&all_ids) };
                    Op::Restore(id)
                }
                8 => Op::Evaluate,
                _ => {
                    if rng.bool() {
                        Op::Evaluate
                    } else {
                        Op::EvaluateSamples
                    }
                }
            };
            mon.eval();
            if let Op::EvaluateSamples = &op {
                mon.facet("op:evaluate_samples");
                let mut samples = v1::Samples::default();
                samples.entries.push(crate::build::samples_entry(st.clone(), vec![0, 2]));
                samples.entries.push(crate::build::samples_entry(st2.clone(), vec![4]));
                samples.entries.push(crate::build::samples_entry(st3.clone(), vec![9]));
                let per_state = [(0u64, &st), (2, &st), (4, &st2), (9, &st3)];
                let r = probe(|| {
                    let (ss, _) = inst.evaluate_samples(&samples).map_err(|e| format!("evaluate_samples: {e:#}"))?;
                    let unrelaxed: BTreeMap<u64, bool> = ss.feasible_unrelaxed().iter().map(|(k, v)| (*k, *v)).collect();
                    let relaxed: BTreeMap<u64, bool> = ss.feasible_relaxed().iter().map(|(k, v)| (*k, *v)).collect();
                    let mut single = BTreeMap::new();
                    for (id, s) in per_state {
                        let (sol, _) = inst.evaluate(s).map_err(|e| format!("evaluate: {e:#}"))?;
                        single.insert(id, (sol.feasible, sol.feasible_relaxed));
                    }
                    Ok::<_, String>((unrelaxed, relaxed, single))
                });
                match r {
                    Err(p) => {
                        mon.violation(format!("C14.panic:{}", panic_site(&p)), format!("evaluate_samples panicked: {}\n{}", p.message, ctx(&inst, &history)));
                        return;
                    }
                    Ok(Err(e)) => {
                        mon.violation("C14.evaluate-error", format!("{e}\n{}", ctx(&inst, &history)));
                        return;
                    }
                    Ok(Ok((unrelaxed, relaxed, single))) => {
                        for (id, (f, fr)) in &single {
                            if unrelaxed.get(id) != Some(f) {
                                mon.violation("C14.samples:feasible", format!("sample {id}: evaluate_samples reports feasible={:?}, evaluate of the same state {f}\n{}", unrelaxed.get(id), ctx(&inst, &history)));
                            }
                            if relaxed.get(id).copied() != *fr {
                                mon.violation("C14.samples:feasible-relaxed", format!("sample {id}: evaluate_samples reports feasible_relaxed={:?}, evaluate of the same state {fr:?}\n{}", relaxed.get(id), ctx(&inst, &history)));
                            }
                        }
                        match &base_sample_flags {
                            None => base_sample_flags = Some(unrelaxed),
                            Some(b) => {
                                if b != &unrelaxed {
                                    mon.violation("C14.samples:feasible-changed", format!("per-sample feasibility was {b:?}, now {unrelaxed:?}\n{}", ctx(&inst, &history)));
                                }
                            }
                        }
                    }
                }
                history.push((op, true));
                continue;
            }
            match &op {
                Op::Evaluate => {
                    mon.facet("op:evaluate");
                    match probe(|| inst.evaluate(&st).map_err(|e| format!("{e:#}"))) {
                        Err(p) => {
                            mon.violation(format!("C14.panic:{}", panic_site(&p)), format!("evaluate panicked: {}\n{}", p.message, ctx(&inst, &history)));
                            return;
                        }
                        Ok(Err(e)) => {
                            mon.violation("C14.evaluate-error", format!("evaluate failed: {e}\n{}", ctx(&inst, &history)));
                            return;
                        }
                        Ok(Ok((sol, _))) => {
                            let values: BTreeMap<u64, u64> = sol.evaluated_constraints.iter().map(|e| (e.id, if e.evaluated_value == 0.0 { 0 } else { e.evaluated_value.to_bits() })).collect();
                            if values.len() != sol.evaluated_constraints.len() || values.len() != model.len() {
                                mon.violation("C14.solution-constraint-set", format!("solution lists {} constraints ({} distinct), the model has {}\n{}", sol.evaluated_constraints.len(), values.len(), model.len(), ctx(&inst, &history)));
                            }
                            match &base_values {
                                None => {
                                    base_values = Some(values.clone());
                                    base_feasible = Some(sol.feasible);
                                }
                                Some(b) => {
                                    if b != &values {
                                        mon.violation("C14.constraint-values-changed", format!("per-constraint values changed along the history: before {b:?}, now {values:?}\n{}", ctx(&inst, &history)));
                                    }
                                    if base_feasible != Some(sol.feasible) {
                                        mon.violation("C14.feasible-changed", format!("feasible was {:?}, now {}\n{}", base_feasible, sol.feasible, ctx(&inst, &history)));
                                    }
                                }
                            }
                            // relaxed feasibility = conjunction over the model's active set, from reported values
                            let mut expect_relaxed = true;
                            let mut expect_all = true;
                            for e in &sol.evaluated_constraints {
                                let h = holds(e.equality, e.evaluated_value).unwrap_or(true);
                                if !h {
                                    expect_all = false;
                                    if let Some((_, None)) = model.get(&e.id) {
                                        expect_relaxed = false;
                                    }
                                }
                                // removal reason visible in the solution iff removed in the model
                                if let Some((_, rm)) = model.get(&e.id) {
                                    if rm.as_ref().map(|r| &r.0) != e.removed_reason.as_ref() {
                                        mon.violation("C14.solution-removed-reason", format!("constraint {}: solution reports reason {:?}, model {:?}\n{}", e.id, e.removed_reason, rm, ctx(&inst, &history)));
                                    }
                                }
                            }
                            if sol.feasible_relaxed != Some(expect_relaxed) {
                                mon.violation("C14.feasible-relaxed", format!("feasible_relaxed={:?} but the currently active constraints give {expect_relaxed}\n{}", sol.feasible_relaxed, ctx(&inst, &history)));
                            }
                            if sol.feasible != expect_all {
                                mon.violation("C14.feasible", format!("feasible={} but all constraints give {expect_all}\n{}", sol.feasible, ctx(&inst, &history)));
                            }
                            mon.facet(&format!("flags:{}/{:?}", sol.feasible, sol.feasible_relaxed));
                        }
                    }
                    if let Some(si) = &st_incomplete {
                        mon.eval();
                        match probe(|| inst.evaluate(si).is_ok()) {
                            Err(p) => {
                                mon.violation(format!("C14.panic:{}", panic_site(&p)), format!("evaluate of an incomplete state panicked: {}\n{}", p.message, ctx(&inst, &history)));
                                return;
                            }
                            Ok(accepted) => match base_incomplete {
                                None => base_incomplete = Some(accepted),
                                Some(b) => {
                                    if b != accepted {
                                        mon.violation(
                                            "C14.incomplete-state-outcome-changed",
                                            format!("a state lacking a variable that one constraint uses was {} at first and is {} now\nstate={:?}\n{}", if b { "accepted" } else { "rejected" }, if accepted { "accepted" } else { "rejected" }, sorted_state(si), ctx(&inst, &history)),
                                        );
                                    }
                                }
                            },
                        }
                    }
                    history.push((op, true));
                    continue;
                }
                _ => {}
            }
            let before = inst.clone();
            let r = probe(|| {
                let mut i = inst.clone();
                let r = match &op {
                    Op::Relax(id, reason, params) => i.relax_constraint(*id, reason.clone(), params.iter().map(|(k, v)| (k.clone(), v.clone())).collect::<HashMap<_, _>>()),
                    Op::Restore(id) => i.restore_constraint(*id),
                    Op::Evaluate | Op::EvaluateSamples => unreachable!(),
                };
                (i, r.map_err(|e| format!("{e:#}")))
            });
            let (after, res) = match r {
                Err(p) => {
                    mon.violation(format!("C14.panic:{}", panic_site(&p)), format!("{op:?} panicked: {} at {}\n{}", p.message, p.location, ctx(&inst, &history)));
                    return;
                }
                Ok(x) => x,
            };
            // model
            let expect_ok = match &op {
                Op::Relax(id, ..) => matches!(model.get(id), Some((_, None))),
                Op::Restore(id) => matches!(model.get(id), Some((_, Some(_)))),
                Op::Evaluate | Op::EvaluateSamples => unreachable!(),
            };
            let opname = match &op {
                Op::Relax(..) => "relax",
                _ => "restore",
            };
            mon.facet(&format!("op:{opname}/{}", if expect_ok { "valid" } else { "invalid-id" }));
            history.push((op.clone(), res.is_ok()));
            match (&res, expect_ok) {
                (Ok(()), false) => {
                    mon.violation(format!("C14.invalid-operation-accepted:{opname}"), ctx(&after, &history));
                    return;
                }
                (Err(e), true) => {
                    if after != before {
                        mon.violation(format!("C14.failed-operation-changed-instance:{opname}"), format!("{e}\n{}", ctx(&after, &history)));
                        return;
                    }
                    mon.violation(format!("C14.valid-operation-rejected:{opname}"), format!("{e}\n{}", ctx(&after, &history)));
                    return;
                }
                (Err(_), false) => {
                    if after != before {
                        mon.violation(format!("C14.failed-operation-changed-instance:{opname}"), ctx(&after, &history));
                        return;
                    }
                }
                (Ok(()), true) => {
                    moves += 1;
                    match &op {
                        Op::Relax(id, reason, params) => {
                            model.get_mut(id).unwrap().1 = Some((reason.clone(), params.clone()));
                        }
                        Op::Restore(id) => {
                            model.get_mut(id).unwrap().1 = None;
                        }
                        Op::Evaluate | Op::EvaluateSamples => {}
                    }
                }
            }
            inst = after;
            // compare with the model
            match model_of(&inst) {
                Err(e) => {
                    mon.violation(format!("C14.id-in-both-lists-or-repeated:{opname}"), format!("{e}\n{}", ctx(&inst, &history)));
                    return;
                }
                Ok(now) => {
                    if now.keys().collect::<Vec<_>>() != model.keys().collect::<Vec<_>>() {
                        mon.violation(format!("C14.constraint-lost-or-invented:{opname}"), format!("ids now {:?}, model {:?}\n{}", now.keys(), model.keys(), ctx(&inst, &history)));
                        return;
                    }
                    for (id, (c, rm)) in &model {
                        let (c2, rm2) = &now[id];
                        if c != c2 {
                            mon.violation(format!("C14.constraint-content-changed:{opname}"), format!("constraint {id}: {c2:?} expected {c:?}\n{}", ctx(&inst, &history)));
                            return;
                        }
                        if rm.is_some() != rm2.is_some() {
                            mon.violation(format!("C14.constraint-in-wrong-list:{opname}"), format!("constraint {id}: removed={} expected removed={}\n{}", rm2.is_some(), rm.is_some(), ctx(&inst, &history)));
                            return;
                        }
                        if rm != rm2 {
                            mon.violation(format!("C14.removal-reason:{opname}"), format!("constraint {id}: reason {rm2:?} expected {rm:?}\n{}", ctx(&inst, &history)));
                            return;
                        }
                    }
                }
            }
            // everything else untouched
            let mut a = inst.clone();
            let mut b = before.clone();
            a.constraints.clear();
            a.removed_constraints.clear();
            b.constraints.clear();
            b.removed_constraints.clear();
            // whether hints that name a moved constraint are kept is not part of the property
            a.constraint_hints = None;
            b.constraint_hints = None;
            if a != b {
                mon.violation(format!("C14.other-fields-changed:{opname}"), ctx(&inst, &history));
                return;
            }
        }
        if moves >= 2 {
            let mut fp = Fp::new();
            fp.u64(fp_msg(&original)).u64(fp_state(&st)).str(&format!("{history:?}"));
            mon.nontrivial(fp.finish());
        }
        if mon.want_sample() && moves >= 2 {
            mon.sample(json!({"constraint_ids": all_ids, "history": format!("{history:?}")}));
        }
    }
}
