//! Property registry.
use crate::Property;

pub mod c01;
pub mod c17;
pub mod c18;

pub fn lookup(id: &str) -> Option<&'static dyn Property> {
    let p: &'static dyn Property = match id {
        "C01" => &c01::C01,
        "C17" => &c17::C17,
        "C18" => &c18::C18,
        _ => return None,
    };
    Some(p)
}
