//! Property registry.
use crate::Property;

pub mod c01;
pub mod c19;

pub fn lookup(id: &str) -> Option<&'static dyn Property> {
    let p: &'static dyn Property = match id {
        "C01" => &c01::C01,
        "C19" => &c19::C19,
        _ => return None,
    };
    Some(p)
}
