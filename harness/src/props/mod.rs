//! Property registry.
use crate::Property;

pub mod c01;
pub mod c07;

pub fn lookup(id: &str) -> Option<&'static dyn Property> {
    let p: &'static dyn Property = match id {
        "C01" => &c01::C01,
        "C07" => &c07::C07,
        _ => return None,
    };
    Some(p)
}
