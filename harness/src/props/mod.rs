//! Property registry.
use crate::Property;

pub mod c01;
pub mod c02;
pub mod c03;
pub mod c04;
pub mod c05;
pub mod c06;
pub mod c07;
pub mod c08;
pub mod c09;
pub mod c10;
pub mod c11;
pub mod c12;
pub mod c13;
pub mod c14;
pub mod c15;
pub mod c16;
pub mod c17;
pub mod c18;
pub mod c19;
pub mod c20;

pub fn lookup(id: &str) -> Option<&'static dyn Property> {
    let p: &'static dyn Property = match id {
        "C01" => &c01::C01,
        "C02" => &c02::C02,
        "C03" => &c03::C03,
        "C04" => &c04::C04,
        "C05" => &c05::C05,
        "C06" => &c06::C06,
        "C07" => &c07::C07,
        "C08" => &c08::C08,
        "C09" => &c09::C09,
        "C10" => &c10::C10,
        "C11" => &c11::C11,
        "C12" => &c12::C12,
        "C13" => &c13::C13,
        "C14" => &c14::C14,
        "C15" => &c15::C15,
        "C16" => &c16::C16,
        "C17" => &c17::C17,
        "C18" => &c18::C18,
        "C19" => &c19::C19,
        "C20" => &c20::C20,
        _ => return None,
    };
    Some(p)
}
