//! C01 — evaluating a function returns the polynomial's mathematical value.

use crate::exact::*;
use crate::gen::*;
use crate::monitor::{fp_state, panic_site, probe, Fp, Monitor};
use crate::rng::Rng;
use crate::{Env, Property, Tier};
use ommx::{v1, Evaluate};
use serde_json::json;
use std::collections::BTreeSet;

pub struct C01;

/// rigorous bound for evaluating `terms` stored terms of degree <= deg in any order
pub fn eval_bound(f: &v1::Function, x: &std::collections::BTreeMap<u64, Q>) -> Q {
    let terms = stored_terms(f);
    let deg = terms.iter().map(|t| t.0.len()).max().unwrap_or(0);
    let k = 2 * (terms.len() + deg) + 4;
    let mut s = Q::from_integer(0.into());
    for (ids, c) in &terms {
        let mut t = num::Signed::abs(&q(*c));
        for id in ids {
            if let Some(v) = x.get(id) {
                t *= num::Signed::abs(v);
            }
        }
        s += t;
    }
    gamma(k) * s
}

type EvalOut = Result<(f64, BTreeSet<u64>), String>;

fn call_all(f: &v1::Function, s: &v1::State) -> Vec<(&'static str, Result<EvalOut, crate::monitor::PanicInfo>)> {
    use v1::function::Function as F;
    let conv = |r: anyhow::Result<(f64, BTreeSet<u64>)>| r.map_err(|e| format!("{e:#}"));
    let mut out = vec![("Function", probe(|| conv(f.evaluate(s))))];
    match &f.function {
        Some(F::Linear(l)) => out.push(("Linear", probe(|| conv(l.evaluate(s))))),
        Some(F::Quadratic(x)) => out.push(("Quadratic", probe(|| conv(x.evaluate(s))))),
        Some(F::Polynomial(x)) => out.push(("Polynomial", probe(|| conv(x.evaluate(s))))),
        _ => {}
    }
    out
}

impl Property for C01 {
    fn id(&self) -> &'static str {
        "C01"
    }
    fn cases(&self, tier: Tier) -> u64 {
        match tier {
            Tier::Quick => 250_000,
            Tier::Thorough => 30_000_000,
        }
    }
    fn min_nontrivial(&self, tier: Tier) -> u64 {
        match tier {
            Tier::Quick => 80_000,
            Tier::Thorough => 8_000_000,
        }
    }
    fn rule(&self) -> &'static str {
        "each case: one random function message (variant unset/constant/linear/quadratic/polynomial, degree<=4, 0-8 stored terms per part, ids from a 1-6 element pool incl. 2^32/2^53-sized ids, hostile representation: unsorted, repeated, split, explicit zeros, lower/upper/symmetrised/non-symmetric COO entries with duplicate positions, absent linear part) and one state assigning all occurring ids plus extras; evaluated through Function and through the bare Linear/Quadratic/Polynomial; then re-evaluated with one occurring (non-zero-term) id removed. Non-trivial = at least one stored term with non-zero coefficient containing a variable; distinct = fingerprint of (encoded message, state)."
    }
    fn assumptions(&self) -> Vec<&'static str> {
        vec![
            "exact model: num BigRational polynomial built from the public message fields",
            "D regime (coefficients k/8, values k/4): exactness of every IEEE operation is certified per case, then bit-equality is required; otherwise the rigorous bound gamma_k*sum|c|prod|x| (k=2(terms+degree)+4)",
            "rows/columns/values have equal lengths; coefficients and values finite, |.|<=1e6 / 1e3",
        ]
    }

    fn run_case(&self, k: u64, rng: &mut Rng, env: &Env, mon: &mut Monitor) {
        let regime = if rng.chance(3, 4) { Regime::D } else { Regime::R };
        let long = k % 40 == 7;
        // long messages get a larger id pool so that parts of the message can mention different ids
        let np = if long { 8 + rng.usize_below(40) } else { 1 + rng.usize_below(6) };
        let pool = id_pool_lookup(rng, np);
        let mut cfg = FnCfg::new(pool.clone(), regime);
        if env.tier == Tier::Thorough && k % 3 == 0 {
            // the thorough tier also explores larger messages
            cfg.max_terms = 24;
        }
        if long {
            // occasionally a long message (a defect that needs many terms to show)
            cfg.max_terms = 100;
        }
        let variant = rng.below(5);
        let f = gen_function_variant(rng, &cfg, variant);
        let vname = variant_name(&f);
        let occ = occurring_ids(&f);
        let mut ids = occ.clone();
        // extras unrelated to the function
        for _ in 0..rng.below(3) {
            ids.insert(rng.below(40) + 100);
        }
        let st = gen_state(rng, &ids, regime);
        let xq = state_q(&st);
        let exact = canon_function(&f).eval(&xq).expect("complete state");
        let sorted = sorted_state(&st);
        let certified = eval_is_exact(&stored_terms(&f), &sorted);
        let tol = if certified { Tol::Exact } else { Tol::Abs(eval_bound(&f, &xq)) };
        let nz = nonzero_term_ids(&f);
        if !nz.is_empty() {
            let mut fp = Fp::new();
            fp.bytes(&prost::Message::encode_to_vec(&f)).u64(fp_state(&st));
            mon.nontrivial(fp.finish());
        }
        mon.facet(&format!("variant:{vname}/{}", if certified { "exact" } else { "bounded" }));
        if mon.want_sample() && !nz.is_empty() {
            mon.sample(json!({"function": format!("{f:?}"), "state": format!("{sorted:?}"), "exact_value": exact.to_string(), "judged": if certified {"bit-equal"} else {"rounding bound"}}));
        }

        for (via, r) in call_all(&f, &st) {
            mon.eval();
            match r {
                Err(p) => mon.violation(
                    format!("C01.panic:{}", panic_site(&p)),
                    format!("evaluate via {via} panicked: {} at {}\nfunction={f:?}\nstate={sorted:?}", p.message, p.location),
                ),
                Ok(Err(e)) => mon.violation(
                    format!("C01.err-on-complete-state:{vname}"),
                    format!("evaluate via {via} failed on a state assigning every occurring id: {e}\nfunction={f:?}\nstate={sorted:?}"),
                ),
                Ok(Ok((value, used))) => {
                    if !within(value, &exact, &tol) {
                        mon.violation(
                            format!("C01.value:{vname}"),
                            format!("evaluate via {via} returned {value:e}, exact value {} ({}), judged {}\nfunction={f:?}\nstate={sorted:?}", exact, q_to_f64(&exact), if certified { "bit-equal (dyadic certificate)" } else { "rounding bound" }),
                        );
                    }
                    if used != occ {
                        mon.violation(
                            format!("C01.used-ids:{vname}"),
                            format!("evaluate via {via} returned used ids {used:?}, ids occurring in the message {occ:?}\nfunction={f:?}"),
                        );
                    }
                }
            }
        }

        // a state lacking a variable that occurs (in a non-zero term) must be rejected
        if !nz.is_empty() {
            let v: Vec<u64> = nz.iter().cloned().collect();
            let drop = *rng.pick(&v);
            let mut st2 = st.clone();
            st2.entries.remove(&drop);
            for (via, r) in call_all(&f, &st2) {
                mon.eval();
                mon.facet("missing-variable-probe");
                match r {
                    Err(p) => mon.violation(
                        format!("C01.panic:{}", panic_site(&p)),
                        format!("evaluate via {via} with id {drop} missing panicked: {} at {}\nfunction={f:?}", p.message, p.location),
                    ),
                    Ok(Ok((value, _))) => mon.violation(
                        format!("C01.missing-var-ok:{vname}"),
                        format!("evaluate via {via} returned {value:e} although the state lacks id {drop}, which occurs in a non-zero term\nfunction={f:?}\nstate={:?}", sorted_state(&st2)),
                    ),
                    Ok(Err(_)) => {}
                }
            }
        }
    }
}
