//! C09 — penalty methods keep every constraint and build f + Σ w·g².

use crate::build::*;
use crate::exact::*;
use crate::gen::*;
use crate::model::opt_fn;
use crate::monitor::{fp_msg, panic_site, probe, Fp, Monitor};
use crate::rng::Rng;
use crate::{Env, Property, Tier};
use num::Zero;
use ommx::{v1, Evaluate};
use serde_json::json;
use std::collections::{BTreeMap, BTreeSet};

pub struct C09;

fn total_abs(p: &Poly) -> Q {
    p.terms.values().map(num::Signed::abs).fold(Q::zero(), |a, b| a + b)
}

fn poly_bits(f: &v1::Function) -> Option<u32> {
    let mut b = 0;
    for (_, c) in stored_terms(f) {
        b = b.max(dyadic_bits(c)?);
    }
    Some(b)
}

/// (constraint id, canonical function, equality) multiset of a list of constraints
fn constraint_index(cs: &[&v1::Constraint]) -> BTreeMap<u64, Vec<(Poly, i32)>> {
    let mut m: BTreeMap<u64, Vec<(Poly, i32)>> = BTreeMap::new();
    for c in cs {
        m.entry(c.id).or_default().push((canon_opt_function(&c.function), c.equality));
    }
    m
}

impl Property for C09 {
    fn id(&self) -> &'static str {
        "C09"
    }
    fn cases(&self, tier: Tier) -> u64 {
        match tier {
            Tier::Quick => 60_000,
            Tier::Thorough => 3_000_000,
        }
    }
    fn min_nontrivial(&self, tier: Tier) -> u64 {
        match tier {
            Tier::Quick => 12_000,
            Tier::Thorough => 600_000,
        }
    }
    fn rule(&self) -> &'static str {
        "each case: a generated valid instance (0-6 variables, ids < 2^62 incl. sparse ones, objective of degree <= 3, 0-4 active and 0-3 already-removed constraints of degree <= 2 incl. constant and absent functions, non-contiguous constraint ids, hints, dependencies, metadata; one in five recording parameter values of an earlier instantiation, one in six coming out of an earlier penalty -> with_parameters -> new variables -> restore history) passed through penalty_method() (even cases) or uniform_penalty_method() (odd cases). Observed: the returned ParametricInstance (constraints, removed constraints, parameters, objective polynomial compared coefficient by coefficient with the exact f + sum w_c*g_c^2 resp. f + w*sum g_c^2, carried-over fields) and with_parameters(w)+evaluate(x) at 2 weight vectors from {0,1,2,-1,1/2,3/4}. Non-trivial = at least one active constraint with a non-constant function; distinct = fingerprint of (instance, method)."
    }
    fn assumptions(&self) -> Vec<&'static str> {
        vec![
            "variable ids < 2^62 and constraint ids < 2^63 (fresh ids are max+1, constraint ids are stored as i64 subscripts)",
            "the sum runs over the constraints that were active in the input; already-removed constraints are kept as removed constraints and not penalised",
            "functions of instances have no duplicated (row,column) position (the objective is built with the arithmetic of C02); D regime with dyadic certificate => coefficients compared exactly",
        ]
    }

    fn run_case(&self, k: u64, rng: &mut Rng, env: &Env, mon: &mut Monitor) {
        let uniform = k % 2 == 1;
        let method = if uniform { "uniform_penalty_method" } else { "penalty_method" };
        let regime = if rng.chance(5, 6) { Regime::D } else { Regime::R };
        let mut cfg = InstCfg::new(regime);
        cfg.deepen(env.tier == Tier::Thorough, k);
        cfg.max_degree = 2;
        cfg.dup_positions = false;
        // an absent function (`function: None`) is generated; a present message with an unset oneof is not:
        // arithmetic on it panics by contract ("Empty Function"), see DESIGN C02/C09 scope notes
        cfg.unset_oneof = false;
        let g = gen_instance(rng, &cfg);
        let mut inst = g.instance;
        // objective may be of degree 3
        if rng.chance(1, 3) && !g.pool.is_empty() {
            let mut fc = FnCfg::new(g.pool.clone(), regime);
            fc.max_degree = 3;
            fc.max_terms = 5;
            fc.dup_positions = false;
            fc.allow_unset = false;
            inst.objective = Some(gen_function(rng, &fc));
        }
        inst.constraint_hints = gen_hints(rng, &inst);
        // a dependency for an unused variable
        let used = used_ids(&inst);
        if let Some(v) = inst.decision_variables.iter().find(|v| !used.contains(&v.id)) {
            if rng.bool() && !g.pool.is_empty() {
                let src = *rng.pick(&g.pool);
                if src != v.id {
                    inst.decision_variable_dependency.insert(v.id, f_linear(linear(vec![(src, 2.0)], 1.0)));
                }
            }
        }
        // exact constraint counts around multiples of 16 (batching / chunking thresholds)
        if k % 25 == 9 && !g.pool.is_empty() {
            let target = *rng.pick(&[15usize, 16, 17, 31, 32, 33, 48, 64]);
            let mut next_id = inst.constraints.iter().map(|c| c.id).chain(inst.removed_constraints.iter().filter_map(|r| r.constraint.as_ref().map(|c| c.id))).max().map_or(0, |m| m + 1);
            while inst.constraints.len() < target {
                let a = *rng.pick(&g.pool);
                let f = if rng.chance(1, 5) { f_const(small(rng)) } else { f_linear(linear(vec![(a, small(rng))], small(rng))) };
                inst.constraints.push(constraint(next_id, if rng.bool() { EQ_ZERO } else { LE_ZERO }, Some(f)));
                next_id += 1 + rng.below(3);
            }
            rng.shuffle(&mut inst.constraints);
            mon.facet(&format!("exact-constraint-count:{target}"));
        }
        // an instance that records parameter values of an earlier instantiation (ids below, among and
        // above the variable ids): weight ids must still avoid every decision variable
        if rng.chance(1, 5) {
            let top = inst.decision_variables.iter().map(|v| v.id).max().unwrap_or(0);
            let ids: Vec<u64> = (0..1 + rng.below(3)).map(|_| if rng.bool() { rng.below(top.saturating_add(4).max(4)) } else { top.saturating_add(1 + rng.below(3)) }).collect();
            inst.parameters = Some(parameters(ids.into_iter().map(|i| (i, small(rng)))));
            mon.facet("instance-records-earlier-parameters");
        }
        // history: the instance comes out of an earlier penalty-method pipeline (stale records of the
        // first application are still attached to restored constraints)
        if (k / 16) % 6 == 4 {
            match history_instance(rng, &inst) {
                Some(i3) => {
                    inst = i3;
                    mon.facet("history:penalty->with_parameters->new-variables->restore->penalty-again");
                }
                None => mon.facet("history:not-applicable"),
            }
        }
        self.check(inst, uniform, method, regime, rng, mon);
    }
}

fn small(rng: &mut Rng) -> f64 {
    let mut k = rng.range(-8, 8);
    if k == 0 {
        k = 3;
    }
    k as f64 / 2.0
}

/// penalty_method -> with_parameters -> new variables with larger ids -> restore some constraints
fn history_instance(rng: &mut Rng, inst: &v1::Instance) -> Option<v1::Instance> {
    if inst.constraints.is_empty() {
        return None;
    }
    let first_uniform = rng.chance(1, 3);
    let r = probe(|| -> Result<v1::Instance, String> {
        let pi = if first_uniform { inst.clone().uniform_penalty_method() } else { inst.clone().penalty_method() }.map_err(|e| format!("{e:#}"))?;
        let w = parameters(pi.parameters.iter().map(|p| (p.id, 1.0)));
        let mut i2 = pi.with_parameters(w).map_err(|e| format!("{e:#}"))?;
        // new variables whose ids take over / exceed the freed weight ids (as log_encode would add)
        let base = i2.decision_variables.iter().map(|v| v.id).max().map_or(0, |m| m + 1);
        for j in 0..1 + rng.below(4) {
            i2.decision_variables.push(dvar(base + j, KIND_BINARY, Some((0.0, 1.0))));
        }
        // restore a random non-empty subset of the removed constraints
        let ids: Vec<u64> = i2.removed_constraints.iter().filter_map(|r| r.constraint.as_ref().map(|c| c.id)).collect();
        let mut restored = 0;
        for id in ids {
            if rng.bool() || restored == 0 {
                i2.restore_constraint(id).map_err(|e| format!("{e:#}"))?;
                restored += 1;
            }
        }
        // the weights of the first application stay recorded on the instance in half of the histories
        if rng.bool() {
            i2.parameters = None;
        }
        Ok(i2)
    });
    match r {
        Ok(Ok(i)) => Some(i),
        _ => None,
    }
}

impl C09 {
    fn check(&self, inst: v1::Instance, uniform: bool, method: &str, regime: Regime, rng: &mut Rng, mon: &mut Monitor) {
        let actives: Vec<&v1::Constraint> = inst.constraints.iter().collect();
        let nontrivial = actives.iter().any(|c| canon_opt_function(&c.function).degree() > 0);
        if nontrivial {
            let mut fp = Fp::new();
            fp.u64(fp_msg(&inst)).u64(uniform as u64);
            mon.nontrivial(fp.finish());
        }
        mon.facet(&format!("{method}/active={}/removed={}", inst.constraints.len(), inst.removed_constraints.len()));
        mon.eval();
        let ctx = |out: &dyn std::fmt::Debug| format!("method={method}\ninstance={inst:?}\nresult={out:?}");
        let r = probe(|| {
            let i = inst.clone();
            if uniform { i.uniform_penalty_method() } else { i.penalty_method() }.map_err(|e| format!("{e:#}"))
        });
        let pi = match r {
            Err(p) => {
                mon.violation(format!("C09.panic:{}", panic_site(&p)), format!("{method} panicked: {} at {}\ninstance={inst:?}", p.message, p.location));
                return;
            }
            Ok(Err(e)) => {
                mon.violation(format!("C09.error:{method}"), format!("{method} failed: {e}\ninstance={inst:?}"));
                return;
            }
            Ok(Ok(pi)) => pi,
        };
        if mon.want_sample() && nontrivial {
            mon.sample(json!({"method": method, "instance": format!("{inst:?}"), "objective": format!("{:?}", pi.objective), "parameters": format!("{:?}", pi.parameters), "removed_ids": pi.removed_constraints.iter().filter_map(|r| r.constraint.as_ref().map(|c| c.id)).collect::<Vec<_>>()}));
        }
        // no active constraints
        if !pi.constraints.is_empty() {
            mon.violation(format!("C09.active-constraints-remain:{method}"), ctx(&pi));
        }
        // every input constraint is a removed constraint, exactly once, with id / function / equality
        let got: Vec<&v1::Constraint> = pi.removed_constraints.iter().filter_map(|r| r.constraint.as_ref()).collect();
        let got_idx = constraint_index(&got);
        for (kind, list) in [
            ("active", inst.constraints.iter().collect::<Vec<_>>()),
            ("previously-removed", inst.removed_constraints.iter().filter_map(|r| r.constraint.as_ref()).collect::<Vec<_>>()),
        ] {
            for c in list {
                match got_idx.get(&c.id) {
                    None => mon.violation(format!("C09.constraint-lost:{kind}"), format!("input constraint {} ({kind}) is not among the removed constraints of the result\n{}", c.id, ctx(&pi))),
                    Some(v) if v.len() != 1 => mon.violation(format!("C09.constraint-duplicated:{kind}"), format!("constraint {} appears {} times\n{}", c.id, v.len(), ctx(&pi))),
                    Some(v) => {
                        if v[0].0 != canon_opt_function(&c.function) {
                            mon.violation(format!("C09.constraint-function-changed:{kind}"), format!("constraint {} function changed\n{}", c.id, ctx(&pi)));
                        }
                        if v[0].1 != c.equality {
                            mon.violation(format!("C09.constraint-equality-changed:{kind}"), format!("constraint {} equality {} -> {}\n{}", c.id, c.equality, v[0].1, ctx(&pi)));
                        }
                        let same_meta = got.iter().find(|g| g.id == c.id).map_or(false, |g| g.name == c.name && g.subscripts == c.subscripts && g.parameters == c.parameters && g.description == c.description);
                        if !same_meta {
                            mon.observe("constraint-metadata-differs-after-penalty-method");
                        }
                    }
                }
            }
        }
        let input_ids: BTreeSet<u64> = inst.constraints.iter().map(|c| c.id).chain(inst.removed_constraints.iter().filter_map(|r| r.constraint.as_ref().map(|c| c.id))).collect();
        for c in &got {
            if !input_ids.contains(&c.id) {
                mon.violation("C09.constraint-invented", format!("result has constraint {} which the input does not have\n{}", c.id, ctx(&pi)));
            }
        }
        // parameters
        let var_ids: BTreeSet<u64> = inst.decision_variables.iter().map(|v| v.id).collect();
        let pids: Vec<u64> = pi.parameters.iter().map(|p| p.id).collect();
        let pset: BTreeSet<u64> = pids.iter().cloned().collect();
        if pset.len() != pids.len() {
            mon.violation(format!("C09.parameter-ids-repeat:{method}"), ctx(&pi));
        }
        if pset.iter().any(|p| var_ids.contains(p)) {
            mon.violation(format!("C09.parameter-id-collides-with-variable:{method}"), ctx(&pi));
        }
        // expected objective polynomial
        let f = canon_opt_function(&inst.objective);
        let mut expected = f.clone();
        let mut abs_expected = abs_stored_poly(&opt_fn(&inst.objective));
        let mut weights_of: BTreeMap<u64, u64> = BTreeMap::new(); // constraint id -> parameter id
        if uniform {
            if pids.len() != 1 {
                mon.violation("C09.parameter-count:uniform_penalty_method", format!("expected exactly one weight parameter, got {}\n{}", pids.len(), ctx(&pi)));
                return;
            }
            let w = Poly::var(pids[0]);
            for c in &inst.constraints {
                let gc = canon_opt_function(&c.function);
                expected = expected.add(&w.mul(&gc.mul(&gc)));
                let ga = abs_stored_poly(&opt_fn(&c.function));
                abs_expected = abs_expected.add(&w.mul(&ga.mul(&ga)));
            }
        } else {
            if pids.len() != inst.constraints.len() {
                mon.violation("C09.parameter-count:penalty_method", format!("{} weight parameters for {} active constraints\n{}", pids.len(), inst.constraints.len(), ctx(&pi)));
                return;
            }
            for p in &pi.parameters {
                if p.subscripts.len() != 1 {
                    mon.violation("C09.parameter-tag", format!("parameter {} is not tagged with exactly one constraint id: {:?}\n{}", p.id, p.subscripts, ctx(&pi)));
                    return;
                }
                weights_of.insert(p.subscripts[0] as u64, p.id);
            }
            for c in &inst.constraints {
                let Some(pid) = weights_of.get(&c.id) else {
                    mon.violation("C09.parameter-tag", format!("no weight parameter is tagged with constraint {}\n{}", c.id, ctx(&pi)));
                    return;
                };
                let w = Poly::var(*pid);
                let gc = canon_opt_function(&c.function);
                expected = expected.add(&w.mul(&gc.mul(&gc)));
                let ga = abs_stored_poly(&opt_fn(&c.function));
                abs_expected = abs_expected.add(&w.mul(&ga.mul(&ga)));
            }
        }
        let got_obj = canon_opt_function(&pi.objective);
        // certificate: all inputs dyadic, squared magnitudes far below 2^52
        let mut bits = poly_bits(&opt_fn(&inst.objective));
        for c in &inst.constraints {
            bits = match (bits, poly_bits(&opt_fn(&c.function))) {
                (Some(a), Some(b)) => Some(a.max(2 * b)),
                _ => None,
            };
        }
        let exact_mode = regime == Regime::D && bits.map_or(false, |b| b <= 20 && total_abs(&abs_expected) * two_pow(b as i32 + 8) < two_pow(52));
        mon.facet(if exact_mode { "objective-judged:exact" } else { "objective-judged:bounded" });
        let steps = 64 * (inst.constraints.len() + 2) * 16;
        let mut scale = qi(1);
        for c in &inst.constraints {
            let t = total_abs(&abs_stored_poly(&opt_fn(&c.function))) + qi(1);
            let t2 = &t * &t;
            if t2 > scale {
                scale = t2;
            }
        }
        let mut keys: Vec<&Vec<u64>> = expected.terms.keys().chain(got_obj.terms.keys()).collect();
        keys.sort();
        keys.dedup();
        let zero = Q::zero();
        for key in keys {
            let e = expected.terms.get(key).unwrap_or(&zero);
            let v = got_obj.terms.get(key).unwrap_or(&zero);
            let ok = if exact_mode {
                e == v
            } else {
                let a = abs_expected.terms.get(key).cloned().unwrap_or_else(Q::zero);
                num::Signed::abs(&(e - v)) <= gamma(steps) * a + Q::from_integer((steps as u64).into()) * eps() * &scale
            };
            if !ok {
                mon.violation(
                    format!("C09.objective:{method}"),
                    format!("objective coefficient of {key:?}: SDK {} ({:e}), exact f + sum w*g^2 has {} ({:e})\n{}", v, q_to_f64(v), e, q_to_f64(e), ctx(&pi)),
                );
                break;
            }
        }
        // carried over
        if !same_variables(&pi.decision_variables, &inst.decision_variables) {
            mon.violation(format!("C09.variables-changed:{method}"), ctx(&pi));
        }
        if pi.sense != inst.sense {
            mon.violation(format!("C09.sense-changed:{method}"), ctx(&pi));
        }
        if pi.decision_variable_dependency != inst.decision_variable_dependency {
            mon.violation(format!("C09.dependencies-changed:{method}"), ctx(&pi));
        }
        if pi.constraint_hints != inst.constraint_hints || pi.description != inst.description {
            mon.observe("hints-or-description-not-carried-over");
        }
        // API route: with_parameters(w) + evaluate(x) for a dependency-free, in-bound x
        if exact_mode && inst.decision_variable_dependency.is_empty() {
            let x = sorted_state(&gen_state_in_bounds(rng, &inst, None, Regime::D));
            let x: BTreeMap<u64, f64> = x.into_iter().map(|(k, v)| (k, if v.abs() > 4.0 { v.signum() * 4.0 } else { v })).collect();
            let inb = inst.decision_variables.iter().all(|v| {
                let (l, u) = effective_bound(v);
                x.get(&v.id).map_or(true, |val| *val >= l && *val <= u)
            });
            if inb {
                for _ in 0..2 {
                    let w: BTreeMap<u64, f64> = pids.iter().map(|p| (*p, *rng.pick(&[0.0, 1.0, 2.0, -1.0, 0.5, 0.75]))).collect();
                    let mut all = map_q(&x);
                    all.extend(map_q(&w));
                    let Some(exp_val) = expected.eval(&all) else { break };
                    mon.eval();
                    let r = probe(|| {
                        let i2 = pi.clone().with_parameters(parameters(w.iter().map(|(k, v)| (*k, *v)))).map_err(|e| format!("with_parameters: {e:#}"))?;
                        let of = opt_fn(&i2.objective);
                        i2.evaluate(&state(x.iter().map(|(k, v)| (*k, *v)))).map(|(s, _)| (s.objective, of)).map_err(|e| format!("evaluate: {e:#}"))
                    });
                    match r {
                        Err(p) => mon.violation(format!("C09.panic:{}", panic_site(&p)), format!("with_parameters/evaluate panicked: {}\n{}", p.message, ctx(&pi))),
                        Ok(Err(e)) => mon.violation(format!("C09.instantiate-error:{method}"), format!("{e}\nweights={w:?} x={x:?}\n{}", ctx(&pi))),
                        Ok(Ok((v, of))) => {
                            let small = partial_is_exact(&stored_terms(&opt_fn(&pi.objective)), &w) && eval_is_exact(&stored_terms(&of), &x);
                            mon.facet(if small { "instantiated-value-judged:exact" } else { "instantiated-value-not-judged(uncertified)" });
                            if small && !f64_eq_q(v, &exp_val) {
                                mon.violation(format!("C09.objective-value:{method}"), format!("objective at x={x:?}, w={w:?} is {v:e}; f(x)+sum w*g(x)^2 = {exp_val} ({:e})\n{}", q_to_f64(&exp_val), ctx(&pi)));
                            }
                        }
                    }
                }
            }
        }
    }
}
