//! C17 — MPS files are read as the problem they describe.
//!
//! Each case renders an abstract LP/MIP model (mps_model.rs) as free-format MPS text with random
//! layout switches, loads it through one of the three public loaders and compares the returned
//! instance BY NAME with the problem computed from the abstract model. A second workload renders
//! deliberately malformed files, which must be refused with an error.

use crate::exact::{canon_function, Poly, Q};
use crate::monitor::{panic_site, probe, Fp, Monitor, PanicInfo};
use crate::mps_model::*;
use crate::rng::Rng;
use crate::{Env, Property, Tier};
use num::Zero;
use ommx::mps::MpsParseError;
use ommx::v1;
use serde_json::json;
use std::collections::{BTreeMap, BTreeSet};
use std::io::Write;

pub struct C17;

/// Report a violation, but at most 25 times per signature and worker: the monitor keeps a bounded
/// list of violations per worker, and thousands of repeats of one (known) signature must not
/// crowd out a different one. Further repeats are counted as a facet.
pub fn report(mon: &mut Monitor, signature: impl Into<String>, detail: impl Into<String>) {
    use std::collections::HashMap;
    use std::sync::Mutex;
    static SEEN: Mutex<Option<HashMap<String, u32>>> = Mutex::new(None);
    let signature = signature.into();
    let n = {
        let mut g = SEEN.lock().unwrap_or_else(|e| e.into_inner());
        let m = g.get_or_insert_with(HashMap::new);
        let e = m.entry(signature.clone()).or_insert(0);
        *e += 1;
        *e
    };
    if n <= 25 || mon.replay_mode {
        mon.violation(signature, detail);
    } else {
        mon.facet(&format!("repeat-not-listed:{signature}"));
    }
}

// ---------------------------------------------------------------------------------------------
// generator of abstract models

const OBJ_NAMES: [&str; 8] = ["COST", "obj", "Z", "OBJECTIVE", "cost", "PROFIT", "R0", "objective_function"];
const COL_POOLS: [[&str; 6]; 7] = [
    ["X", "Y", "Z", "W", "U", "V"],
    ["x1", "x2", "x3", "x4", "x5", "x6"],
    ["XONE", "YTWO", "ZTHREE", "WFOUR", "VFIVE", "USIX"],
    ["x[1]", "x[2]", "y[1,2]", "y(3)", "z.a", "z#b"],
    ["C0000001", "C0000002", "C0000003", "C0000004", "C0000005", "C0000006"],
    ["x", "X", "y", "Var", "a_rather_long_column_name_0123456789", "VAR"],
    ["OMMX_VAR_3", "X1", "OMMX_VAR_x", "t", "OMMX_VAR_10", "q"],
];
const ROW_POOLS: [[&str; 5]; 5] = [
    ["LIM1", "LIM2", "MYEQN", "LIM3", "CAP"],
    ["c1", "c2", "c3", "c4", "c5"],
    ["R001", "R002", "R003", "R004", "R005"],
    ["con[1]", "con[2]", "cap.A", "cap.B", "bal(3)"],
    ["r_1", "r_2", "Row", "ROW", "a_rather_long_row_name_0123456789"],
];

fn avoid_known() -> bool {
    // debugging aid only: the committed default generates the inputs of the known defects
    std::env::var("VERIF_C17_AVOID_KNOWN").map(|v| v == "1").unwrap_or(false)
}

fn nonzero_coef(rng: &mut Rng) -> Num {
    let den = *rng.pick(&[1i64, 1, 2, 4, 4, 8]);
    let mut k = rng.range(-40, 40);
    if k == 0 {
        k = 3;
    }
    Num::new(k, den)
}

fn quarter(rng: &mut Rng, lo: i64, hi: i64) -> Num {
    Num::new(rng.range(lo, hi), 4)
}

/// bound lines of one column: only combinations whose meaning does not depend on a convention
/// about conflicting or overriding entries
fn gen_bounds_for(rng: &mut Rng, col: usize, avoid: bool) -> Vec<(BoundType, usize, Option<Num>)> {
    use BoundType::*;
    let mut v: Vec<(BoundType, usize, Option<Num>)> = vec![];
    let two = |rng: &mut Rng, a: (BoundType, Option<Num>), b: (BoundType, Option<Num>)| {
        if rng.bool() {
            vec![(a.0, col, a.1), (b.0, col, b.1)]
        } else {
            vec![(b.0, col, b.1), (a.0, col, a.1)]
        }
    };
    match rng.below(20) {
        0..=3 => {}
        4 => v.push((UP, col, Some(quarter(rng, 1, 40)))),
        5 => v.push((UP, col, Some(quarter(rng, -40, -1)))), // negative UP, no LO: lower opens
        6 => v.push((LO, col, Some(quarter(rng, -40, 40)))),
        7 | 8 => {
            let l = quarter(rng, -40, 30);
            let u = Num::new(l.k + rng.range(0, 30), 4);
            v = two(rng, (LO, Some(l)), (UP, Some(u)));
        }
        9 => v.push((FX, col, Some(quarter(rng, -20, 20)))),
        10 => v.push((MI, col, None)),
        11 => {
            let u = quarter(rng, -20, 20);
            v = two(rng, (MI, None), (UP, Some(u)));
        }
        12 => v.push((PL, col, None)),
        13 => {
            let l = quarter(rng, -20, 20);
            v = two(rng, (LO, Some(l)), (PL, None));
        }
        14 => {
            if !avoid {
                v.push((FR, col, None));
                if rng.chance(1, 6) {
                    v.push((UP, col, Some(quarter(rng, -20, 20))));
                }
            }
        }
        15 => v.push((BV, col, None)),
        16 => v.push((LI, col, Some(quarter(rng, -20, 20)))),
        17 => v.push((UI, col, Some(quarter(rng, 1, 40)))),
        _ => {
            let l = quarter(rng, -20, 20);
            let u = Num::new(l.k + rng.range(0, 24), 4);
            v = two(rng, (LI, Some(l)), (UI, Some(u)));
        }
    }
    v
}

pub fn gen_model(rng: &mut Rng, min_cols: usize) -> Model {
    let avoid = avoid_known();
    let ncols = (if rng.chance(1, 40) { 0 } else { 1 + rng.usize_below(6) }).max(min_cols);
    let nrows = if rng.chance(1, 12) { 0 } else { 1 + rng.usize_below(5) };
    let obj_name = if avoid || rng.chance(1, 4) { "OBJ".to_string() } else { (*rng.pick(&OBJ_NAMES)).to_string() };

    let mut cpool: Vec<&str> = rng.pick(&COL_POOLS).to_vec();
    rng.shuffle(&mut cpool);
    let mut col_names: Vec<String> = cpool[..ncols].iter().map(|s| s.to_string()).collect();
    if !col_names.is_empty() && col_names.iter().all(|n| n.strip_prefix("OMMX_VAR_").map_or(false, |r| r.parse::<u64>().is_ok())) {
        // names that all are OMMX_VAR_<n> switch the reader to id recovery (C18's territory);
        // OMMX_VAR_x next to OMMX_VAR_3 does not
        col_names[0] = "X1".into();
    }
    let mut rpool: Vec<&str> = rng.pick(&ROW_POOLS).to_vec();
    rpool.retain(|n| *n != obj_name);
    rng.shuffle(&mut rpool);
    let nrows = nrows.min(rpool.len());
    let mut row_names: Vec<String> = rpool[..nrows].iter().map(|s| s.to_string()).collect();
    if obj_name != "OBJ" && nrows > 0 && rng.chance(1, 25) {
        // a constraint row may be called OBJ when the objective row is called something else
        row_names[0] = "OBJ".into();
    }

    if !avoid && nrows >= 2 && rng.chance(1, 8) {
        // a file mixing SDK-style row names with foreign ones (e.g. an SDK-written file edited by hand):
        // some, but not all, rows are called OMMX_CONSTR_<n>
        let k = 1 + rng.usize_below(nrows - 1);
        let mut nums = [0u64, 1, 3, 7, 10, 42];
        rng.shuffle(&mut nums);
        for i in 0..k {
            row_names[i] = format!("OMMX_CONSTR_{}", nums[i]);
        }
        rng.shuffle(&mut row_names);
    }

    let mut rows: Vec<Row> = row_names
        .into_iter()
        .map(|name| {
            let ty = *rng.pick(&[RowType::E, RowType::L, RowType::G]);
            let rhs = if rng.chance(7, 10) {
                Some(if rng.chance(1, 20) { Num::int(0) } else { quarter(rng, -40, 40) })
            } else {
                None
            };
            let range = if rng.chance(1, 4) {
                let mut r = quarter(rng, -24, 24);
                if r.is_zero() {
                    r = Num::new(5, 4);
                }
                Some(r)
            } else {
                None
            };
            Row { name, ty, rhs, range }
        })
        .collect();

    if rows.len() >= 2 && rng.chance(1, 6) {
        // a declared row literally called "<ranged row>_": the name the reader would give to the
        // second constraint of the ranged row is taken, with or without a right-hand side
        if let Some(i) = rows.iter().position(|r| r.range.is_some()) {
            let j = (i + 1 + rng.usize_below(rows.len() - 1)) % rows.len();
            rows[j].name = format!("{}_", rows[i].name);
            rows[j].range = None;
            if rng.bool() {
                rows[j].rhs = None;
            }
        }
    }

    let any_integer = rng.chance(3, 5);
    let mut columns: Vec<Column> = vec![];
    for name in col_names {
        let integer = any_integer && rng.bool();
        let mut obj = if rng.chance(3, 5) { Some(nonzero_coef(rng)) } else { None };
        let mut coefs = vec![];
        for i in 0..rows.len() {
            if rng.bool() {
                let c = if rng.chance(1, 40) { Num::int(0) } else { nonzero_coef(rng) };
                coefs.push((i, c));
            }
        }
        if obj.is_none() && coefs.is_empty() {
            // a column exists in an MPS file only through an entry
            if rows.is_empty() || rng.bool() {
                obj = Some(if rng.chance(1, 8) { Num::int(0) } else { nonzero_coef(rng) });
            } else {
                coefs.push((rng.usize_below(rows.len()), nonzero_coef(rng)));
            }
        }
        columns.push(Column { name, integer, obj, coefs });
    }

    let obj_rhs = if rng.bool() {
        let mut r = quarter(rng, -40, 40);
        if r.is_zero() && rng.chance(3, 4) {
            r = Num::new(-10, 4);
        }
        Some(r)
    } else {
        None
    };
    let sense = match rng.below(20) {
        0..=7 => None,
        8..=14 => Some(true),
        _ => Some(false),
    };

    // bounds: per column, then grouped or interleaved
    let mut per_col: Vec<Vec<(BoundType, usize, Option<Num>)>> = (0..columns.len()).map(|j| gen_bounds_for(rng, j, avoid)).collect();
    let mut bounds = vec![];
    if rng.chance(1, 3) {
        // interleave, keeping the order within each column
        loop {
            let nonempty: Vec<usize> = (0..per_col.len()).filter(|j| !per_col[*j].is_empty()).collect();
            if nonempty.is_empty() {
                break;
            }
            let j = *rng.pick(&nonempty);
            bounds.push(per_col[j].remove(0));
        }
    } else {
        let mut order: Vec<usize> = (0..per_col.len()).collect();
        if rng.bool() {
            rng.shuffle(&mut order);
        }
        for j in order {
            bounds.append(&mut per_col[j]);
        }
    }

    let name = match rng.below(6) {
        0 => String::new(),
        1 => "TESTPROB".into(),
        2 => "model_17".into(),
        3 => "afiro".into(),
        4 => "P-1.lp".into(),
        _ => "MIP".into(),
    };
    let obj_pos = if rng.chance(2, 3) { 0 } else { rng.usize_below(rows.len() + 1) };
    Model {
        name,
        sense,
        obj_name,
        obj_pos,
        columns,
        rows,
        obj_rhs,
        bounds,
    }
}

// ---------------------------------------------------------------------------------------------
// loading

#[derive(Clone, Copy, Debug, PartialEq, Eq)]
enum Loader {
    Raw,
    /// load_raw_reader / load_zipped_reader over a reader that hands out 1-7 bytes per call
    RawDribble,
    ZippedDribble,
    Zipped,
    File,
    /// load_file_bytes, the encoded instance decoded again
    FileBytes,
}

impl Loader {
    fn name(&self) -> &'static str {
        match self {
            Loader::Raw => "load_raw_reader",
            Loader::Zipped => "load_zipped_reader",
            Loader::File => "load_file",
            Loader::RawDribble => "load_raw_reader(short reads)",
            Loader::ZippedDribble => "load_zipped_reader(short reads)",
            Loader::FileBytes => "load_file_bytes",
        }
    }
    fn pick(rng: &mut Rng) -> Loader {
        match rng.below(20) {
            0..=7 => Loader::Raw,
            8 | 9 => Loader::RawDribble,
            10..=13 => Loader::Zipped,
            14 | 15 => Loader::ZippedDribble,
            16 | 17 => Loader::File,
            _ => Loader::FileBytes,
        }
    }
}

/// a reader that returns between 1 and 7 bytes per `read` call, whatever the buffer size
struct Dribble<'a> {
    data: &'a [u8],
    pos: usize,
    step: usize,
}

impl std::io::Read for Dribble<'_> {
    fn read(&mut self, buf: &mut [u8]) -> std::io::Result<usize> {
        self.step = self.step % 7 + 1;
        let n = self.step.min(buf.len()).min(self.data.len() - self.pos);
        buf[..n].copy_from_slice(&self.data[self.pos..self.pos + n]);
        self.pos += n;
        Ok(n)
    }
}

fn gzip(text: &str, rng: &mut Rng) -> Vec<u8> {
    let level = *rng.pick(&[0u32, 1, 6, 9]);
    let mut enc = flate2::write::GzEncoder::new(Vec::new(), flate2::Compression::new(level));
    enc.write_all(text.as_bytes()).expect("harness: gzip");
    enc.finish().expect("harness: gzip finish")
}

fn variant_name(e: &MpsParseError) -> &'static str {
    match e {
        MpsParseError::UnknownRowName(_) => "UnknownRowName",
        MpsParseError::InvalidRowType(_) => "InvalidRowType",
        MpsParseError::InvalidBoundType(_) => "InvalidBoundType",
        MpsParseError::InvalidHeader(_) => "InvalidHeader",
        MpsParseError::InvalidMarker(_) => "InvalidMarker",
        MpsParseError::InvalidObjSense(_) => "InvalidObjSense",
        MpsParseError::Io(_) => "Io",
        MpsParseError::ParseFloat(_) => "ParseFloat",
        #[allow(unreachable_patterns)]
        _ => "<other variant>",
    }
}

fn load(text: &str, loader: Loader, env: &Env, k: u64, rng: &mut Rng) -> Result<Result<v1::Instance, (String, String)>, PanicInfo> {
    let conv = |r: Result<v1::Instance, MpsParseError>| r.map_err(|e| (variant_name(&e).to_string(), e.to_string()));
    match loader {
        Loader::Raw => probe(|| conv(ommx::mps::load_raw_reader(text.as_bytes()))),
        Loader::Zipped => {
            let gz = gzip(text, rng);
            probe(|| conv(ommx::mps::load_zipped_reader(&gz[..])))
        }
        Loader::RawDribble => {
            let step = rng.usize_below(7);
            probe(|| conv(ommx::mps::load_raw_reader(Dribble { data: text.as_bytes(), pos: 0, step })))
        }
        Loader::ZippedDribble => {
            let gz = gzip(text, rng);
            let step = rng.usize_below(7);
            probe(|| conv(ommx::mps::load_zipped_reader(Dribble { data: &gz[..], pos: 0, step })))
        }
        Loader::File | Loader::FileBytes => {
            let gz = gzip(text, rng);
            std::fs::create_dir_all(&env.scratch).expect("harness: scratch directory");
            // load_file reads "the file at the given path as a gzipped MPS file", whatever it is called
            let name = match rng.below(8) {
                0 => format!("c17-{k}.mps.GZ"),
                1 => format!("c17-{k}.mpsz"),
                2 => format!("c17-{k}"),
                3 => format!("c17-{k}.mps.gz.download"),
                4 => format!("c17 {k} (copy).gz.txt"),
                _ => format!("c17-{k}.mps.gz"),
            };
            let path = env.scratch.join(name);
            std::fs::write(&path, &gz).expect("harness: write scratch file");
            let r = if loader == Loader::File {
                probe(|| conv(ommx::mps::load_file(&path)))
            } else {
                probe(|| {
                    ommx::mps::load_file_bytes(&path)
                        .map_err(|e| (variant_name(&e).to_string(), e.to_string()))
                        .map(|bytes| <v1::Instance as prost::Message>::decode(&bytes[..]).expect("harness: load_file_bytes returns an encoded Instance"))
                })
            };
            let _ = std::fs::remove_file(&path);
            r
        }
    }
}

// ---------------------------------------------------------------------------------------------
// comparison

fn show_poly(p: &Poly, m: &Model) -> String {
    if p.terms.is_empty() {
        return "0".into();
    }
    p.terms
        .iter()
        .map(|(k, c)| {
            let names: Vec<String> = k.iter().map(|j| m.columns.get(*j as usize).map(|c| c.name.clone()).unwrap_or_else(|| format!("?{j}"))).collect();
            if names.is_empty() {
                format!("({c})")
            } else {
                format!("({c})*{}", names.join("*"))
            }
        })
        .collect::<Vec<_>>()
        .join(" + ")
}

fn remap(p: &Poly, id2col: &BTreeMap<u64, u64>) -> Result<Poly, u64> {
    let mut r = Poly::zero();
    for (k, c) in &p.terms {
        let mut ids = Vec::with_capacity(k.len());
        for id in k {
            ids.push(*id2col.get(id).ok_or(*id)?);
        }
        r.add_term(ids, c.clone());
    }
    Ok(r)
}

fn row_tag(r: &ExpectedRow) -> String {
    format!(
        "{}{}",
        r.ty.letter(),
        match r.range_sign {
            0 => "",
            1 => "-ranged-pos",
            _ => "-ranged-neg",
        }
    )
}

/// compare the loaded instance with the expected problem; every mismatch becomes a violation
/// whose signature names the oracle and the class of input it concerns
fn compare(m: &Model, exp: &Expected, inst: &v1::Instance, ctx: &str, mon: &mut Monitor) {
    // --- variables, by name
    let mut id2col: BTreeMap<u64, u64> = BTreeMap::new();
    let mut seen_cols: BTreeSet<usize> = BTreeSet::new();
    let mut ok_names = true;
    for v in &inst.decision_variables {
        let Some(name) = &v.name else {
            report(mon, "C17.names:variable-without-name", format!("decision variable id {} carries no name\n{ctx}", v.id));
            ok_names = false;
            continue;
        };
        let Some(j) = m.columns.iter().position(|c| &c.name == name) else {
            report(mon, "C17.columns:unexpected-variable", format!("decision variable id {} is named {name:?}, which is not a column of the file\n{ctx}", v.id));
            ok_names = false;
            continue;
        };
        if !seen_cols.insert(j) || id2col.insert(v.id, j as u64).is_some() {
            report(mon, "C17.columns:duplicate", format!("column {name:?} or id {} occurs twice among the decision variables\n{ctx}", v.id));
            ok_names = false;
        }
    }
    for (j, c) in m.columns.iter().enumerate() {
        if !seen_cols.contains(&j) {
            report(mon, "C17.columns:missing", format!("column {:?} of the file has no decision variable\n{ctx}", c.name));
            ok_names = false;
        }
    }
    if !ok_names {
        return;
    }

    // --- domains
    for v in &inst.decision_variables {
        let j = id2col[&v.id] as usize;
        let words = m.bound_words(j);
        let mut key = if words.is_empty() { "none".to_string() } else { words.join("+") };
        if m.columns[j].integer {
            key = format!("int-marker/{key}");
        }
        let want = exp.domains[j];
        match domain_of_dvar(v) {
            None => report(mon,
                format!("C17.kind:{key}"),
                format!("column {:?}: kind {} / bound {:?} is not a continuous, integer or binary domain; expected {}\n{ctx}", m.columns[j].name, v.kind, v.bound, want.show()),
            ),
            Some(got) => {
                if got != want {
                    // classification: FR that only failed to open the lower bound
                    let fr_keeps_lower = words.contains(&"FR") && want.lo == f64::NEG_INFINITY && got.lo == 0.0 && got.hi == want.hi && got.discrete == want.discrete;
                    let sig = if fr_keeps_lower {
                        "C17.bounds:FR-keeps-lower-0".to_string()
                    } else if got.discrete != want.discrete {
                        format!("C17.kind:{key}")
                    } else {
                        format!("C17.bounds:{key}")
                    };
                    report(mon,
                        sig,
                        format!(
                            "column {:?} (integer marker: {}, BOUNDS lines: {:?}): expected domain {}, loaded kind {} bound {:?} = domain {}\n{ctx}",
                            m.columns[j].name,
                            m.columns[j].integer,
                            words,
                            want.show(),
                            v.kind,
                            v.bound.as_ref().map(|b| (b.lower, b.upper)),
                            got.show()
                        ),
                    );
                }
            }
        }
    }

    // --- sense
    let want_sense = if exp.maximize { 2 } else { 1 };
    if inst.sense != want_sense {
        report(mon,
            format!("C17.sense:{}", match m.sense { None => "absent", Some(true) => "MAX", Some(false) => "MIN" }),
            format!("sense {} loaded, expected {} (1 = minimise, 2 = maximise)\n{ctx}", inst.sense, want_sense),
        );
    }

    // --- objective
    match &inst.objective {
        None => report(mon, "C17.objective:absent", format!("no objective in the loaded instance\n{ctx}")),
        Some(f) => match remap(&canon_function(f), &id2col) {
            Err(id) => report(mon, "C17.ids:undefined-in-objective", format!("objective uses id {id}, which no decision variable has\n{ctx}")),
            Ok(got) => {
                if got != exp.objective {
                    let diff = got.sub(&exp.objective);
                    let only_constant = diff.terms.keys().all(|k| k.is_empty());
                    let sig = if only_constant {
                        // what a look-up of the RHS under the literal row name "OBJ" would produce
                        let literal: Q = m.rows.iter().find(|r| r.name == "OBJ").and_then(|r| r.rhs).map(|n| -n.q()).unwrap_or_else(Q::zero);
                        if m.obj_name != "OBJ" && got.coeff(&[]) == literal {
                            "C17.objective-constant:objective-row-not-named-OBJ".to_string()
                        } else {
                            "C17.objective:constant".to_string()
                        }
                    } else {
                        "C17.objective:coefficients".to_string()
                    };
                    report(mon,
                        sig,
                        format!(
                            "objective row {:?} (RHS entry on it: {:?}, so the constant is {}): expected {}, loaded {}\n{ctx}",
                            m.obj_name,
                            m.obj_rhs.map(|n| n.plain()),
                            exp.constant,
                            show_poly(&exp.objective, m),
                            show_poly(&got, m)
                        ),
                    );
                }
            }
        },
    }

    // --- constraints, grouped by the row they belong to (second constraint of a ranged row: row name + "_")
    let mut groups: BTreeMap<String, Vec<&v1::Constraint>> = BTreeMap::new();
    let mut cids = BTreeSet::new();
    for c in &inst.constraints {
        if !cids.insert(c.id) {
            report(mon, "C17.ids:duplicate-constraint-id", format!("constraint id {} occurs twice\n{ctx}", c.id));
        }
        match &c.name {
            None => report(mon, "C17.names:constraint-without-name", format!("constraint id {} carries no name\n{ctx}", c.id)),
            Some(n) => {
                // a generated row name ends with '_' only as the non-ranged sibling "<ranged row>_", which is matched exactly
                let base = if m.rows.iter().any(|r| &r.name == n) { n.clone() } else { n.trim_end_matches('_').to_string() };
                groups.entry(base).or_default().push(c);
            }
        }
    }
    for r in &exp.rows {
        let tag = row_tag(r);
        let got = groups.remove(&r.name).unwrap_or_default();
        if got.is_empty() {
            report(mon, format!("C17.constraint:{tag}:missing"), format!("row {:?} has no constraint in the loaded instance\n{ctx}", r.name));
            continue;
        }
        if r.range_sign == 0 && got.iter().any(|c| c.name.as_deref() != Some(r.name.as_str())) {
            report(mon, format!("C17.constraint:{tag}:name"), format!("row {:?} is not ranged but constraints {:?} were produced\n{ctx}", r.name, got.iter().map(|c| c.name.clone()).collect::<Vec<_>>()));
            continue;
        }
        let mut got_pairs: Vec<(Poly, i32)> = vec![];
        let mut bad = false;
        for c in &got {
            let p = match &c.function {
                None => Poly::zero(),
                Some(f) => canon_function(f),
            };
            match remap(&p, &id2col) {
                Ok(p) => got_pairs.push((p, c.equality)),
                Err(id) => {
                    report(mon, "C17.ids:undefined-in-constraint", format!("constraint {:?} uses id {id}, which no decision variable has\n{ctx}", c.name));
                    bad = true;
                }
            }
        }
        if bad {
            continue;
        }
        let want_pairs: Vec<(Poly, i32)> = r.constraints.iter().map(|(p, eq)| (p.clone(), if *eq { 1 } else { 2 })).collect();
        let describe = |v: &Vec<(Poly, i32)>| {
            v.iter()
                .map(|(p, e)| format!("{} {}", show_poly(p, m), match e { 1 => "= 0", 2 => "<= 0", _ => "?? (equality unspecified)" }))
                .collect::<Vec<_>>()
                .join("   AND   ")
        };
        let what = if got_pairs.len() != want_pairs.len() {
            Some("count")
        } else if multiset_eq(&got_pairs, &want_pairs) {
            None
        } else {
            let gp: Vec<(Poly, i32)> = got_pairs.iter().map(|(p, _)| (p.clone(), 0)).collect();
            let wp: Vec<(Poly, i32)> = want_pairs.iter().map(|(p, _)| (p.clone(), 0)).collect();
            if multiset_eq(&gp, &wp) {
                Some("equality")
            } else {
                Some("function")
            }
        };
        if let Some(what) = what {
            let mr = m.rows.iter().find(|x| x.name == r.name).expect("row");
            report(mon,
                format!("C17.constraint:{tag}:{what}"),
                format!(
                    "row {:?} type {} rhs {:?} range {:?}: expected {}; loaded {}\n{ctx}",
                    r.name,
                    r.ty.letter(),
                    mr.rhs.map(|n| n.plain()),
                    mr.range.map(|n| n.plain()),
                    describe(&want_pairs),
                    describe(&got_pairs)
                ),
            );
        }
    }
    for (base, cs) in groups {
        report(mon,
            "C17.constraint:unexpected-name",
            format!("constraints {:?} (group {base:?}) do not belong to any row of the file\n{ctx}", cs.iter().map(|c| c.name.clone()).collect::<Vec<_>>()),
        );
    }
}

fn multiset_eq(a: &[(Poly, i32)], b: &[(Poly, i32)]) -> bool {
    if a.len() != b.len() {
        return false;
    }
    let mut used = vec![false; b.len()];
    'outer: for x in a {
        for (i, y) in b.iter().enumerate() {
            if !used[i] && x == y {
                used[i] = true;
                continue 'outer;
            }
        }
        return false;
    }
    true
}

fn describe_model(m: &Model, exp: &Expected) -> String {
    let mut s = String::new();
    s.push_str(&format!("expected: {} {}\n", if exp.maximize { "maximise" } else { "minimise" }, show_poly(&exp.objective, m)));
    for r in &exp.rows {
        for (p, eq) in &r.constraints {
            s.push_str(&format!("  {}: {} {}\n", r.name, show_poly(p, m), if *eq { "= 0" } else { "<= 0" }));
        }
    }
    for (j, c) in m.columns.iter().enumerate() {
        s.push_str(&format!("  {} in {}\n", c.name, exp.domains[j].show()));
    }
    s
}

// ---------------------------------------------------------------------------------------------

const ERROR_FAULTS: [Fault; 8] = [
    Fault::UndeclaredRowInColumns,
    Fault::UndeclaredRowInRanges,
    Fault::UnknownRowType,
    Fault::UnknownBoundType,
    Fault::BadMarker,
    Fault::BadObjSense,
    Fault::UnknownSection,
    Fault::BadNumber,
];

impl Property for C17 {
    fn id(&self) -> &'static str {
        "C17"
    }
    fn cases(&self, tier: Tier) -> u64 {
        match tier {
            Tier::Quick => 60_000,
            Tier::Thorough => 4_000_000,
        }
    }
    fn min_nontrivial(&self, tier: Tier) -> u64 {
        match tier {
            Tier::Quick => 10_000,
            Tier::Thorough => 700_000,
        }
    }
    fn rule(&self) -> &'static str {
        "each case: one abstract LP/MIP model (<=6 columns, <=5 rows E/L/G with optional RHS and RANGES of both signs, objective row with a foreign name and an optional RHS entry = minus the objective constant, integer marker blocks, BOUNDS from UP LO FX MI PL FR BV LI UI in unambiguous combinations, coefficients k/1..k/8; one model in eight names some but not all rows OMMX_CONSTR_<n>, one in six with a ranged row R also declares a row called R_) rendered by the harness's own free-format MPS writer with random layout (3-/5-field lines, comments, blank lines, tabs, CRLF, OBJSENSE inline / own line / absent, several spellings of each number) and loaded through load_raw_reader, load_zipped_reader (each also over a reader that hands out 1-7 bytes per call), load_file or load_file_bytes (decoded again; file names with and without the usual .mps.gz ending); about 75% well-formed files compared by name with the expected problem, 20% files with one injected defect that must be refused, 5% files with entries the reader is known to ignore (counted only). Non-trivial = well-formed file with >=1 column and (>=1 row or a non-constant objective); distinct = fingerprint of the rendered text."
    }
    fn assumptions(&self) -> Vec<&'static str> {
        vec![
            "the expected problem is computed from the abstract model, never from the text; numbers are dyadic decimals so every correct parser returns them exactly and comparison is exact rational equality",
            "variables are matched by decision_variables[i].name, constraints by constraints[i].name; the second constraint of a ranged row may carry the row name followed by underscores; which of the two names carries which side is not prescribed",
            "domains are compared as sets (integer [0,1] == binary; binary with explicit bound [0,+inf) == {0,1})",
            "not generated (ambiguous conventions): UP 0 without LO, a second N row, RANGES on the N row, Fortran D exponents, RANGES value 0, repeated (column,row) entries, conflicting bound lines, missing RHS/BOUNDS set names, negative UI without LI",
            "undeclared row in RHS and undeclared column in BOUNDS are counted, not judged",
        ]
    }

    fn run_case(&self, k: u64, rng: &mut Rng, env: &Env, mon: &mut Monitor) {
        let mode = rng.below(20);
        let fault = match mode {
            0..=14 => Fault::None,
            15..=18 => *rng.pick(&ERROR_FAULTS),
            _ => {
                if rng.bool() {
                    Fault::UndeclaredRowInRhs
                } else {
                    Fault::UndeclaredColumnInBounds
                }
            }
        };
        let m = gen_model(rng, if fault == Fault::None { 0 } else { 1 });
        let exp = expected(&m);
        let lay = Layout::random(rng);
        let rendered = render(&m, &lay, fault, rng);
        let loader = Loader::pick(rng);
        let text = &rendered.text;

        mon.eval();
        let result = load(text, loader, env, k, rng);
        mon.facet(&format!("loader:{}", loader.name()));

        if fault != Fault::None {
            let judged = ERROR_FAULTS.contains(&fault);
            let ctx = format!("defect: {} ({})\nloader: {}\nfile:\n{text}", fault.name(), rendered.fault_note, loader.name());
            match result {
                Err(p) => {
                    if judged {
                        report(mon, format!("C17.error-panic:{}:{}", fault.name(), panic_site(&p)), format!("reader panicked: {} at {}\n{ctx}", p.message, p.location));
                    } else {
                        mon.observe(&format!("{}:panic", fault.name()));
                    }
                }
                Ok(Ok(_)) => {
                    if judged {
                        report(mon, format!("C17.error-accepted:{}", fault.name()), format!("the file was loaded without an error\n{ctx}"));
                    } else {
                        mon.observe(&format!("{}:accepted-silently", fault.name()));
                    }
                }
                Ok(Err((variant, _msg))) => {
                    if judged {
                        mon.facet(&format!("error:{}->Err({variant})", fault.name()));
                    } else {
                        mon.observe(&format!("{}:rejected:{variant}", fault.name()));
                    }
                }
            }
            return;
        }

        // well-formed file
        let nontrivial = !m.columns.is_empty() && (!m.rows.is_empty() || m.columns.iter().any(|c| c.obj.map_or(false, |v| !v.is_zero())));
        if nontrivial {
            let mut fp = Fp::new();
            fp.str(text);
            mon.nontrivial(fp.finish());
        }
        for f in lay.facets() {
            mon.facet(&format!("layout:{f}"));
        }
        for f in &rendered.features {
            mon.facet(&format!("layout:{f}"));
        }
        for r in &exp.rows {
            mon.facet(&format!("row:{}", row_tag(r)));
        }
        for (ty, j, v) in &m.bounds {
            mon.facet(&format!("bound:{}", ty.word()));
            if *ty == BoundType::UP && v.map_or(false, |n| n.is_neg()) && !m.bounds.iter().any(|b| b.1 == *j && b.0 != BoundType::UP) {
                mon.facet("bound:UP-negative-without-lower");
            }
        }
        if m.columns.iter().any(|c| c.integer) {
            mon.facet("columns:integer-marker");
        }
        mon.facet(if m.obj_name == "OBJ" { "objective-row:named-OBJ" } else { "objective-row:foreign-name" });
        if m.obj_rhs.is_some() {
            mon.facet("objective-row:has-RHS-entry");
        }
        mon.facet(match m.sense {
            None => "sense:absent",
            Some(true) => "sense:MAX",
            Some(false) => "sense:MIN",
        });
        if nontrivial && mon.want_sample() {
            mon.sample(json!({"file": text, "loader": loader.name(), "expected": describe_model(&m, &exp)}));
        }

        let ctx = format!("loader: {}\n{}file:\n{text}", loader.name(), describe_model(&m, &exp));
        match result {
            Err(p) => report(mon, format!("C17.panic:{}", panic_site(&p)), format!("reader panicked on a well-formed file: {} at {}\n{ctx}", p.message, p.location)),
            Ok(Err((variant, msg))) => report(mon, format!("C17.rejected-well-formed:{variant}"), format!("well-formed file refused: {msg}\n{ctx}")),
            Ok(Ok(inst)) => {
                // the problem name is not part of the property: counted only
                let got_name = inst.description.as_ref().and_then(|d| d.name.clone()).unwrap_or_default();
                if got_name != m.name {
                    mon.observe("problem-name-differs-from-NAME-line");
                }
                compare(&m, &exp, &inst, &ctx, mon);
            }
        }
    }
}
