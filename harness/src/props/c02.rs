//! C02 — function arithmetic is exact polynomial arithmetic for every operand mix.

use crate::build::*;
use crate::exact::*;
use crate::gen::*;
use crate::monitor::{panic_site, probe, Fp, Monitor};
use crate::rng::Rng;
use crate::{Env, Property, Tier};
use num::{Signed, Zero};
use ommx::v1;
use serde_json::json;
use std::collections::BTreeMap;

pub struct C02;

// ---------------------------------------------------------------------------------------------
// operands and results

pub struct Cfg {
    pub f: FnCfg,
}

pub trait Operand: Sized {
    const KIND: &'static str;
    fn generate(rng: &mut Rng, cfg: &Cfg) -> Self;
    fn canon(&self) -> Poly;
    fn show(&self) -> String;
    fn fp(&self, fp: &mut Fp);
    /// sum of |coefficient| over the stored (unmerged) terms
    fn stored_abs(&self) -> Q {
        abs_total(&self.canon())
    }
    /// polynomial of |stored coefficients| (no cancellation between repeated terms)
    fn abs_canon(&self) -> Poly {
        abs_poly(&self.canon())
    }
    /// the SDK's term iterator over this (hostile, un-normalised) operand, if it is a message type
    fn iter_outcome(&self) -> Option<Result<Outcome, crate::monitor::PanicInfo>> {
        None
    }
}

/// plain number operand
#[derive(Clone, Debug)]
pub struct Num(pub f64);

impl Operand for Num {
    const KIND: &'static str = "f64";
    fn generate(rng: &mut Rng, cfg: &Cfg) -> Self {
        if rng.chance(1, 10) {
            Num(0.0)
        } else if cfg.f.regime == Regime::R && rng.chance(1, 8) {
            // a non-zero number at or below machine epsilon is a number like any other
            Num(*rng.pick(&[1e-17, -1e-17, f64::EPSILON, -f64::EPSILON, 1e-20, 2e-16, -3e-18]))
        } else {
            Num(coef(rng, cfg.f.regime))
        }
    }
    fn canon(&self) -> Poly {
        Poly::constant(q(self.0))
    }
    fn show(&self) -> String {
        format!("{:e}", self.0)
    }
    fn fp(&self, fp: &mut Fp) {
        fp.f64(self.0);
    }
}

impl Operand for v1::DecisionVariable {
    const KIND: &'static str = "&DecisionVariable";
    fn generate(rng: &mut Rng, cfg: &Cfg) -> Self {
        // whatever else the variable message carries (kind, bound, a fixed value, names), as an
        // arithmetic operand it stands for the monomial x_id
        let kind = *rng.pick(&[KIND_CONTINUOUS, KIND_CONTINUOUS, KIND_BINARY, KIND_INTEGER, KIND_SEMI_INTEGER, KIND_SEMI_CONTINUOUS, 0]);
        let bound = if rng.bool() { None } else { Some((rng.range(-4, 0) as f64, rng.range(0, 5) as f64)) };
        let mut v = dvar(*rng.pick(&cfg.f.ids), kind, bound);
        if rng.chance(1, 3) {
            v.substituted_value = Some(*rng.pick(&[0.0, 1.0, 2.0, -1.5, 0.25]));
        }
        if rng.chance(1, 4) {
            v.name = Some(rng.ascii_word(3));
            v.subscripts = vec![rng.range(-2, 9)];
        }
        v
    }
    fn canon(&self) -> Poly {
        Poly::var(self.id)
    }
    fn show(&self) -> String {
        format!("DecisionVariable(id={})", self.id)
    }
    fn fp(&self, fp: &mut Fp) {
        fp.u64(self.id);
    }
}

impl Operand for v1::Parameter {
    const KIND: &'static str = "&Parameter";
    fn generate(rng: &mut Rng, cfg: &Cfg) -> Self {
        let mut p = parameter(*rng.pick(&cfg.f.ids));
        if rng.chance(1, 4) {
            p.name = Some(rng.ascii_word(3));
            p.subscripts = vec![rng.range(-2, 9)];
        }
        p
    }
    fn canon(&self) -> Poly {
        Poly::var(self.id)
    }
    fn show(&self) -> String {
        format!("Parameter(id={})", self.id)
    }
    fn fp(&self, fp: &mut Fp) {
        fp.u64(self.id);
    }
}

impl Operand for v1::Linear {
    fn iter_outcome(&self) -> Option<Result<Outcome, crate::monitor::PanicInfo>> {
        Some(probe(|| Res::outcome(self)))
    }
    fn abs_canon(&self) -> Poly {
        abs_stored_poly(&f_linear(self.clone()))
    }
    fn stored_abs(&self) -> Q {
        stored_terms(&f_linear(self.clone())).iter().map(|(_, c)| q(*c).abs()).fold(Q::zero(), |a, b| a + b)
    }
    const KIND: &'static str = "Linear";
    fn generate(rng: &mut Rng, cfg: &Cfg) -> Self {
        gen_linear(rng, &cfg.f)
    }
    fn canon(&self) -> Poly {
        canon_linear(self)
    }
    fn show(&self) -> String {
        format!("{self:?}")
    }
    fn fp(&self, fp: &mut Fp) {
        fp.bytes(&prost::Message::encode_to_vec(self));
    }
}

impl Operand for v1::Quadratic {
    fn iter_outcome(&self) -> Option<Result<Outcome, crate::monitor::PanicInfo>> {
        Some(probe(|| Res::outcome(self)))
    }
    fn abs_canon(&self) -> Poly {
        abs_stored_poly(&f_quadratic(self.clone()))
    }
    fn stored_abs(&self) -> Q {
        stored_terms(&f_quadratic(self.clone())).iter().map(|(_, c)| q(*c).abs()).fold(Q::zero(), |a, b| a + b)
    }
    const KIND: &'static str = "Quadratic";
    fn generate(rng: &mut Rng, cfg: &Cfg) -> Self {
        gen_quadratic(rng, &cfg.f)
    }
    fn canon(&self) -> Poly {
        canon_quadratic(self)
    }
    fn show(&self) -> String {
        format!("{self:?}")
    }
    fn fp(&self, fp: &mut Fp) {
        fp.bytes(&prost::Message::encode_to_vec(self));
    }
}

impl Operand for v1::Polynomial {
    fn iter_outcome(&self) -> Option<Result<Outcome, crate::monitor::PanicInfo>> {
        Some(probe(|| Res::outcome(self)))
    }
    fn abs_canon(&self) -> Poly {
        abs_stored_poly(&f_polynomial(self.clone()))
    }
    fn stored_abs(&self) -> Q {
        stored_terms(&f_polynomial(self.clone())).iter().map(|(_, c)| q(*c).abs()).fold(Q::zero(), |a, b| a + b)
    }
    const KIND: &'static str = "Polynomial";
    fn generate(rng: &mut Rng, cfg: &Cfg) -> Self {
        gen_polynomial(rng, &cfg.f)
    }
    fn canon(&self) -> Poly {
        canon_polynomial(self)
    }
    fn show(&self) -> String {
        format!("{self:?}")
    }
    fn fp(&self, fp: &mut Fp) {
        fp.bytes(&prost::Message::encode_to_vec(self));
    }
}

impl Operand for v1::Function {
    fn iter_outcome(&self) -> Option<Result<Outcome, crate::monitor::PanicInfo>> {
        Some(probe(|| Res::outcome(self)))
    }
    fn abs_canon(&self) -> Poly {
        abs_stored_poly(&self.clone())
    }
    fn stored_abs(&self) -> Q {
        stored_terms(&self.clone()).iter().map(|(_, c)| q(*c).abs()).fold(Q::zero(), |a, b| a + b)
    }
    const KIND: &'static str = "Function";
    fn generate(rng: &mut Rng, cfg: &Cfg) -> Self {
        // never the unset oneof: arithmetic on it panics by contract
        let v = 1 + rng.below(4);
        gen_function_variant(rng, &cfg.f, v)
    }
    fn canon(&self) -> Poly {
        canon_function(self)
    }
    fn show(&self) -> String {
        format!("{self:?}")
    }
    fn fp(&self, fp: &mut Fp) {
        fp.bytes(&prost::Message::encode_to_vec(self));
    }
}

/// what the SDK returned, reduced to what the monitor judges
pub struct Outcome {
    pub kind: &'static str,
    pub max_degree: usize,
    pub canon: Poly,
    pub shown: String,
    /// (ids as yielded, coefficient) from the SDK's term iterator of the result
    pub iter_terms: Vec<(Vec<u64>, f64)>,
}

pub trait Res {
    fn outcome(&self) -> Outcome;
}

impl Res for v1::Linear {
    fn outcome(&self) -> Outcome {
        Outcome {
            kind: "Linear",
            max_degree: 1,
            canon: canon_linear(self),
            shown: format!("{self:?}"),
            iter_terms: self.into_iter().map(|(id, c)| (id.into_iter().collect(), c)).collect(),
        }
    }
}
impl Res for v1::Quadratic {
    fn outcome(&self) -> Outcome {
        Outcome {
            kind: "Quadratic",
            max_degree: 2,
            canon: canon_quadratic(self),
            shown: format!("{self:?}"),
            iter_terms: self.into_iter().map(|(ids, c)| (ids.iter().cloned().collect(), c)).collect(),
        }
    }
}
impl Res for v1::Polynomial {
    fn outcome(&self) -> Outcome {
        Outcome {
            kind: "Polynomial",
            max_degree: usize::MAX,
            canon: canon_polynomial(self),
            shown: format!("{self:?}"),
            iter_terms: self.into_iter().map(|(ids, c)| (ids.iter().cloned().collect(), c)).collect(),
        }
    }
}
impl Res for v1::Function {
    fn outcome(&self) -> Outcome {
        Outcome {
            kind: "Function",
            max_degree: usize::MAX,
            canon: canon_function(self),
            shown: format!("{self:?}"),
            iter_terms: self.into_iter().map(|(ids, c)| (ids.iter().cloned().collect(), c)).collect(),
        }
    }
}

// ---------------------------------------------------------------------------------------------
// the operator table (fixed at compile time; every entry is exercised round-robin)

pub struct Exec {
    pub op: &'static str,
    pub lhs_kind: &'static str,
    pub rhs_kind: &'static str,
    pub lhs: Poly,
    pub rhs: Poly,
    pub lhs_shown: String,
    pub rhs_shown: String,
    pub fp: u64,
    /// sum of |coefficient| over the canonical terms of each operand
    pub lhs_stored_abs: Q,
    pub rhs_stored_abs: Q,
    pub lhs_abs: Poly,
    pub rhs_abs: Poly,
    pub operand_iters: Vec<Option<Result<Outcome, crate::monitor::PanicInfo>>>,
    pub result: Result<Outcome, crate::monitor::PanicInfo>,
}

fn abs_total(p: &Poly) -> Q {
    p.terms.values().map(|c| c.abs()).fold(Q::zero(), |a, b| a + b)
}

fn abs_sum(a: &Q, b: &Q) -> Q {
    a + b + qi(1)
}

type Entry = (&'static str, &'static str, &'static str, fn(&mut Rng, &Cfg) -> Exec);

macro_rules! bin {
    ($v:ident, $op:literal, $L:ty, $R:ty, |$a:ident, $b:ident| $e:expr) => {{
        fn run(rng: &mut Rng, cfg: &Cfg) -> Exec {
            let l = <$L as Operand>::generate(rng, cfg);
            let r = <$R as Operand>::generate(rng, cfg);
            let mut fp = Fp::new();
            fp.str($op).str(<$L as Operand>::KIND).str(<$R as Operand>::KIND);
            l.fp(&mut fp);
            r.fp(&mut fp);
            let result = probe(|| {
                let $a = &l;
                let $b = &r;
                let out = $e;
                Res::outcome(&out)
            });
            Exec {
                op: $op,
                lhs_kind: <$L as Operand>::KIND,
                rhs_kind: <$R as Operand>::KIND,
                lhs: l.canon(),
                rhs: r.canon(),
                lhs_shown: l.show(),
                rhs_shown: r.show(),
                fp: fp.finish(),
                lhs_stored_abs: l.stored_abs(),
                rhs_stored_abs: r.stored_abs(),
                lhs_abs: l.abs_canon(),
                rhs_abs: r.abs_canon(),
                operand_iters: vec![l.iter_outcome(), r.iter_outcome()],
                result,
            }
        }
        $v.push(($op, <$L as Operand>::KIND, <$R as Operand>::KIND, run as fn(&mut Rng, &Cfg) -> Exec));
    }};
}

macro_rules! un {
    ($v:ident, $op:literal, $L:ty, |$a:ident| $e:expr) => {{
        fn run(rng: &mut Rng, cfg: &Cfg) -> Exec {
            let l = <$L as Operand>::generate(rng, cfg);
            let mut fp = Fp::new();
            fp.str($op).str(<$L as Operand>::KIND);
            l.fp(&mut fp);
            let result = probe(|| {
                let $a = &l;
                let out = $e;
                Res::outcome(&out)
            });
            Exec {
                op: $op,
                lhs_kind: <$L as Operand>::KIND,
                rhs_kind: "-",
                lhs: l.canon(),
                rhs: Poly::zero(),
                lhs_shown: l.show(),
                rhs_shown: String::new(),
                fp: fp.finish(),
                lhs_stored_abs: l.stored_abs(),
                rhs_stored_abs: Q::zero(),
                lhs_abs: l.abs_canon(),
                rhs_abs: Poly::zero(),
                operand_iters: vec![l.iter_outcome()],
                result,
            }
        }
        $v.push(($op, <$L as Operand>::KIND, "-", run as fn(&mut Rng, &Cfg) -> Exec));
    }};
}

type Dv = v1::DecisionVariable;
type Pm = v1::Parameter;
type Lin = v1::Linear;
type Quad = v1::Quadratic;
type Pol = v1::Polynomial;
type Fun = v1::Function;

pub fn table() -> Vec<Entry> {
    let mut v: Vec<Entry> = vec![];
    // ---- addition
    bin!(v, "add", Num, Lin, |a, b| a.0 + b.clone());
    bin!(v, "add", Num, Quad, |a, b| a.0 + b.clone());
    bin!(v, "add", Num, Pol, |a, b| a.0 + b.clone());
    bin!(v, "add", Num, Fun, |a, b| a.0 + b.clone());
    bin!(v, "add", Num, Dv, |a, b| a.0 + b);
    bin!(v, "add", Num, Pm, |a, b| a.0 + b);
    bin!(v, "add", Lin, Num, |a, b| a.clone() + b.0);
    bin!(v, "add", Lin, Lin, |a, b| a.clone() + b.clone());
    bin!(v, "add", Lin, Quad, |a, b| a.clone() + b.clone());
    bin!(v, "add", Lin, Pol, |a, b| a.clone() + b.clone());
    bin!(v, "add", Lin, Fun, |a, b| a.clone() + b.clone());
    bin!(v, "add", Lin, Dv, |a, b| a.clone() + b);
    bin!(v, "add", Lin, Pm, |a, b| a.clone() + b);
    bin!(v, "add", Quad, Num, |a, b| a.clone() + b.0);
    bin!(v, "add", Quad, Lin, |a, b| a.clone() + b.clone());
    bin!(v, "add", Quad, Quad, |a, b| a.clone() + b.clone());
    bin!(v, "add", Quad, Pol, |a, b| a.clone() + b.clone());
    bin!(v, "add", Quad, Fun, |a, b| a.clone() + b.clone());
    bin!(v, "add", Quad, Dv, |a, b| a.clone() + b);
    bin!(v, "add", Quad, Pm, |a, b| a.clone() + b);
    bin!(v, "add", Pol, Num, |a, b| a.clone() + b.0);
    bin!(v, "add", Pol, Lin, |a, b| a.clone() + b.clone());
    bin!(v, "add", Pol, Quad, |a, b| a.clone() + b.clone());
    bin!(v, "add", Pol, Pol, |a, b| a.clone() + b.clone());
    bin!(v, "add", Pol, Fun, |a, b| a.clone() + b.clone());
    bin!(v, "add", Pol, Dv, |a, b| a.clone() + b);
    bin!(v, "add", Pol, Pm, |a, b| a.clone() + b);
    bin!(v, "add", Fun, Num, |a, b| a.clone() + b.0);
    bin!(v, "add", Fun, Lin, |a, b| a.clone() + b.clone());
    bin!(v, "add", Fun, Quad, |a, b| a.clone() + b.clone());
    bin!(v, "add", Fun, Pol, |a, b| a.clone() + b.clone());
    bin!(v, "add", Fun, Fun, |a, b| a.clone() + b.clone());
    bin!(v, "add", Fun, Dv, |a, b| a.clone() + b);
    bin!(v, "add", Fun, Pm, |a, b| a.clone() + b);
    bin!(v, "add", Dv, Num, |a, b| a + b.0);
    bin!(v, "add", Dv, Lin, |a, b| a + b.clone());
    bin!(v, "add", Dv, Quad, |a, b| a + b.clone());
    bin!(v, "add", Dv, Pol, |a, b| a + b.clone());
    bin!(v, "add", Dv, Fun, |a, b| a + b.clone());
    bin!(v, "add", Dv, Dv, |a, b| a + b);
    bin!(v, "add", Dv, Pm, |a, b| a + b);
    bin!(v, "add", Pm, Num, |a, b| a + b.0);
    bin!(v, "add", Pm, Lin, |a, b| a + b.clone());
    bin!(v, "add", Pm, Quad, |a, b| a + b.clone());
    bin!(v, "add", Pm, Pol, |a, b| a + b.clone());
    bin!(v, "add", Pm, Fun, |a, b| a + b.clone());
    bin!(v, "add", Pm, Dv, |a, b| a + b);
    bin!(v, "add", Pm, Pm, |a, b| a + b);
    // ---- multiplication
    bin!(v, "mul", Num, Lin, |a, b| a.0 * b.clone());
    bin!(v, "mul", Num, Quad, |a, b| a.0 * b.clone());
    bin!(v, "mul", Num, Pol, |a, b| a.0 * b.clone());
    bin!(v, "mul", Num, Fun, |a, b| a.0 * b.clone());
    bin!(v, "mul", Num, Dv, |a, b| a.0 * b);
    bin!(v, "mul", Num, Pm, |a, b| a.0 * b);
    bin!(v, "mul", Lin, Num, |a, b| a.clone() * b.0);
    bin!(v, "mul", Lin, Lin, |a, b| a.clone() * b.clone());
    bin!(v, "mul", Lin, Quad, |a, b| a.clone() * b.clone());
    bin!(v, "mul", Lin, Pol, |a, b| a.clone() * b.clone());
    bin!(v, "mul", Lin, Fun, |a, b| a.clone() * b.clone());
    bin!(v, "mul", Lin, Dv, |a, b| a.clone() * b);
    bin!(v, "mul", Lin, Pm, |a, b| a.clone() * b);
    bin!(v, "mul", Quad, Num, |a, b| a.clone() * b.0);
    bin!(v, "mul", Quad, Lin, |a, b| a.clone() * b.clone());
    bin!(v, "mul", Quad, Quad, |a, b| a.clone() * b.clone());
    bin!(v, "mul", Quad, Pol, |a, b| a.clone() * b.clone());
    bin!(v, "mul", Quad, Fun, |a, b| a.clone() * b.clone());
    bin!(v, "mul", Quad, Dv, |a, b| a.clone() * b);
    bin!(v, "mul", Quad, Pm, |a, b| a.clone() * b);
    bin!(v, "mul", Pol, Num, |a, b| a.clone() * b.0);
    bin!(v, "mul", Pol, Lin, |a, b| a.clone() * b.clone());
    bin!(v, "mul", Pol, Quad, |a, b| a.clone() * b.clone());
    bin!(v, "mul", Pol, Pol, |a, b| a.clone() * b.clone());
    bin!(v, "mul", Pol, Fun, |a, b| a.clone() * b.clone());
    bin!(v, "mul", Pol, Dv, |a, b| a.clone() * b);
    bin!(v, "mul", Pol, Pm, |a, b| a.clone() * b);
    bin!(v, "mul", Fun, Num, |a, b| a.clone() * b.0);
    bin!(v, "mul", Fun, Lin, |a, b| a.clone() * b.clone());
    bin!(v, "mul", Fun, Quad, |a, b| a.clone() * b.clone());
    bin!(v, "mul", Fun, Pol, |a, b| a.clone() * b.clone());
    bin!(v, "mul", Fun, Fun, |a, b| a.clone() * b.clone());
    bin!(v, "mul", Fun, Dv, |a, b| a.clone() * b);
    bin!(v, "mul", Fun, Pm, |a, b| a.clone() * b);
    bin!(v, "mul", Dv, Num, |a, b| a * b.0);
    bin!(v, "mul", Dv, Lin, |a, b| a * b.clone());
    bin!(v, "mul", Dv, Quad, |a, b| a * b.clone());
    bin!(v, "mul", Dv, Pol, |a, b| a * b.clone());
    bin!(v, "mul", Dv, Fun, |a, b| a * b.clone());
    bin!(v, "mul", Dv, Dv, |a, b| a * b);
    bin!(v, "mul", Dv, Pm, |a, b| a * b);
    bin!(v, "mul", Pm, Num, |a, b| a * b.0);
    bin!(v, "mul", Pm, Lin, |a, b| a * b.clone());
    bin!(v, "mul", Pm, Quad, |a, b| a * b.clone());
    bin!(v, "mul", Pm, Pol, |a, b| a * b.clone());
    bin!(v, "mul", Pm, Fun, |a, b| a * b.clone());
    bin!(v, "mul", Pm, Dv, |a, b| a * b);
    bin!(v, "mul", Pm, Pm, |a, b| a * b);
    // ---- subtraction (where the API defines it)
    bin!(v, "sub", Lin, Num, |a, b| a.clone() - b.0);
    bin!(v, "sub", Lin, Lin, |a, b| a.clone() - b.clone());
    bin!(v, "sub", Quad, Num, |a, b| a.clone() - b.0);
    bin!(v, "sub", Quad, Lin, |a, b| a.clone() - b.clone());
    bin!(v, "sub", Quad, Quad, |a, b| a.clone() - b.clone());
    bin!(v, "sub", Pol, Pol, |a, b| a.clone() - b.clone());
    bin!(v, "sub", Fun, Num, |a, b| a.clone() - b.0);
    bin!(v, "sub", Fun, Lin, |a, b| a.clone() - b.clone());
    bin!(v, "sub", Fun, Quad, |a, b| a.clone() - b.clone());
    bin!(v, "sub", Fun, Pol, |a, b| a.clone() - b.clone());
    bin!(v, "sub", Fun, Fun, |a, b| a.clone() - b.clone());
    // ---- negation
    un!(v, "neg", Lin, |a| -a.clone());
    un!(v, "neg", Quad, |a| -a.clone());
    un!(v, "neg", Pol, |a| -a.clone());
    un!(v, "neg", Fun, |a| -a.clone());
    un!(v, "negref", Lin, |a| -a);
    un!(v, "negref", Quad, |a| -a);
    un!(v, "negref", Pol, |a| -a);
    un!(v, "negref", Fun, |a| -a);
    un!(v, "neg", Dv, |a| -a);
    un!(v, "neg", Pm, |a| -a);
    // ---- conversions used by the operators (a degree-raising result must keep every term)
    un!(v, "into", Lin, |a| Quad::from(a.clone()));
    un!(v, "into", Lin, |a| Pol::from(a.clone()));
    un!(v, "into", Lin, |a| Fun::from(a.clone()));
    un!(v, "into", Quad, |a| Pol::from(a.clone()));
    un!(v, "into", Quad, |a| Fun::from(a.clone()));
    un!(v, "into", Pol, |a| Fun::from(a.clone()));
    un!(v, "into", Dv, |a| Lin::from(a));
    un!(v, "into", Dv, |a| Quad::from(a));
    un!(v, "into", Dv, |a| Pol::from(a));
    un!(v, "into", Dv, |a| Fun::from(a));
    un!(v, "into", Pm, |a| Lin::from(a));
    un!(v, "into", Pm, |a| Quad::from(a));
    un!(v, "into", Pm, |a| Pol::from(a));
    un!(v, "into", Pm, |a| Fun::from(a));
    un!(v, "into", Num, |a| Lin::from(a.0));
    un!(v, "into", Num, |a| Quad::from(a.0));
    un!(v, "into", Num, |a| Pol::from(a.0));
    un!(v, "into", Num, |a| Fun::from(a.0));
    v
}

/// number of extra n-ary entries (Sum / Product)
const NARY: u64 = 3;

fn coef_bits_and_abs(p: &Poly) -> Option<(u32, f64)> {
    let mut bits = 0u32;
    let mut s = 0.0;
    for c in p.terms.values() {
        let f = q_to_f64(c);
        bits = bits.max(dyadic_bits(f)?);
        if &q(f) != c {
            return None;
        }
        s += f.abs();
    }
    Some((bits, s))
}

fn abs_poly(p: &Poly) -> Poly {
    Poly {
        terms: p.terms.iter().map(|(k, c)| (k.clone(), c.abs())).collect(),
    }
}

/// judge a result polynomial against the exact one, coefficient by coefficient
#[allow(clippy::too_many_arguments)]
fn judge(
    mon: &mut Monitor,
    label: &str,
    sig_tail: &str,
    expected: &Poly,
    abs_expected: &Poly,
    got: &Outcome,
    exact_mode: bool,
    steps: usize,
    drop_scale: &Q,
    context: &dyn Fn() -> String,
) {
    let mut keys: Vec<&Vec<u64>> = expected.terms.keys().chain(got.canon.terms.keys()).collect();
    keys.sort();
    keys.dedup();
    let zero = Q::zero();
    for k in keys {
        let e = expected.terms.get(k).unwrap_or(&zero);
        let g = got.canon.terms.get(k).unwrap_or(&zero);
        let ok = if exact_mode {
            e == g
        } else {
            let a = abs_expected.terms.get(k).cloned().unwrap_or_else(Q::zero);
            // rounding of the products/sums that feed this coefficient, plus the documented dropping of
            // coefficients <= EPSILON: a drop inside an operand (before the multiplication) is amplified
            // by the other operand's coefficients, hence `drop_scale`
            let bound = gamma(2 * steps + 8) * a + Q::from_integer((steps as u64 + 2).into()) * eps() * drop_scale;
            (e - g).abs() <= bound
        };
        if !ok {
            mon.violation(
                format!("C02.{label}:{sig_tail}"),
                format!(
                    "coefficient of {k:?}: SDK {} ({:e}), exact {} ({:e}); judged {}\n{}\nresult={}",
                    g, q_to_f64(g), e, q_to_f64(e),
                    if exact_mode { "exactly (dyadic certificate)" } else { "within rounding bound + epsilon-drop allowance" },
                    context(), got.shown
                ),
            );
            return;
        }
    }
    if expected.degree() > got.max_degree {
        mon.violation(
            format!("C02.degree:{sig_tail}"),
            format!("exact result has degree {} but the returned type {} holds at most {}\n{}", expected.degree(), got.kind, got.max_degree, context()),
        );
    }
}

fn check_iterator(mon: &mut Monitor, got: &Outcome, sig_tail: &str, context: &dyn Fn() -> String) {
    let mut sum = Poly::zero();
    for (ids, c) in &got.iter_terms {
        if !ids.windows(2).all(|w| w[0] <= w[1]) {
            mon.violation(
                format!("C02.iterator-unsorted:{}", got.kind),
                format!("term iterator of the {} result yielded unsorted ids {ids:?}\n{}", got.kind, context()),
            );
            return;
        }
        sum.add_term(ids.clone(), q(*c));
    }
    if sum != got.canon {
        mon.violation(
            format!("C02.iterator-sum:{}", got.kind),
            format!("sum of the pairs yielded by the term iterator ({}) differs from the message fields ({}) [{sig_tail}]\n{}\nresult={}", sum.pretty(), got.canon.pretty(), context(), got.shown),
        );
    }
}

impl Property for C02 {
    fn id(&self) -> &'static str {
        "C02"
    }
    fn cases(&self, tier: Tier) -> u64 {
        let n = table().len() as u64 + NARY;
        match tier {
            Tier::Quick => n * 1_000,
            Tier::Thorough => n * 150_000,
        }
    }
    fn min_nontrivial(&self, tier: Tier) -> u64 {
        match tier {
            Tier::Quick => 40_000,
            Tier::Thorough => 4_000_000,
        }
    }
    fn rule(&self) -> &'static str {
        "case k exercises entry (k mod N) of a compile-time table of every operator the API defines over {f64, &DecisionVariable, &Parameter, Linear, Quadratic, Polynomial, Function(4 arms)} (+, *, - where defined, unary -, From conversions) plus Sum/Product; operands are generated with up to 8 stored terms over pools of 1-5 ids in hostile representations (unsorted, repeated linear ids and monomials, zeros, non-symmetric COO; no duplicate (row,column) positions in quadratic operands, never the unset oneof). The result is read back through the public message fields and compared coefficient by coefficient with exact rational arithmetic; the result's term iterator must yield sorted ids summing to the message. Non-trivial = both operands non-constant or exact result has >= 2 terms; distinct = fingerprint of (operator, operand kinds, encoded operands)."
    }
    fn assumptions(&self) -> Vec<&'static str> {
        vec![
            "quadratic operands have no duplicated (row,column) position (schema rule); Function operands are never the unset oneof (arithmetic on it panics by contract)",
            "D regime: when all operand coefficients are dyadic and (sum|a|+1)(sum|b|+1)*2^(bits) < 2^52 every IEEE operation is exact and coefficients must be bit-equal; otherwise gamma_k*|a|o|b| + m*EPSILON (documented epsilon dropping)",
            "exact model: num BigRational",
        ]
    }

    fn run_case(&self, k: u64, rng: &mut Rng, _env: &Env, mon: &mut Monitor) {
        let tbl = table();
        let n = tbl.len() as u64 + NARY;
        let idx = k % n;
        let regime = if rng.chance(3, 4) { Regime::D } else { Regime::R };
        let long = k % 13 == 5;
        let np = if long { 8 + rng.usize_below(40) } else { 1 + rng.usize_below(5) };
        let mut f = FnCfg::new(id_pool(rng, np, true), regime);
        f.dup_positions = false;
        f.allow_unset = false;
        f.max_degree = 3;
        f.max_terms = if long { 90 } else if rng.bool() { 4 } else { 8 };
        if long {
            // keep products of two long operands affordable for the exact model
            f.max_degree = 2;
        }
        let cfg = Cfg { f };
        if idx >= tbl.len() as u64 {
            return nary(idx - tbl.len() as u64, rng, &cfg, mon);
        }
        let (op, lk, rk, run) = tbl[idx as usize];
        let ex = run(rng, &cfg);
        mon.eval();
        mon.facet(&format!("{op}:{lk},{rk}"));
        let expected = match op {
            "add" => ex.lhs.add(&ex.rhs),
            "sub" => ex.lhs.sub(&ex.rhs),
            "mul" => ex.lhs.mul(&ex.rhs),
            "neg" | "negref" => ex.lhs.neg(),
            "into" => ex.lhs.clone(),
            _ => unreachable!(),
        };
        let abs_expected = match op {
            "add" | "sub" => ex.lhs_abs.add(&ex.rhs_abs),
            "mul" => ex.lhs_abs.mul(&ex.rhs_abs),
            _ => ex.lhs_abs.clone(),
        };
        let exact_mode = match (coef_bits_and_abs(&ex.lhs), coef_bits_and_abs(&ex.rhs)) {
            (Some((ba, sa)), Some((bb, sb))) => {
                // stored pieces (k/8, halves of them in symmetrised entries) may need more bits than their sums
                let (ba, bb) = (ba.max(4), bb.max(4));
                // stored (unmerged) magnitudes can exceed the canonical ones by the merge factor
                let slack = 64.0;
                (sa * slack + 1.0) * (sb * slack + 1.0) * 2f64.powi((ba + bb) as i32) < 2f64.powi(52) && regime == Regime::D
            }
            _ => false,
        };
        let steps = (ex.lhs.terms.len() + 8) * (ex.rhs.terms.len() + 8);
        let nontrivial = (ex.lhs.degree() > 0 && (ex.rhs.degree() > 0 || rk == "-")) || expected.terms.len() >= 2;
        if nontrivial {
            mon.nontrivial(ex.fp);
        }
        let ctx = || format!("op={op} lhs({lk})={} rhs({rk})={}", ex.lhs_shown, ex.rhs_shown);
        // the term iterator of the (un-normalised) operands themselves
        for it in ex.operand_iters.iter().flatten() {
            mon.eval();
            match it {
                Ok(out) => check_iterator(mon, out, "operand", &ctx),
                Err(p) => mon.violation(format!("C02.panic:{}", panic_site(p)), format!("term iterator of an operand panicked: {} at {}\n{}", p.message, p.location, ctx())),
            }
        }
        match &ex.result {
            Err(p) => mon.violation(
                format!("C02.panic:{}", panic_site(p)),
                format!("{op} on ({lk},{rk}) panicked: {} at {}\n{}", p.message, p.location, ctx()),
            ),
            Ok(out) => {
                if mon.want_sample() && nontrivial {
                    mon.sample(json!({"op": op, "lhs_kind": lk, "rhs_kind": rk, "lhs": ex.lhs_shown, "rhs": ex.rhs_shown, "result": out.shown, "exact": expected.pretty()}));
                }
                mon.facet(if exact_mode { "judged:exact" } else { "judged:bounded" });
                let one = qi(1);
                // a plain number is multiplied into the stored coefficients in place: no conversion, no
                // merging, hence no epsilon dropping at all (a tiny non-zero scalar is not a zero scalar)
                let scalar_mul = op == "mul" && (lk == "f64" || rk == "f64");
                let drop_scale = if scalar_mul {
                    Q::zero()
                } else if op == "mul" {
                    abs_sum(&ex.lhs_stored_abs, &ex.rhs_stored_abs)
                } else {
                    one
                };
                judge(mon, op, &format!("{lk},{rk}"), &expected, &abs_expected, out, exact_mode, steps, &drop_scale, &ctx);
                check_iterator(mon, out, &format!("{op}:{lk},{rk}"), &ctx);
            }
        }
    }
}

/// Sum / Product: the n-ary forms of the same sum / product
fn nary(which: u64, rng: &mut Rng, cfg: &Cfg, mon: &mut Monitor) {
    let n = rng.usize_below(5);
    mon.eval();
    let exact_mode = cfg.f.regime == Regime::D;
    match which {
        0 => {
            let xs: Vec<v1::Linear> = (0..n).map(|_| gen_linear(rng, &cfg.f)).collect();
            let mut expected = Poly::zero();
            let mut abs_e = Poly::zero();
            for x in &xs {
                expected = expected.add(&canon_linear(x));
                abs_e = abs_e.add(&x.abs_canon());
            }
            mon.facet(&format!("sum:Linear[{n}]"));
            let shown = format!("{xs:?}");
            let r = probe(|| xs.clone().into_iter().sum::<v1::Linear>().outcome());
            finish_nary(mon, "sum", "Linear", r, &expected, &abs_e, exact_mode, n, &qi(1), &shown);
        }
        1 => {
            let xs: Vec<v1::Function> = (0..n).map(|_| <v1::Function as Operand>::generate(rng, cfg)).collect();
            let mut expected = Poly::zero();
            let mut abs_e = Poly::zero();
            for x in &xs {
                expected = expected.add(&canon_function(x));
                abs_e = abs_e.add(&x.abs_canon());
            }
            mon.facet(&format!("sum:Function[{n}]"));
            let shown = format!("{xs:?}");
            let r = probe(|| xs.clone().into_iter().sum::<v1::Function>().outcome());
            finish_nary(mon, "sum", "Function", r, &expected, &abs_e, exact_mode, n, &qi(1), &shown);
        }
        _ => {
            let mut small = Cfg { f: cfg.f.clone() };
            small.f.max_degree = 2;
            small.f.max_terms = 3;
            let n = n.min(3);
            let xs: Vec<v1::Function> = (0..n).map(|_| <v1::Function as Operand>::generate(rng, &small)).collect();
            let mut expected = Poly::constant(qi(1));
            let mut abs_e = Poly::constant(qi(1));
            for x in &xs {
                expected = expected.mul(&canon_function(x));
                abs_e = abs_e.mul(&x.abs_canon());
            }
            mon.facet(&format!("product:Function[{n}]"));
            let shown = format!("{xs:?}");
            let r = probe(|| xs.clone().into_iter().product::<v1::Function>().outcome());
            // products of three operands: certify exactness only for small magnitudes
            let mag: f64 = abs_e.terms.values().map(q_to_f64).sum();
            let exact_ok = exact_mode && mag < 2f64.powi(30);
            let mut scale = qi(1);
            for x in &xs {
                scale = scale * (x.stored_abs() + qi(1));
            }
            finish_nary(mon, "product", "Function", r, &expected, &abs_e, exact_ok, 64 * (n + 1), &scale, &shown);
        }
    }
}

#[allow(clippy::too_many_arguments)]
fn finish_nary(
    mon: &mut Monitor,
    op: &str,
    kind: &str,
    r: Result<Outcome, crate::monitor::PanicInfo>,
    expected: &Poly,
    abs_e: &Poly,
    exact_mode: bool,
    n: usize,
    drop_scale: &Q,
    shown: &str,
) {
    let mut fp = Fp::new();
    fp.str(op).str(kind).str(shown);
    if expected.terms.len() >= 2 {
        mon.nontrivial(fp.finish());
    }
    let ctx = || format!("{op}::<{kind}> over {shown}");
    match r {
        Err(p) => mon.violation(format!("C02.panic:{}", panic_site(&p)), format!("{} panicked: {} at {}", ctx(), p.message, p.location)),
        Ok(out) => {
            judge(mon, op, kind, expected, abs_e, &out, exact_mode, 16 * (n + 1), drop_scale, &ctx);
            check_iterator(mon, &out, op, &ctx);
        }
    }
}

#[allow(dead_code)]
fn _unused(_: BTreeMap<u64, u64>) {}
