//! C13 — integer-slack conversions preserve the feasible set.

use crate::build::*;
use crate::exact::*;
use crate::monitor::{fp_msg, panic_site, probe, Fp, Monitor};
use crate::rng::Rng;
use crate::{Env, Property, Tier};
use num::{Signed, ToPrimitive, Zero};
use ommx::v1;
use serde_json::json;
use std::collections::BTreeMap;

pub struct C13;

#[derive(Debug)]
enum Outcome {
    Ok(Option<f64>),
    Infeasible { lower: f64, upper: f64 },
    Err(String),
}

/// p*k/q computed with one division, so that the f64 is the nearest double of a small rational
fn rational_const(rng: &mut Rng, family: u64) -> f64 {
    let dens: &[i64] = match family {
        0 => &[1],
        1 => &[1, 2, 4, 8],
        2 => &[1, 3, 6, 12],
        3 => &[1, 2, 5, 10],
        _ => &[1, 2, 3, 6, 7],
    };
    let q = *rng.pick(dens);
    (rng.range(-6, 6) * rng.range(0, 3)) as f64 / q as f64
}

fn rational_coef(rng: &mut Rng, family: u64) -> f64 {
    let dens: &[i64] = match family {
        0 => &[1],
        1 => &[1, 2, 4, 8],
        2 => &[1, 3, 6, 12],
        3 => &[1, 2, 5, 10],
        _ => &[1, 2, 3, 6, 7],
    };
    let q = *rng.pick(dens);
    let mut p = rng.range(-6, 6);
    if p == 0 {
        p = 1;
    }
    p as f64 / q as f64
}

struct Case {
    inst: v1::Instance,
    cid: u64,
    /// expected rejection class, if any
    reject: Option<&'static str>,
    vars: Vec<(u64, i64, i64)>,
    /// a semi-integer variable: its domain is {0} in addition to the integers of its bound
    semi: Option<u64>,
}

fn gen_case(rng: &mut Rng) -> Case {
    let scenario = rng.below(12);
    // one case in 25 has no decision variable at all (a constant inequality); not in the scenarios
    // that need a variable
    let nv = if scenario != 2 && rng.chance(1, 25) { 0 } else { 1 + rng.usize_below(3) };
    let mut inst = v1::Instance::default();
    let mut vars = vec![];
    let idpool: Vec<u64> = if rng.bool() { vec![0, 1, 2, 3, 4] } else { vec![2, 7, 11, 1 << 33, (1 << 40) + 5] };
    let mut ids = idpool.clone();
    rng.shuffle(&mut ids);
    for (i, id) in ids.iter().take(nv).enumerate() {
        let (kind, l, u) = if rng.chance(1, 3) {
            // one binary variable in four carries an explicit degenerate bound ([0,0] or [1,1]: a binary fixed
            // through its bound)
            if rng.chance(1, 4) {
                let v = rng.range(0, 1);
                (KIND_BINARY, v, v)
            } else {
                (KIND_BINARY, 0, 1)
            }
        } else {
            let l = rng.range(-4, 3);
            let u = rng.range(l, 4);
            (KIND_INTEGER, l, u)
        };
        let kind = if scenario == 2 && i == 0 { *rng.pick(&[KIND_CONTINUOUS, KIND_CONTINUOUS, KIND_SEMI_CONTINUOUS]) } else { kind };
        // scenario 11: a semi-integer variable with bound [l, u], l >= 1 (domain {0} u {l..u})
        let (kind, l, u) = if scenario == 11 && i == 0 { let l = rng.range(1, 3); (KIND_SEMI_INTEGER, l, rng.range(l, 4)) } else { (kind, l, u) };
        let b = if kind == KIND_BINARY && (l, u) == (0, 1) && rng.bool() { None } else { Some((l as f64, u as f64)) };
        // scenario 10: the first variable has no upper end; with a negative coefficient (below) the
        // inequality is unbounded below and no finite slack range exists
        let b = if scenario == 10 && i == 0 { if rng.bool() { Some((l as f64, f64::INFINITY)) } else { None } } else { b };
        let kind = if scenario == 10 && i == 0 { KIND_INTEGER } else { kind };
        inst.decision_variables.push(dvar(*id, kind, b));
        vars.push((*id, l, u));
    }
    // an unrelated variable with a larger id so that "fresh id" is not trivially max of used ones
    // (half of them sit directly above the largest id and/or are dependent variables left by substitute())
    if nv > 0 && rng.bool() {
        let top = vars.iter().map(|v| v.0).max().unwrap();
        let uid = if rng.bool() { 5000 + rng.below(10) } else { top + 1 };
        if vars.iter().all(|v| v.0 != uid) {
            inst.decision_variables.push(dvar(uid, KIND_CONTINUOUS, Some((0.0, 1.0))));
            if rng.bool() {
                inst.decision_variable_dependency.insert(uid, f_const(0.5));
            }
        }
    }
    let family = rng.below(5);
    let used: Vec<u64> = vars.iter().map(|v| v.0).collect();
    let mut lin: Vec<(u64, f64)> = vec![];
    for id in &used {
        if rng.chance(4, 5) {
            lin.push((*id, rational_coef(rng, family)));
        }
    }
    if scenario == 2 && !lin.iter().any(|(i, _)| *i == used[0]) {
        lin.push((used[0], rational_coef(rng, family)));
    }
    let constant = if rng.chance(3, 4) { rational_const(rng, family) } else { 0.0 };
    // scenario 10: large enough that the inequality can be violated (otherwise it is relaxed as always satisfied)
    let constant = if scenario == 10 { 60.0 } else { constant };
    if (scenario == 10 || scenario == 11) && nv > 0 {
        lin.retain(|(i, _)| *i != used[0]);
        lin.push((used[0], if scenario == 10 { -rational_coef(rng, family).abs() } else { rational_coef(rng, family) }));
    }
    let f = if nv == 0 {
        f_const(constant)
    } else if scenario == 2 || scenario == 10 {
        f_linear(linear(lin, constant))
    } else if rng.chance(1, 3) {
        let mut entries = vec![];
        let mut pos = std::collections::BTreeSet::new();
        for _ in 0..1 + rng.below(3) {
            let (a, b) = (*rng.pick(&used), *rng.pick(&used));
            let key = (a.min(b), a.max(b));
            if pos.insert(key) {
                entries.push((key.0, key.1, rational_coef(rng, family)));
            }
        }
        f_quadratic(quadratic(entries, Some(linear(lin, constant))))
    } else if rng.chance(1, 8) {
        f_const(constant)
    } else {
        f_linear(linear(lin, constant))
    };
    let cid = *rng.pick(&[0u64, 1, 5, 42, 1 << 20]);
    let equality = if scenario == 1 { EQ_ZERO } else { LE_ZERO };
    let mut c = constraint(cid, equality, Some(f));
    c.name = Some("c".into());
    inst.constraints.push(c);
    // another constraint that must stay untouched
    inst.constraints.push(constraint(cid + 1, EQ_ZERO, Some(if nv == 0 { f_const(0.0) } else { f_linear(linear(vec![(used[0], 1.0)], 0.0)) })));
    // further untouched constraints with ids on both sides of the target, stored in any order
    // (a message need not list constraints by ascending id; restore_constraint appends at the end)
    if nv > 0 && rng.chance(1, 2) {
        let mut extra: Vec<u64> = vec![cid + 2, cid + 3, cid + 10, cid + 1000];
        if cid >= 5 {
            extra.extend([cid - 1, cid - 2, cid - 5]);
        }
        if cid >= 1 {
            extra.push(0);
        }
        rng.shuffle(&mut extra);
        let mut seen = std::collections::BTreeSet::from([cid, cid + 1]);
        let n = 1 + rng.usize_below(4);
        for e in extra.into_iter().filter(|e| seen.insert(*e)).take(n) {
            let v = *rng.pick(&used);
            let eq = if rng.bool() { EQ_ZERO } else { LE_ZERO };
            inst.constraints.push(constraint(e, eq, Some(f_linear(linear(vec![(v, rational_coef(rng, family))], rational_const(rng, family))))));
        }
    }
    match rng.below(4) {
        0 => {}
        1 => inst.constraints.sort_by_key(|c| c.id),
        2 => inst.constraints.sort_by_key(|c| std::cmp::Reverse(c.id)),
        _ => rng.shuffle(&mut inst.constraints),
    }
    inst.objective = Some(f_const(0.0));
    inst.sense = SENSE_MIN;
    let (ask, reject) = match scenario {
        0 => (cid + 777, Some("unknown-constraint-id")),
        1 => (cid, Some("not-an-inequality")),
        2 => (cid, Some("continuous-variable")),
        10 if nv > 0 => (cid, Some("unbounded-slack-range")),
        _ => (cid, None),
    };
    let semi = if scenario == 11 && nv > 0 { Some(used[0]) } else { None };
    Case { inst, cid: ask, reject, vars, semi }
}

fn classify(e: anyhow::Error) -> Outcome {
    if let Some(ommx::InfeasibleDetected::InequalityConstraintBound { bound, .. }) = e.downcast_ref::<ommx::InfeasibleDetected>() {
        return Outcome::Infeasible {
            lower: bound.lower(),
            upper: bound.upper(),
        };
    }
    Outcome::Err(format!("{e:#}"))
}

/// all lattice points of the box
fn lattice(vars: &[(u64, i64, i64)], semi: Option<u64>) -> Vec<BTreeMap<u64, Q>> {
    let mut pts: Vec<BTreeMap<u64, Q>> = vec![BTreeMap::new()];
    for (id, l, u) in vars {
        let mut next = vec![];
        let mut values: Vec<i64> = (*l..=*u).collect();
        if semi == Some(*id) && !values.contains(&0) {
            values.push(0);
        }
        for p in &pts {
            for v in values.iter().cloned() {
                let mut q = p.clone();
                q.insert(*id, qi(v));
                next.push(q);
            }
        }
        pts = next;
    }
    pts
}

fn holds_le(v: &Q) -> bool {
    v < &q(1e-6)
}
fn holds_eq(v: &Q) -> bool {
    v.abs() < q(1e-6)
}

impl Property for C13 {
    fn id(&self) -> &'static str {
        "C13"
    }
    fn cases(&self, tier: Tier) -> u64 {
        match tier {
            Tier::Quick => 80_000,
            Tier::Thorough => 6_000_000,
        }
    }
    fn min_nontrivial(&self, tier: Tier) -> u64 {
        match tier {
            Tier::Quick => 16_000,
            Tier::Thorough => 1_200_000,
        }
    }
    fn rule(&self) -> &'static str {
        "each case: an instance with 1-3 integer/binary variables (one in 25 without any variable and a constant inequality) with integer boxes inside [-4,4] (ids small or sparse), an inequality f(x)<=0 of degree <= 2 whose coefficients are integers or p/q from one denominator family (lcm <= 42), a second untouched constraint and in half the cases 1-4 more with ids on both sides of the target, the list stored ascending, descending or shuffled, one case in eight after a relax->restore history; even cases call convert_inequality_to_equality_with_integer_slack(id, max) (max huge, or 0..6 in one of six cases; for a linear f the slack range the conversion needs is known independently, so a refusal must be justified by it), odd cases add_integer_slack_to_inequality(id, ub in 1..6); one case in four is a rejection scenario (unknown constraint id, an equality constraint, a continuous or semi-continuous variable used, an inequality that is unbounded below because a variable has no upper end - also with the limit u64::MAX); one case in twelve has a semi-integer variable (domain {0} and the integers of its bound): it may be refused, and if it is accepted the feasible set over that domain must be preserved. Every lattice point of the box is enumerated: f(x)<=0 (SDK rule: < 1e-6) must hold iff some integer slack value in the introduced bound satisfies the new constraint (exact rational evaluation of the new constraint at the lattice point as a polynomial in the slack alone: for degree <= 1 only the slack values around its root and the ends of the slack bound can qualify, otherwise every slack value is tried; the new variable is recognised by its fresh id, nothing else about its position or the shape of the new function is assumed). Relaxed => every point satisfies it; InfeasibleDetected => no point does; rejections leave the instance equal. Non-trivial = a non-constant inequality; distinct = fingerprint of (instance, method, argument)."
    }
    fn assumptions(&self) -> Vec<&'static str> {
        vec![
            "slack_upper_bound >= 1; coefficients have small denominators so that distinct values of f and f+s/a are >= 1/42*1/... apart and the 1e-6 tolerance cannot blur a verdict",
            "a refusal because the slack range exceeds the caller's limit is only checked for leaving the instance unchanged (the range is the SDK's interval estimate)",
        ]
    }

    fn run_case(&self, k: u64, rng: &mut Rng, _env: &Env, mon: &mut Monitor) {
        let mut case = gen_case(rng);
        // one case in eight has a relax -> restore history on some constraint before the call
        // (restore_constraint appends, so the stored order changes the way real use changes it)
        if rng.chance(1, 8) {
            let victim = rng.pick(&case.inst.constraints).id;
            let start = case.inst.clone();
            if let Ok(Some(i)) = probe(move || {
                let mut i = start;
                let ok = i.relax_constraint(victim, "history".into(), Default::default()).is_ok() && i.restore_constraint(victim).is_ok();
                ok.then_some(i)
            }) {
                case.inst = i;
                mon.facet("history:relax-then-restore-before-the-call");
            }
        }
        let convert = k % 2 == 0;
        let method = if convert { "convert" } else { "add_slack" };
        let small_max = convert && rng.chance(1, 6);
        let arg: u64 = if convert {
            if small_max {
                rng.below(7)
            } else {
                1 << 40
            }
        } else {
            1 + rng.below(6)
        };
        let mut arg = arg;
        if case.reject == Some("unbounded-slack-range") {
            if !convert {
                // adding a slack of a given size to an inequality that is unbounded below is outside the statement
                mon.facet("unbounded-inequality/add_slack:not-judged");
                return;
            }
            if rng.bool() {
                arg = u64::MAX; // "no limit": an infinite range is still above it
            }
        }
        if case.semi.is_some() {
            mon.facet("semi-integer-variable");
        }
        let before = case.inst.clone();
        let target = before.constraints.iter().find(|c| c.id == case.cid);
        let f = target.and_then(|c| c.function.clone()).unwrap_or_default();
        let fpoly = canon_function(&f);
        if fpoly.degree() > 0 {
            let mut fp = Fp::new();
            fp.u64(fp_msg(&before)).u64(convert as u64).u64(arg).u64(case.cid);
            mon.nontrivial(fp.finish());
        }
        mon.eval();
        let r = probe(|| {
            let mut i = case.inst.clone();
            let out = if convert {
                i.convert_inequality_to_equality_with_integer_slack(case.cid, arg).map(|_| None)
            } else {
                i.add_integer_slack_to_inequality(case.cid, arg)
            };
            let out = match out {
                Ok(b) => Outcome::Ok(b),
                Err(e) => classify(e),
            };
            (i, out)
        });
        let ctx = |after: &v1::Instance, out: &Outcome| format!("method={method} constraint={} argument={arg}\noutcome={out:?}\nbefore={before:?}\nafter={after:?}", case.cid);
        let (after, out) = match r {
            Err(p) => {
                mon.violation(format!("C13.panic:{}", panic_site(&p)), format!("{method} panicked: {} at {}\nbefore={before:?}", p.message, p.location));
                return;
            }
            Ok(x) => x,
        };
        // ---- rejection scenarios
        if let Some(class) = case.reject {
            mon.facet(&format!("{method}/reject:{class}"));
            match &out {
                Outcome::Ok(_) => mon.violation(format!("C13.accepted:{class}:{method}"), ctx(&after, &out)),
                _ => {
                    if after != before {
                        mon.violation(format!("C13.rejection-modified-instance:{class}:{method}"), ctx(&after, &out));
                    }
                }
            }
            return;
        }
        let pts = lattice(&case.vars, case.semi);
        let values: Vec<(usize, Q)> = pts.iter().enumerate().map(|(i, p)| (i, fpoly.eval(p).expect("box covers all ids"))).collect();
        let feasible: Vec<bool> = values.iter().map(|(_, v)| holds_le(v)).collect();
        let n_feasible = feasible.iter().filter(|b| **b).count();
        mon.facet_n("lattice-points-enumerated", pts.len() as u64);
        // For a plainly LINEAR f (every variable stored once, no product) any interval analysis over the box is
        // exact: its ends are min f and max f, attained at lattice corners. Away from the tolerance (|.| >= 1e-3)
        // "always holds" and "can never hold" are then known independently, and the statement fixes the branch:
        // moved to the removed constraints unchanged / an infeasibility error.
        let plainly_linear = case.semi.is_none() && fpoly.degree() == 1 && !values.is_empty() && {
            let st = stored_terms(&f);
            let mut seen = std::collections::BTreeSet::new();
            st.iter().all(|(ids, _)| ids.len() <= 1 && seen.insert(ids.clone()))
        };
        if plainly_linear {
            let min_f = values.iter().map(|(_, v)| v.clone()).min().unwrap();
            let max_f = values.iter().map(|(_, v)| v.clone()).max().unwrap();
            let moved = matches!(&out, Outcome::Ok(_)) && after.constraints.iter().all(|c| c.id != case.cid);
            if min_f >= q(1e-3) {
                mon.facet(&format!("{method}/linear-f-can-never-hold"));
                if !matches!(&out, Outcome::Infeasible { .. }) {
                    mon.violation(format!("C13.never-holds-but-no-infeasibility-error:{method}"), format!("f is linear with min f = {min_f} > 0 over the box, so interval analysis shows that it can never hold\n{}", ctx(&after, &out)));
                    return;
                }
            } else if max_f <= q(-1e-3) {
                mon.facet(&format!("{method}/linear-f-always-holds"));
                if !moved {
                    mon.violation(format!("C13.always-holds-but-not-moved:{method}"), format!("f is linear with max f = {max_f} < 0 over the box, so interval analysis shows that it always holds\n{}", ctx(&after, &out)));
                    return;
                }
            }
        }
        match &out {
            Outcome::Err(e) => {
                if after != before {
                    mon.violation(format!("C13.rejection-modified-instance:valid-inequality:{method}"), ctx(&after, &out));
                }
                // with a small limit a refusal is legitimate whenever the SDK's (interval) estimate of the
                // slack range exceeds it; the estimate is the SDK's own, so such refusals are only required
                // to leave the instance unchanged (the wording of the error is not relied upon)
                let _ = e;
                // For a LINEAR f over the box the interval bound of a*f is exact (attained at a lattice corner), so
                // the slack range the conversion needs is known independently: R = -a * min f with a = the content
                // factor (lcm of the denominators / gcd of the numerators of all coefficients). A refusal is then
                // justified exactly when R exceeds the caller's limit.
                if convert && case.semi.is_none() && fpoly.degree() == 1 && !values.is_empty() {
                    let mut den_lcm = num::BigInt::from(1);
                    let mut num_gcd = num::BigInt::from(0);
                    for c in fpoly.terms.values() {
                        den_lcm = num::integer::lcm(den_lcm.clone(), c.denom().clone());
                        num_gcd = num::integer::gcd(num_gcd.clone(), c.numer().clone());
                    }
                    if !num_gcd.is_zero() {
                        // a*c is an integer for every c  <=>  a is a multiple of lcm(den)/gcd(num) ... the least such a
                        let mut scaled_gcd = num::BigInt::from(0);
                        for c in fpoly.terms.values() {
                            scaled_gcd = num::integer::gcd(scaled_gcd.clone(), (c * Q::from_integer(den_lcm.clone())).to_integer());
                        }
                        let a = Q::new(den_lcm.clone(), scaled_gcd);
                        let min_f = values.iter().map(|(_, v)| v.clone()).min().unwrap();
                        let needed = -(a * min_f);
                        if needed <= Q::from_integer(num::BigInt::from(arg)) {
                            mon.violation(
                                "C13.rejected-although-slack-range-within-limit:convert",
                                format!("the conversion was refused although the slack range it needs, -a*min f = {needed}, does not exceed the limit {arg}\n{}", ctx(&after, &out)),
                            );
                        } else {
                            mon.facet("convert/range-above-limit-rejected:confirmed-for-linear-f");
                        }
                        return;
                    }
                }
                if case.semi.is_some() {
                    // a semi-integer variable (domain {0} u [l,u]) may be refused like a continuous one; if it
                    // is accepted, the feasible set over that domain must be preserved (checked below)
                    mon.facet("semi-integer-variable/rejected");
                } else if small_max {
                    mon.facet("convert/range-above-limit-rejected");
                } else {
                    mon.violation(format!("C13.rejected-valid-inequality:{method}"), ctx(&after, &out));
                }
            }
            Outcome::Infeasible { lower, upper } => {
                mon.facet(&format!("{method}/infeasible-detected"));
                if after != before {
                    mon.violation(format!("C13.rejection-modified-instance:infeasible:{method}"), ctx(&after, &out));
                }
                if n_feasible > 0 {
                    let all_zero = values.iter().zip(feasible.iter()).filter(|(_, f)| **f).all(|((_, v), _)| v.abs() <= q(1e-9));
                    let sig = if all_zero && *lower <= 1e-9 {
                        format!("C13.infeasible-reported-but-feasible:rounding-noise-in-interval-bound:{method}")
                    } else {
                        format!("C13.infeasible-reported-but-feasible:{method}")
                    };
                    let witness = values.iter().zip(feasible.iter()).find(|(_, f)| **f).map(|((i, v), _)| format!("x={:?} gives f(x)={v}", pts[*i])).unwrap_or_default();
                    mon.violation(sig, format!("InfeasibleDetected with bound [{lower:e}, {upper:e}] although {n_feasible} lattice point(s) satisfy the inequality, e.g. {witness}\n{}", ctx(&after, &out)));
                }
            }
            Outcome::Ok(b) => {
                let c_after = after.constraints.iter().find(|c| c.id == case.cid);
                let relaxed = after.removed_constraints.iter().find(|r| r.constraint.as_ref().map_or(false, |c| c.id == case.cid));
                // the other constraint, the variables before, the objective stay
                let other_before: BTreeMap<u64, &v1::Constraint> = before.constraints.iter().filter(|c| c.id != case.cid).map(|c| (c.id, c)).collect();
                let other_after: BTreeMap<u64, &v1::Constraint> = after.constraints.iter().filter(|c| c.id != case.cid).map(|c| (c.id, c)).collect();
                let n_other_after = after.constraints.iter().filter(|c| c.id != case.cid).count();
                // variables are identified by id: the new one is the one the instance did not define before
                // (where the SDK puts it in the list is not part of the property)
                let old_ids: std::collections::BTreeSet<u64> = before.decision_variables.iter().map(|v| v.id).collect();
                let kept: Vec<v1::DecisionVariable> = after.decision_variables.iter().filter(|v| old_ids.contains(&v.id)).cloned().collect();
                let added: Vec<&v1::DecisionVariable> = after.decision_variables.iter().filter(|v| !old_ids.contains(&v.id)).collect();
                if other_before != other_after || n_other_after != other_before.len() || after.objective != before.objective || !crate::gen::same_variables(&kept, &before.decision_variables) {
                    mon.violation(format!("C13.unrelated-parts-changed:{method}"), ctx(&after, &out));
                }
                match (c_after, relaxed) {
                    (None, Some(r)) => {
                        mon.facet(&format!("{method}/relaxed-as-always-satisfied"));
                        if n_feasible != pts.len() {
                            let bad = values.iter().zip(feasible.iter()).find(|(_, f)| !**f).map(|((i, v), _)| format!("x={:?} gives f(x)={v}", pts[*i])).unwrap_or_default();
                            mon.violation(format!("C13.relaxed-but-violable:{method}"), format!("the inequality was moved to the removed constraints as always satisfied, but {bad}\n{}", ctx(&after, &out)));
                        }
                        if r.constraint.as_ref() != target {
                            mon.violation(format!("C13.relaxed-constraint-changed:{method}"), ctx(&after, &out));
                        }
                        if !added.is_empty() {
                            mon.violation(format!("C13.relaxed-but-variable-added:{method}"), ctx(&after, &out));
                        }
                        if !convert && b.is_some() {
                            mon.violation("C13.relaxed-but-coefficient-returned:add_slack", ctx(&after, &out));
                        }
                    }
                    (Some(cn), None) => {
                        mon.facet(&format!("{method}/slack-introduced"));
                        if added.len() != 1 || after.decision_variables.len() != before.decision_variables.len() + 1 {
                            // a repeated old id counts here as well: the slack id must be fresh
                            let sig = if after.decision_variables.len() == before.decision_variables.len() + 1 { "slack-id-not-fresh" } else { "slack-variable-count" };
                            mon.violation(format!("C13.{sig}:{method}"), ctx(&after, &out));
                            return;
                        }
                        let s = added[0];
                        let (sl, su) = crate::gen::effective_bound(s);
                        // an integer slack with finite integer bounds (a binary one is an integer in [0,1])
                        if !(s.kind == KIND_INTEGER || s.kind == KIND_BINARY) || !sl.is_finite() || !su.is_finite() || sl > su || sl != sl.trunc() || su != su.trunc() {
                            mon.violation(format!("C13.slack-variable-shape:{method}"), format!("slack variable {s:?}\n{}", ctx(&after, &out)));
                            return;
                        }
                        if !convert && su - sl != arg as f64 {
                            mon.violation("C13.slack-upper-bound:add_slack", format!("slack bound [{sl}, {su}] but the caller asked for a slack of range {arg}\n{}", ctx(&after, &out)));
                        }
                        if convert && su - sl > arg as f64 {
                            mon.violation("C13.slack-range-above-limit:convert", format!("slack range [{sl}, {su}] exceeds max_integer_range {arg}\n{}", ctx(&after, &out)));
                        }
                        let expected_eq = if convert { EQ_ZERO } else { LE_ZERO };
                        if cn.equality != expected_eq {
                            mon.violation(format!("C13.equality-kind:{method}"), ctx(&after, &out));
                            return;
                        }
                        let gpoly = canon_opt_function(&cn.function);
                        let coef = gpoly.coeff(&[s.id]);
                        if !convert {
                            match b {
                                Some(bv) => {
                                    // a coefficient <= EPSILON is dropped by the documented normalisation
                                    if !(f64_eq_q(*bv, &coef) || (coef.is_zero() && bv.abs() <= f64::EPSILON)) {
                                        mon.violation("C13.returned-coefficient:add_slack", format!("returned b={bv:e} but the slack coefficient in the constraint is {coef}\n{}", ctx(&after, &out)));
                                    }
                                }
                                None => mon.violation("C13.returned-coefficient:add_slack", format!("slack introduced but no coefficient returned\n{}", ctx(&after, &out))),
                            }
                        }
                        // brute force: feasibility of x is unchanged. For each lattice point the new constraint is a
                        // polynomial in the slack alone, g(x, s) = A + B*s (+ higher powers, then every slack value
                        // is tried); nothing else about the shape of the new function is assumed.
                        let (sl_i, su_i) = (sl as i64, su as i64);
                        for ((i, v), feas) in values.iter().zip(feasible.iter()) {
                            let at_x: BTreeMap<u64, Q> = pts[*i].clone();
                            let gs = gpoly.partial(&at_x);
                            let holds = |gv: &Q| if convert { holds_eq(gv) } else { holds_le(gv) };
                            let value_at = |sv: i64| {
                                let mut m = BTreeMap::new();
                                m.insert(s.id, qi(sv));
                                gs.eval(&m).expect("only the slack is left")
                            };
                            let exists = if gs.degree() <= 1 {
                                let a0 = value_at(0);
                                let b1 = &value_at(1) - &a0;
                                if b1.is_zero() {
                                    holds(&a0)
                                } else {
                                    // candidates: the integers around -A/B, and the ends
                                    let t = -(&a0 / &b1);
                                    let t0 = t.floor().to_integer().to_i64().unwrap_or(i64::MAX - 4);
                                    let mut cands = vec![sl_i, su_i, t0 - 1, t0, t0 + 1, t0 + 2];
                                    cands.retain(|c| *c >= sl_i && *c <= su_i);
                                    cands.iter().any(|sv| holds(&value_at(*sv)))
                                }
                            } else if su_i - sl_i <= 100_000 {
                                (sl_i..=su_i).any(|sv| holds(&value_at(sv)))
                            } else {
                                mon.facet("slack-of-higher-degree-and-large-range:not-judged");
                                *feas
                            };
                            if exists != *feas {
                                mon.violation(
                                    format!("C13.feasible-set-changed:{}:{method}", if *feas { "feasible-point-lost" } else { "infeasible-point-admitted" }),
                                    format!("x={:?}: f(x)={v} ({}), but with slack in [{sl},{su}] and coefficient {coef} the new constraint is {}\n{}", pts[*i], if *feas { "satisfies f<=0" } else { "violates f<=0" }, if exists { "satisfiable" } else { "not satisfiable" }, ctx(&after, &out)),
                                );
                                break;
                            }
                        }
                        if mon.want_sample() && fpoly.degree() > 0 {
                            mon.sample(json!({"method": method, "f": format!("{f:?}"), "box": format!("{:?}", case.vars), "new_constraint": format!("{:?}", cn.function), "slack": format!("{s:?}"), "lattice_points": pts.len(), "feasible_points": n_feasible}));
                        }
                    }
                    _ => mon.violation(format!("C13.constraint-in-both-or-neither-list:{method}"), ctx(&after, &out)),
                }
            }
        }
    }
}
