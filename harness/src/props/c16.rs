//! C16 — interval bounds enclose every attainable value.

use crate::build::*;
use crate::exact::*;
use crate::gen::*;
use crate::monitor::{panic_site, probe, Fp, Monitor};
use crate::rng::Rng;
use crate::{Env, Property, Tier};
use num::{Signed, Zero};
use ommx::{v1, Bound, Bounds, VariableID};
use serde_json::json;
use std::collections::BTreeMap;

pub struct C16;

const ENDS: [f64; 9] = [f64::NEG_INFINITY, -3.0, -2.0, -0.5, 0.0, 0.5, 2.0, 3.0, f64::INFINITY];

fn grid() -> Vec<(f64, f64)> {
    let mut v = vec![];
    for l in ENDS {
        for u in ENDS {
            if l <= u && l != f64::INFINITY && u != f64::NEG_INFINITY {
                v.push((l, u));
            }
        }
    }
    // the same zero with the other sign bit: -0.0 as one or both ends (what scaling [0,0] by a negative number
    // leaves behind); as intervals these are [0,0], [0,3], [-2,0], [0,inf), (-inf,0]
    v.extend([(-0.0, -0.0), (0.0, -0.0), (-0.0, 0.0), (-0.0, 3.0), (-2.0, -0.0), (-0.0, f64::INFINITY), (f64::NEG_INFINITY, -0.0)]);
    v
}

/// sample points of [l,u]: finite ends, interior, zero if inside, large magnitudes on unbounded sides
fn points(l: f64, u: f64) -> Vec<f64> {
    let mut p = vec![];
    if l.is_finite() {
        p.push(l);
    }
    if u.is_finite() {
        p.push(u);
    }
    match (l.is_finite(), u.is_finite()) {
        (true, true) => {
            p.push((l + u) / 2.0);
            p.push(l + (u - l) / 4.0);
        }
        (true, false) => {
            p.extend([l + 1.0, l + 1048576.0, l + 7.25]);
        }
        (false, true) => {
            p.extend([u - 1.0, u - 1048576.0, u - 7.25]);
        }
        (false, false) => {
            p.extend([0.0, 1.0, -1.0, 1048576.0, -1048576.0, 0.25]);
        }
    }
    if l <= 0.0 && 0.0 <= u {
        p.push(0.0);
    }
    p.retain(|x| *x >= l && *x <= u);
    p.sort_by(|a, b| a.partial_cmp(b).unwrap());
    p.dedup();
    p
}

fn contains(b: &Bound, v: &Q, slack: &Q) -> bool {
    let lo_ok = if b.lower() == f64::NEG_INFINITY { true } else { &(q(b.lower()) - slack) <= v };
    let hi_ok = if b.upper() == f64::INFINITY { true } else { v <= &(q(b.upper()) + slack) };
    lo_ok && hi_ok
}

fn mk(l: f64, u: f64) -> Bound {
    Bound::new(l, u).expect("harness: grid interval is valid")
}

fn pow_q(x: &Q, e: u32) -> Q {
    let mut r = qi(1);
    for _ in 0..e {
        r *= x;
    }
    r
}

impl C16 {
    fn grid_case(&self, idx: u64, mon: &mut Monitor) -> bool {
        let g = grid();
        let n = g.len() as u64;
        let zero = Q::zero();
        let mut i = idx;
        // add and mul over all ordered pairs
        if i < 2 * n * n {
            let op = if i < n * n { "add" } else { "mul" };
            i %= n * n;
            let (a, b) = (g[(i / n) as usize], g[(i % n) as usize]);
            mon.eval();
            mon.facet(&format!("grid:{op}"));
            let r = probe(|| if op == "add" { mk(a.0, a.1) + mk(b.0, b.1) } else { mk(a.0, a.1) * mk(b.0, b.1) });
            // the compound-assignment forms are separate entry points to the same operation
            let r_assign = probe(|| {
                let mut x = mk(a.0, a.1);
                if op == "add" {
                    x += mk(b.0, b.1);
                } else {
                    x *= mk(b.0, b.1);
                }
                x
            });
            mon.eval();
            for (form, r) in [("binary", r), ("assign", r_assign)] {
            match r {
                Err(p) => mon.violation(format!("C16.panic:{op}"), format!("[{}, {}] {op} [{}, {}] ({form} form) panicked: {} at {}", a.0, a.1, b.0, b.1, p.message, p.location)),
                Ok(res) => {
                    for x in points(a.0, a.1) {
                        for y in points(b.0, b.1) {
                            let v = if op == "add" { q(x) + q(y) } else { q(x) * q(y) };
                            if !contains(&res, &v, &zero) {
                                mon.violation(format!("C16.enclosure:{op}"), format!("[{}, {}] {op} [{}, {}] ({form} form) = {res:?} does not contain {x} {op} {y} = {v}", a.0, a.1, b.0, b.1));
                                return true;
                            }
                        }
                    }
                }
            }
            }
            return true;
        }
        i -= 2 * n * n;
        // integer powers 0..8
        if i < n * 9 {
            let a = g[(i / 9) as usize];
            let e = (i % 9) as u32;
            mon.eval();
            mon.facet("grid:pow");
            match probe(|| mk(a.0, a.1).pow(e as u8)) {
                Err(p) => mon.violation("C16.panic:pow", format!("[{}, {}].pow({e}) panicked: {} at {}", a.0, a.1, p.message, p.location)),
                Ok(res) => {
                    for x in points(a.0, a.1) {
                        let v = pow_q(&q(x), e);
                        if !contains(&res, &v, &zero) {
                            mon.violation("C16.enclosure:pow", format!("[{}, {}].pow({e}) = {res:?} does not contain {x}^{e} = {v}", a.0, a.1));
                            return true;
                        }
                    }
                }
            }
            return true;
        }
        i -= n * 9;
        // scaling by a non-zero number of either sign and extreme magnitude
        let scalars = [0.5, -0.5, 1.0, -1.0, 3.0, -3.0, 1048576.0, -1048576.0, 9.5367431640625e-7, -9.5367431640625e-7];
        if i < n * scalars.len() as u64 {
            let a = g[(i / scalars.len() as u64) as usize];
            let s = scalars[(i % scalars.len() as u64) as usize];
            mon.evals(2);
            mon.facet("grid:scale");
            let assign = probe(|| {
                let mut x = mk(a.0, a.1);
                x *= s;
                x
            });
            mon.eval();
            // interval + scalar (a degenerate interval sum), all three spellings
            for (side, r) in [
                ("bound+f64", probe(|| mk(a.0, a.1) + s)),
                ("f64+bound", probe(|| s + mk(a.0, a.1))),
                ("bound+=f64", probe(|| {
                    let mut x = mk(a.0, a.1);
                    x += s;
                    x
                })),
            ] {
                mon.eval();
                match r {
                    Err(p) => mon.violation("C16.panic:add-scalar", format!("[{}, {}] + {s} ({side}) panicked: {} at {}", a.0, a.1, p.message, p.location)),
                    Ok(res) => {
                        for x in points(a.0, a.1) {
                            let v = q(x) + q(s);
                            if !contains(&res, &v, &zero) {
                                mon.violation("C16.enclosure:add-scalar", format!("[{}, {}] + {s} ({side}) = {res:?} does not contain {x}+{s} = {v}", a.0, a.1));
                                break;
                            }
                        }
                    }
                }
            }
            for (side, r) in [("bound*f64", probe(|| mk(a.0, a.1) * s)), ("f64*bound", probe(|| s * mk(a.0, a.1))), ("bound*=f64", assign)] {
                match r {
                    Err(p) => mon.violation("C16.panic:scale", format!("[{}, {}] scaled by {s} ({side}) panicked: {} at {}", a.0, a.1, p.message, p.location)),
                    Ok(res) => {
                        for x in points(a.0, a.1) {
                            let v = q(x) * q(s);
                            if !contains(&res, &v, &zero) {
                                mon.violation("C16.enclosure:scale", format!("[{}, {}] * {s} ({side}) = {res:?} does not contain {x}*{s} = {v}", a.0, a.1));
                                return true;
                            }
                        }
                    }
                }
            }
            return true;
        }
        i -= n * scalars.len() as u64;
        // rounding to integer endpoints: intervals that contain an integer
        let fr: [f64; 6] = [0.0, 0.25, 0.5, 0.999, 1e-7, -1e-7];
        let los: [f64; 4] = [-3.0, -1.0, 0.0, 2.0];
        let total = (los.len() * fr.len() * 4 * fr.len() + 8) as u64;
        if i < total {
            let (l, u) = if i < 8 {
                [(f64::NEG_INFINITY, 2.5), (-2.5, f64::INFINITY), (f64::NEG_INFINITY, f64::INFINITY), (0.0, 0.0), (-0.5, 0.5), (1.9999999, 2.0000001), (-7.0, -7.0), (0.3, 1.0)][i as usize]
            } else {
                let j = (i - 8) as usize;
                let lo = los[j % los.len()] + fr[(j / los.len()) % fr.len()];
                let w = ((j / (los.len() * fr.len())) % 4) as f64;
                let hi = lo.ceil() + w + fr[(j / (los.len() * fr.len() * 4)) % fr.len()];
                (lo, hi)
            };
            let (il, iu) = (l.ceil(), u.floor());
            if !(l <= u) || (l.is_finite() && u.is_finite() && il > iu) {
                mon.facet("grid:as_integer_bound:skipped-no-integer-inside");
                return true;
            }
            mon.eval();
            mon.facet("grid:as_integer_bound");
            match probe(|| mk(l, u).as_integer_bound()) {
                Err(p) => mon.violation("C16.panic:as_integer_bound", format!("[{l}, {u}].as_integer_bound() panicked: {} at {}", p.message, p.location)),
                Ok(res) => {
                    let mut ints = vec![];
                    if il.is_finite() {
                        ints.extend([il, il + 1.0]);
                    }
                    if iu.is_finite() {
                        ints.extend([iu, iu - 1.0]);
                    }
                    if !il.is_finite() && !iu.is_finite() {
                        ints.extend([0.0, -1048576.0, 1048576.0]);
                    }
                    for z in ints {
                        if z >= l && z <= u && !contains(&res, &q(z), &zero) {
                            mon.violation("C16.as_integer_bound:integer-lost", format!("[{l}, {u}].as_integer_bound() = {res:?} lost the integer {z}"));
                        }
                    }
                    if res.lower().is_finite() && res.lower() != res.lower().trunc() || res.upper().is_finite() && res.upper() != res.upper().trunc() {
                        mon.violation("C16.as_integer_bound:not-integral", format!("[{l}, {u}].as_integer_bound() = {res:?}"));
                    }
                }
            }
            return true;
        }
        false
    }

    /// random intervals of extreme magnitude: integer rounding and scaling by tiny / huge dyadic numbers
    fn interval_case(&self, rng: &mut Rng, mon: &mut Monitor) {
        let zero = Q::zero();
        // m * 2^e with a small odd-ish mantissa, so that products with dyadic scalars stay exact
        let dyadic = |rng: &mut Rng, emin: i64, emax: i64| -> f64 {
            let m = rng.range(1, 4097) as f64;
            let e = rng.range(emin, emax) as i32;
            let v = m * 2f64.powi(e);
            if rng.bool() { -v } else { v }
        };
        let endpoint = |rng: &mut Rng| -> f64 {
            match rng.below(12) {
                0 => f64::NEG_INFINITY,
                1 => f64::INFINITY,
                2 => 0.0,
                3 => *rng.pick(&[9223372036854775808.0, -9223372036854775808.0, 18446744073709551616.0, 1e19, -1e19, 2e19, 1e20, -1e20, 9007199254740992.0, -9007199254740993.0, 4294967296.5, -2147483648.5, 1e300, -1e300]),
                4..=7 => dyadic(rng, 40, 200),
                _ => dyadic(rng, -12, 60),
            }
        };
        let (mut l, mut u) = (endpoint(rng), endpoint(rng));
        if l > u {
            std::mem::swap(&mut l, &mut u);
        }
        if l == f64::INFINITY || u == f64::NEG_INFINITY {
            mon.facet("interval:skipped-invalid");
            return;
        }
        if rng.chance(1, 6) && l.is_finite() {
            u = l; // degenerate
        }
        let mut fp = Fp::new();
        fp.u64(l.to_bits()).u64(u.to_bits());
        if rng.bool() {
            let (il, iu) = (l.ceil(), u.floor());
            if il > iu {
                mon.facet("interval:as_integer_bound:skipped-no-integer-inside");
                return;
            }
            mon.eval();
            mon.facet(if l.abs().max(u.abs()) >= 9.2e18 && (l.is_finite() || u.is_finite()) { "interval:as_integer_bound:finite-end-beyond-2^63" } else { "interval:as_integer_bound" });
            mon.nontrivial(fp.u64(1).finish());
            match probe(|| mk(l, u).as_integer_bound()) {
                Err(p) => mon.violation("C16.panic:as_integer_bound", format!("[{l:e}, {u:e}].as_integer_bound() panicked: {} at {}", p.message, p.location)),
                Ok(res) => {
                    let mut ints = vec![];
                    if il.is_finite() {
                        ints.extend([il, il + 1.0, il + 4096.0]);
                    }
                    if iu.is_finite() {
                        ints.extend([iu, iu - 1.0, iu - 4096.0]);
                    }
                    if il.is_finite() && iu.is_finite() {
                        ints.push((il / 2.0 + iu / 2.0).floor());
                    }
                    if !il.is_finite() && !iu.is_finite() {
                        ints.extend([0.0, -1e19, 1e19]);
                    }
                    for z in ints {
                        if z >= l && z <= u && z == z.trunc() && !contains(&res, &q(z), &zero) {
                            mon.violation("C16.as_integer_bound:integer-lost", format!("[{l:e}, {u:e}].as_integer_bound() = {res:?} lost the integer {z:e}"));
                            break;
                        }
                    }
                    if res.lower().is_finite() && res.lower() != res.lower().trunc() || res.upper().is_finite() && res.upper() != res.upper().trunc() {
                        mon.violation("C16.as_integer_bound:not-integral", format!("[{l:e}, {u:e}].as_integer_bound() = {res:?}"));
                    }
                }
            }
        } else {
            // scaling by a non-zero dyadic number between 2^-300 and 2^60 (exact products)
            let s = if rng.bool() { dyadic(rng, -300, -50) } else { dyadic(rng, -40, 60) };
            // the product must be a normal double and exact, so that zero tolerance is the right verdict
            let finite_ok = |x: f64| !x.is_finite() || (x == 0.0) || { let p = x * s; p.is_finite() && p.abs() >= 1e-290 && q(p) == q(x) * q(s) };
            if !finite_ok(l) || !finite_ok(u) {
                mon.facet("interval:scale:skipped-inexact-product-or-overflow");
                return;
            }
            mon.evals(2);
            mon.facet(if s.abs() <= f64::EPSILON { "interval:scale:|s|<=EPSILON" } else { "interval:scale" });
            mon.nontrivial(fp.u64(2).u64(s.to_bits()).finish());
            for (side, r) in [("bound*f64", probe(|| mk(l, u) * s)), ("f64*bound", probe(|| s * mk(l, u)))] {
                match r {
                    Err(p) => mon.violation("C16.panic:scale", format!("[{l:e}, {u:e}] scaled by {s:e} ({side}) panicked: {} at {}", p.message, p.location)),
                    Ok(res) => {
                        let mut pts = vec![];
                        if l.is_finite() {
                            pts.push(l);
                        }
                        if u.is_finite() {
                            pts.push(u);
                        }
                        if l <= 0.0 && 0.0 <= u {
                            pts.push(0.0);
                        }
                        if !l.is_finite() {
                            pts.push(if u.is_finite() { u - 1e30 } else { -1e30 });
                        }
                        if !u.is_finite() {
                            pts.push(if l.is_finite() { l + 1e30 } else { 1e30 });
                        }
                        for x in pts {
                            let v = q(x) * q(s);
                            if !contains(&res, &v, &zero) {
                                mon.violation("C16.enclosure:scale", format!("[{l:e}, {u:e}] * {s:e} ({side}) = {res:?} does not contain {x:e}*{s:e} = {v}"));
                                return;
                            }
                        }
                    }
                }
            }
        }
    }

    fn grid_size() -> u64 {
        let n = grid().len() as u64;
        2 * n * n + n * 9 + n * 10 + (4 * 6 * 4 * 6 + 8)
    }

    fn function_case(&self, rng: &mut Rng, mon: &mut Monitor) {
        let regime = if rng.chance(3, 4) { Regime::D } else { Regime::R };
        let np = 1 + rng.usize_below(4);
        let pool = id_pool(rng, np, true);
        let mut cfg = FnCfg::new(pool.clone(), regime);
        cfg.max_terms = 6;
        let f = gen_function(rng, &cfg);
        // box: endpoints from the grid or random reals; some ids without a bound (=> unbounded)
        let mut bx: BTreeMap<u64, (f64, f64)> = BTreeMap::new();
        let mut bounds = Bounds::new();
        let g = grid();
        for id in &pool {
            if rng.chance(1, 8) {
                continue; // missing bound means unbounded
            }
            let (l, u) = if regime == Regime::D || rng.bool() {
                *rng.pick(&g)
            } else {
                let a = value(rng, Regime::R);
                let b = value(rng, Regime::R);
                (a.min(b), a.max(b))
            };
            bx.insert(*id, (l, u));
            bounds.insert(VariableID::from(*id), mk(l, u));
        }
        let poly = canon_function(&f);
        if poly.degree() > 0 {
            let mut fp = Fp::new();
            fp.bytes(&prost::Message::encode_to_vec(&f));
            for (k, (l, u)) in &bx {
                fp.u64(*k).f64(*l).f64(*u);
            }
            mon.nontrivial(fp.finish());
        }
        mon.eval();
        mon.facet(&format!("evaluate_bound/{}/{regime:?}", variant_name(&f)));
        let res = match probe(|| f.evaluate_bound(&bounds)) {
            Err(p) => {
                mon.violation(format!("C16.panic:evaluate_bound:{}", panic_site(&p)), format!("evaluate_bound panicked: {} at {}\nfunction={f:?}\nbox={bx:?}", p.message, p.location));
                return;
            }
            Ok(b) => b,
        };
        // sample points: corners, faces, interior
        let ids: Vec<u64> = occurring_ids(&f).into_iter().collect();
        let per: Vec<Vec<f64>> = ids
            .iter()
            .map(|id| {
                let (l, u) = bx.get(id).cloned().unwrap_or((f64::NEG_INFINITY, f64::INFINITY));
                let mut p = points(l, u);
                if regime == Regime::R && l.is_finite() && u.is_finite() {
                    p.push(l + (u - l) * rng.unit());
                    p.retain(|x| *x >= l && *x <= u);
                }
                p
            })
            .collect();
        let npoints = 40;
        let exact_dyadic = regime == Regime::D;
        for t in 0..npoints {
            let x: BTreeMap<u64, Q> = ids
                .iter()
                .enumerate()
                .map(|(i, id)| {
                    let p = &per[i];
                    // first rounds: all-lowest / all-highest corners, then random combinations
                    let v = match t {
                        0 => p[0],
                        1 => p[p.len() - 1],
                        _ => *rng.pick(p),
                    };
                    (*id, q(v))
                })
                .collect();
            let v = poly.eval(&x).expect("all ids");
            let slack = if exact_dyadic {
                Q::zero()
            } else {
                // magnitude from the point and the finite box ends: the computed interval carries the
                // rounding of its end-point arithmetic
                abs_stored_poly(&f)
                    .eval(
                        &x.iter()
                            .map(|(k, v)| {
                                let mut m = v.abs();
                                if let Some((l, u)) = bx.get(k) {
                                    for e in [l, u] {
                                        if e.is_finite() && q(*e).abs() > m {
                                            m = q(*e).abs();
                                        }
                                    }
                                }
                                (*k, m)
                            })
                            .collect(),
                    )
                    .unwrap_or_else(Q::zero)
                    * two_pow(-45)
            };
            if !contains(&res, &v, &slack) {
                mon.violation(
                    format!("C16.enclosure:evaluate_bound:{}", variant_name(&f)),
                    format!("evaluate_bound = {res:?} does not contain f(x) = {v} ({:e}) at x={:?}\nfunction={f:?}\nbox={bx:?}", q_to_f64(&v), x.iter().map(|(k, v)| (*k, q_to_f64(v))).collect::<Vec<_>>()),
                );
                return;
            }
        }
        mon.facet_n("points-checked", npoints);
        if mon.want_sample() && poly.degree() > 0 {
            mon.sample(json!({"function": format!("{f:?}"), "box": format!("{bx:?}"), "bound": format!("{res:?}")}));
        }
    }

    fn content_case(&self, rng: &mut Rng, mon: &mut Monitor) {
        // coefficients p/q with q <= 60 and lcm <= 1e7
        let n = 1 + rng.usize_below(6);
        let mut coefs: Vec<(i64, i64)> = vec![];
        let mut l: i64 = 1;
        for _ in 0..n {
            let mut qd = 1 + rng.below(60) as i64;
            let mut p = rng.range(-40, 40);
            if p == 0 {
                p = 1;
            }
            let gc = num::integer::gcd(p, qd);
            p /= gc;
            qd /= gc;
            let nl = num::integer::lcm(l, qd);
            if nl > 10_000_000 {
                continue;
            }
            l = nl;
            coefs.push((p, qd));
        }
        if coefs.is_empty() {
            coefs.push((1, 1));
        }
        let mut gnum: i64 = 0;
        for (p, _) in &coefs {
            gnum = num::integer::gcd(gnum, *p);
        }
        let mut expected = qfrac(l, gnum.abs());
        let pool = id_pool(rng, 3, false);
        // spread the coefficients over a function of some variant; each coefficient on its own key
        let variant = rng.below(3);
        let mut vals: Vec<f64> = coefs.iter().map(|(p, qd)| *p as f64 / *qd as f64).collect();
        // explicitly stored zero coefficients (what cancellation leaves behind) do not change the
        // content; a function whose stored coefficients are all zero is the zero function: factor 1
        match rng.below(12) {
            0 => {
                vals = vec![0.0; 1 + rng.usize_below(3)];
                if rng.bool() {
                    vals[0] = -0.0;
                }
                coefs.clear();
                expected = qfrac(1, 1);
                mon.facet("content_factor:all-stored-coefficients-zero");
            }
            1 | 2 => {
                let at = rng.usize_below(vals.len() + 1);
                vals.insert(at, 0.0);
                if rng.bool() {
                    vals.push(0.0);
                }
                mon.facet("content_factor:some-stored-coefficients-zero");
            }
            _ => {}
        }
        let f = match variant {
            0 => {
                let mut terms = vec![];
                for (i, v) in vals.iter().enumerate().skip(1) {
                    terms.push((100 + i as u64, *v));
                }
                f_linear(linear(terms, vals[0]))
            }
            1 => {
                let mut entries = vec![];
                for (i, v) in vals.iter().enumerate() {
                    entries.push((pool[0], 200 + i as u64, *v));
                }
                f_quadratic(quadratic(entries, if rng.bool() { Some(linear(vec![], 0.0)) } else { None }))
            }
            _ => f_polynomial(polynomial(vals.iter().enumerate().map(|(i, v)| (vec![pool[0]; i % 4 + 1].into_iter().chain(std::iter::once(300 + i as u64)).collect(), *v)).collect())),
        };
        let mut fp = Fp::new();
        fp.str("content").bytes(&prost::Message::encode_to_vec(&f));
        if coefs.len() >= 2 {
            mon.nontrivial(fp.finish());
        }
        mon.eval();
        mon.facet(&format!("content_factor/{}", variant_name(&f)));
        match probe(|| f.content_factor().map_err(|e| format!("{e:#}"))) {
            Err(p) => mon.violation(format!("C16.panic:content_factor:{}", panic_site(&p)), format!("content_factor panicked: {} at {}\ncoefficients={coefs:?}", p.message, p.location)),
            Ok(Err(e)) => mon.violation("C16.content_factor:error", format!("content_factor failed ({e}) on coefficients {coefs:?} (lcm of denominators {l})\nfunction={f:?}")),
            Ok(Ok(a)) => {
                let e = q_to_f64(&expected);
                if !((a - e).abs() <= e.abs() * 2.3e-16) {
                    mon.violation("C16.content_factor:value", format!("content_factor = {a}, but lcm(q)/gcd(p) = {l}/{} = {e} for coefficients {coefs:?}\nfunction={f:?}", gnum.abs()));
                }
            }
        }
    }
}

impl Property for C16 {
    fn id(&self) -> &'static str {
        "C16"
    }
    fn cases(&self, tier: Tier) -> u64 {
        Self::grid_size()
            + match tier {
                Tier::Quick => 60_000,
                Tier::Thorough => 1_500_000,
            }
    }
    fn min_nontrivial(&self, tier: Tier) -> u64 {
        match tier {
            Tier::Quick => 16_000,
            Tier::Thorough => 300_000,
        }
    }
    fn rule(&self) -> &'static str {
        "the first G cases enumerate the grid exhaustively: all 43 valid intervals with endpoints in {-inf,-3,-2,-1/2,0,1/2,2,3,+inf} plus 7 whose zero end(s) are -0.0; every ordered pair under + and * (binary and compound-assignment forms), every interval plus a scalar (bound+f64, f64+bound, +=), every interval under pow(0..8), under scaling by 10 non-zero scalars of both signs (0.5..2^20, 2^-20) from both sides and as *=, and as_integer_bound on intervals that contain an integer (fractional ends, +-1e-7 perturbations, half-infinite); each result must contain op(x,y) for all sample points (finite ends, interior, zero, +-2^20 on unbounded sides) with zero tolerance, without panicking. One remaining case in eight draws an interval with endpoints of extreme magnitude (m*2^e up to 2^212, +-2^63, 2^64, 1e19..1e300, infinite, degenerate) and either rounds it to integer endpoints (integers at both ends, 1 and 4096 inside, and the middle must be kept) or scales it from both sides by a non-zero dyadic number between 2^-300 and 2^72 (exact products; ends, zero and a far point on unbounded sides must be enclosed). The other cases alternate: evaluate_bound of a hostile function message of degree <= 4 over a box drawn from the grid (D) or random reals (R), some ids without bound, checked at 40 corner/face/interior points against the exact polynomial (zero tolerance in D, 2^-45 relative to the magnitude sum in R); and content_factor on functions whose coefficients are p/q (q<=60, lcm<=1e7), one in six with explicitly stored zero coefficients among them and one in twelve with nothing but stored zeros (the zero function: factor 1), against lcm(q)/gcd(p) within 1 ulp. Non-trivial = non-constant function / >= 2 coefficients; distinct = fingerprint of (function, box)."
    }
    fn assumptions(&self) -> Vec<&'static str> {
        vec!["scaling by 0 and magnitudes that overflow f64 are outside the statement", "as_integer_bound is only called on intervals that contain an integer"]
    }
    fn exhaustive(&self, _tier: Tier) -> bool {
        false
    }
    fn run_case(&self, k: u64, rng: &mut Rng, _env: &Env, mon: &mut Monitor) {
        if k < Self::grid_size() {
            if self.grid_case(k, mon) {
                // grid cases are distinct by construction
                mon.nontrivial(k ^ 0x9e37_79b9_7f4a_7c15);
            }
            return;
        }
        if k % 8 == 7 {
            self.interval_case(rng, mon)
        } else if k % 3 == 0 {
            self.content_case(rng, mon)
        } else {
            self.function_case(rng, mon)
        }
    }
}

#[allow(dead_code)]
fn _unused(_: v1::Linear) {
    let _ = dvar(0, KIND_BINARY, None);
}
