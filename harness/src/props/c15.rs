//! C15 — sense-aware operations select the right optimum.

use crate::build::*;
use crate::exact::*;
use crate::gen::*;
use crate::model::{exact_value, near_threshold, opt_fn, ref_solution};
use crate::monitor::{fp_msg, fp_state, panic_site, probe, Fp, Monitor};
use crate::rng::Rng;
use crate::{Env, Property, Tier};
use ommx::{v1, Evaluate};
use prost::Message;
use serde_json::json;
use std::collections::{BTreeMap, BTreeSet};

pub struct C15;

impl C15 {
    fn conversion_case(&self, rng: &mut Rng, mon: &mut Monitor) {
        let regime = if rng.chance(3, 4) { Regime::D } else { Regime::R };
        let mut cfg = InstCfg::new(regime);
        // a present Function message with an unset oneof is not generated: negating it panics by
        // contract ("Empty Function"); an absent objective (None) is
        cfg.unset_oneof = false;
        let g = gen_instance(rng, &cfg);
        let mut inst = g.instance;
        inst.constraint_hints = gen_hints(rng, &inst);
        let was_max = inst.sense == SENSE_MAX;
        mon.facet(&format!("as_minimization/{}", if was_max { "from-maximise" } else { "from-minimise" }));
        if canon_opt_function(&inst.objective).degree() > 0 {
            let mut fp = Fp::new();
            fp.u64(fp_msg(&inst)).str("conv");
            mon.nontrivial(fp.finish());
        }
        mon.eval();
        let r = probe(|| {
            let mut a = inst.clone();
            a.as_minimization_problem();
            let mut b = a.clone();
            b.as_minimization_problem();
            (a, b)
        });
        let ctx = |a: &v1::Instance| format!("original={inst:?}\nconverted={a:?}");
        let (once, twice) = match r {
            Err(p) => {
                mon.violation(format!("C15.panic:{}", panic_site(&p)), format!("as_minimization_problem panicked: {} at {}\noriginal={inst:?}", p.message, p.location));
                return;
            }
            Ok(x) => x,
        };
        if once.sense != SENSE_MIN {
            mon.violation("C15.conversion:sense", ctx(&once));
        }
        let f = canon_opt_function(&inst.objective);
        let expected = if was_max { f.neg() } else { f.clone() };
        if canon_opt_function(&once.objective) != expected {
            mon.violation(format!("C15.conversion:objective:{}", if was_max { "from-maximise" } else { "from-minimise" }), format!("objective is {} expected {}\n{}", canon_opt_function(&once.objective).pretty(), expected.pretty(), ctx(&once)));
        }
        if twice.sense != once.sense || canon_opt_function(&twice.objective) != canon_opt_function(&once.objective) {
            mon.violation("C15.conversion:not-idempotent", format!("twice={twice:?}\n{}", ctx(&once)));
        }
        let (mut a, mut b) = (once.clone(), inst.clone());
        a.objective = None;
        b.objective = None;
        a.sense = 0;
        b.sense = 0;
        if a != b {
            mon.violation("C15.conversion:other-fields-changed", ctx(&once));
        }
        // ranking of a pair of assignments is the same in both problems
        let x = gen_state_in_bounds(rng, &inst, None, regime);
        let y = gen_state_in_bounds(rng, &inst, None, regime);
        mon.evals(4);
        let ev = |i: &v1::Instance, s: &v1::State| probe(|| i.evaluate(s).map(|(sol, _)| sol.objective).map_err(|e| format!("{e:#}")));
        if let (Ok(Ok(fx)), Ok(Ok(fy)), Ok(Ok(gx)), Ok(Ok(gy))) = (ev(&inst, &x), ev(&inst, &y), ev(&once, &x), ev(&once, &y)) {
            // "x at least as good as y": original sense vs minimisation of the converted objective
            let orig = if was_max { fx >= fy } else { fx <= fy };
            let conv = gx <= gy;
            let orig_rev = if was_max { fy >= fx } else { fy <= fx };
            let conv_rev = gy <= gx;
            if orig != conv || orig_rev != conv_rev {
                mon.violation("C15.conversion:ranking", format!("f(x)={fx:e} f(y)={fy:e} (sense {}), converted g(x)={gx:e} g(y)={gy:e}\nx={:?}\ny={:?}\n{}", inst.sense, sorted_state(&x), sorted_state(&y), ctx(&once)));
            }
        }
    }

    fn selection_case(&self, rng: &mut Rng, mon: &mut Monitor) {
        // D regime so that objectives are exact and ties are real ties
        let regime = Regime::D;
        let mut cfg = InstCfg::new(regime);
        cfg.max_constraints = 2;
        cfg.max_removed = 2;
        cfg.max_vars = 4;
        let g = gen_instance(rng, &cfg);
        let mut inst = g.instance;
        // steer the feasibility pattern with constant constraints
        let mut next_id = 100_000;
        for removed_list in [false, true] {
            if rng.bool() {
                let c = *rng.pick(&[-1.0, 0.0, 1.0, 2e-6, -2e-6]);
                let con = constraint(next_id, if rng.bool() { EQ_ZERO } else { LE_ZERO }, Some(f_const(c)));
                next_id += 1;
                if removed_list {
                    inst.removed_constraints.push(removed(con, "steer", Default::default()));
                } else {
                    inst.constraints.push(con);
                }
            }
        }
        // sometimes make every generated constraint trivially true so that feasible samples exist
        if rng.chance(1, 2) {
            for c in inst.constraints.iter_mut().chain(inst.removed_constraints.iter_mut().filter_map(|r| r.constraint.as_mut())) {
                if rng.chance(2, 3) {
                    c.function = Some(f_const(if c.equality == EQ_ZERO { 0.0 } else { -1.0 }));
                }
            }
        }
        if rng.chance(1, 6) {
            inst.objective = Some(f_const(1.5)); // all ties
        }
        // near ties: objective values that are distinct but only one or two ulps apart. The objective is
        // exactly 1.0*x_a (+0.0), whose f64 value is x_a itself, so the exact reference is q(x_a).
        let mut near_tie: Option<u64> = None;
        if rng.chance(1, 6) && !inst.decision_variables.is_empty() {
            let a = inst.decision_variables[0].id;
            inst.decision_variables[0].kind = KIND_CONTINUOUS;
            inst.decision_variables[0].bound = None;
            inst.decision_variables[0].substituted_value = None;
            inst.objective = Some(f_linear(linear(vec![(a, 1.0)], 0.0)));
            // the variable must not be constrained elsewhere in a way that matters: constraints become constants
            for c in inst.constraints.iter_mut().chain(inst.removed_constraints.iter_mut().filter_map(|r| r.constraint.as_mut())) {
                let v = if rng.chance(1, 4) { 1.0 } else if c.equality == EQ_ZERO { 0.0 } else { -1.0 };
                c.function = Some(f_const(v));
            }
            inst.decision_variable_dependency.clear();
            near_tie = Some(a);
        }
        let n = 1 + rng.usize_below(8);
        let mut ids: Vec<u64> = vec![];
        while ids.len() < n {
            let id = if rng.bool() { rng.below(12) } else { rng.below(1000) * 17 + 3 };
            if !ids.contains(&id) {
                ids.push(id);
            }
        }
        let nstates = if rng.chance(2, 3) { n } else { 1 + rng.usize_below(n) };
        let mut states: Vec<v1::State> = (0..nstates).map(|_| gen_state_in_bounds(rng, &inst, None, regime)).collect();
        if let Some(a) = near_tie {
            let base: f64 = *rng.pick(&[9007199254740992.0, 1e16, 0.3, 1.0, -7.5, 0.1, 123456.789]);
            let ulp = |x: f64, n: i64| f64::from_bits((x.to_bits() as i64 + if x >= 0.0 { n } else { -n }) as u64);
            for st in states.iter_mut() {
                st.entries.insert(a, ulp(base, rng.range(-2, 2)));
            }
            mon.facet("selection/near-tie-objectives");
            // one near-tie case in four: objectives that are infinite (an overflowing objective): the worst
            // possible value for the set's sense on every sample, or on most; and the best possible on some
            if rng.chance(1, 4) {
                let worst = if inst.sense == SENSE_MAX { f64::NEG_INFINITY } else { f64::INFINITY };
                let all = rng.bool();
                for st in states.iter_mut() {
                    if all || rng.chance(2, 3) {
                        st.entries.insert(a, worst);
                    } else if rng.chance(1, 4) {
                        st.entries.insert(a, -worst);
                    }
                }
                mon.facet(if all { "selection/infinite-objectives:all-worst" } else { "selection/infinite-objectives:mixed" });
            }
        }
        let assign: Vec<(u64, usize)> = ids.iter().map(|i| (*i, rng.usize_below(nstates))).collect();
        let mut samples = v1::Samples::default();
        for (id, si) in &assign {
            samples.entries.push(samples_entry(states[*si].clone(), vec![*id]));
        }
        // reference: exact objective and feasibility per id
        let mut objective: BTreeMap<u64, Q> = BTreeMap::new();
        let mut feas_relaxed: BTreeMap<u64, bool> = BTreeMap::new();
        let mut feas_all: BTreeMap<u64, bool> = BTreeMap::new();
        for (id, si) in &assign {
            let mut x = sorted_state(&states[*si]);
            // an infinite objective (the value of x_a itself in the near-tie shape) is represented by a
            // rational beyond every double; feasibility does not depend on x_a there
            let mut infinite: Option<Q> = None;
            if let Some(a) = near_tie {
                if x[&a].is_infinite() {
                    let big = num::pow(qi(10), 400);
                    infinite = Some(if x[&a] > 0.0 { big } else { -big });
                    x.insert(a, 0.0);
                }
            }
            let Ok(rf) = ref_solution(&inst, &x) else {
                mon.facet("selection/skipped:reference-rejects-state");
                return;
            };
            if rf.constraints.iter().any(near_threshold) || (near_tie.is_none() && !matches!(rf.objective.tol, Tol::Exact)) {
                mon.facet("selection/skipped:uncertified");
                return;
            }
            let mut r = true;
            let mut a = true;
            for c in &rf.constraints {
                let h = if c.equality == EQ_ZERO { num::Signed::abs(&c.value) < q(1e-6) } else { c.value < q(1e-6) };
                if !h {
                    a = false;
                    if c.removed.is_none() {
                        r = false;
                    }
                }
            }
            let _ = exact_value(&opt_fn(&inst.objective), &x);
            objective.insert(*id, infinite.unwrap_or_else(|| rf.objective.value.clone()));
            feas_relaxed.insert(*id, r);
            feas_all.insert(*id, a);
        }
        let maximise = inst.sense == SENSE_MAX;
        let mut fp = Fp::new();
        fp.u64(fp_msg(&inst));
        for (id, si) in &assign {
            fp.u64(*id).u64(fp_state(&states[*si]));
        }
        if n >= 2 {
            mon.nontrivial(fp.finish());
        }
        mon.eval();
        let ss = match probe(|| inst.evaluate_samples(&samples).map(|(s, _)| s).map_err(|e| format!("{e:#}"))) {
            Ok(Ok(s)) => s,
            Ok(Err(e)) => {
                mon.violation("C15.evaluate-samples-error", format!("{e}\ninstance={inst:?}"));
                return;
            }
            Err(p) => {
                mon.violation(format!("C15.panic:{}", panic_site(&p)), format!("evaluate_samples panicked: {}\ninstance={inst:?}", p.message));
                return;
            }
        };
        // three shapes of the same sample set
        #[allow(deprecated)]
        let legacy = {
            let mut l = ss.clone();
            l.feasible_unrelaxed = ss.feasible.clone();
            l.feasible = ss.feasible_relaxed.clone();
            l.feasible_relaxed.clear();
            l
        };
        let decoded = match v1::SampleSet::decode(ss.encode_to_vec().as_slice()) {
            Ok(d) => d,
            Err(e) => {
                mon.violation("C15.sample-set-does-not-decode", format!("{e}"));
                return;
            }
        };
        let legacy_decoded = v1::SampleSet::decode(legacy.encode_to_vec().as_slice()).unwrap_or_else(|_| legacy.clone());
        // the same tables as another producer may store them: objective values grouped by value (ids of
        // equal objectives share one entry, in any order) or one entry per id
        let regroup = |set: &v1::SampleSet, by_value: bool, rng: &mut Rng| -> v1::SampleSet {
            let mut out = set.clone();
            if let Some(obj) = &set.objectives {
                let mut pairs: Vec<(u64, f64)> = obj.entries.iter().flat_map(|e| e.ids.iter().map(move |i| (*i, e.value))).collect();
                rng.shuffle(&mut pairs);
                let mut sv = v1::SampledValues::default();
                if by_value {
                    let mut groups: Vec<(u64, Vec<u64>)> = vec![];
                    for (id, v) in &pairs {
                        let key = if *v == 0.0 { 0 } else { v.to_bits() };
                        match groups.iter_mut().find(|g| g.0 == key) {
                            Some(g) => g.1.push(*id),
                            None => groups.push((key, vec![*id])),
                        }
                    }
                    for (bits, ids) in groups {
                        let mut e = v1::sampled_values::SampledValuesEntry::default();
                        e.value = f64::from_bits(bits);
                        e.ids = ids;
                        sv.entries.push(e);
                    }
                } else {
                    for (id, v) in pairs {
                        let mut e = v1::sampled_values::SampledValuesEntry::default();
                        e.value = v;
                        e.ids = vec![id];
                        sv.entries.push(e);
                    }
                }
                out.objectives = Some(sv);
            }
            out
        };
        let grouped = regroup(&ss, true, rng);
        let split = regroup(&ss, false, rng);
        let legacy_grouped = regroup(&legacy, true, rng);
        for (shape, set) in [
            ("current", &ss),
            ("legacy-fields", &legacy),
            ("current-decoded", &decoded),
            ("legacy-decoded", &legacy_decoded),
            ("objectives-grouped-by-value", &grouped),
            ("objectives-one-entry-per-id", &split),
            ("legacy-fields+grouped-by-value", &legacy_grouped),
        ] {
            for (which, feas) in [("relaxed", &feas_relaxed), ("unrelaxed", &feas_all)] {
                let candidates: Vec<u64> = feas.iter().filter(|(_, f)| **f).map(|(i, _)| *i).collect();
                let best: Option<Q> = candidates.iter().map(|i| objective[i].clone()).reduce(|a, b| if maximise { a.max(b) } else { a.min(b) });
                let optimal: BTreeSet<u64> = match &best {
                    Some(b) => candidates.iter().filter(|i| &objective[i] == b).cloned().collect(),
                    None => BTreeSet::new(),
                };
                mon.evals(2);
                mon.facet(&format!("selection/{shape}/{which}/{}", if candidates.is_empty() { "none-feasible" } else if optimal.len() > 1 { "tie" } else if candidates.len() > 1 { "unique-among-several-feasible" } else { "single-feasible" }));
                let rid = probe(|| if which == "relaxed" { set.best_feasible_id() } else { set.best_feasible_unrelaxed_id() }.map_err(|e| format!("{e:#}")));
                let rsol = probe(|| if which == "relaxed" { set.best_feasible() } else { set.best_feasible_unrelaxed() }.map_err(|e| format!("{e:#}")));
                let ctx = || format!("shape={shape} requested={which} sense={}\nobjective per id={:?}\nfeasible(remaining constraints)={feas_relaxed:?}\nfeasible(all constraints)={feas_all:?}\ninstance={inst:?}", if maximise { "maximise" } else { "minimise" }, objective.iter().map(|(k, v)| (*k, q_to_f64(v))).collect::<Vec<_>>());
                match rid {
                    Err(p) => mon.violation(format!("C15.panic:{}", panic_site(&p)), format!("best_feasible*_id panicked: {}\n{}", p.message, ctx())),
                    Ok(Err(e)) => {
                        if !candidates.is_empty() {
                            mon.violation(format!("C15.selection:error-although-feasible-sample-exists:{which}:{shape}"), format!("{e}\n{}", ctx()));
                        }
                    }
                    Ok(Ok(id)) => {
                        if candidates.is_empty() {
                            mon.violation(format!("C15.selection:returned-although-none-feasible:{which}:{shape}"), format!("returned id {id}\n{}", ctx()));
                        } else if !feas.get(&id).copied().unwrap_or(false) {
                            mon.violation(format!("C15.selection:infeasible-sample:{which}:{shape}"), format!("returned id {id} which is not feasible in the requested sense\n{}", ctx()));
                        } else if !optimal.contains(&id) {
                            mon.violation(format!("C15.selection:not-optimal:{which}:{shape}"), format!("returned id {id} (objective {:e}) but the best feasible objective is {:e} (ids {optimal:?})\n{}", q_to_f64(&objective[&id]), q_to_f64(best.as_ref().unwrap()), ctx()));
                        }
                    }
                }
                match rsol {
                    Err(p) => mon.violation(format!("C15.panic:{}", panic_site(&p)), format!("best_feasible* panicked: {}\n{}", p.message, ctx())),
                    Ok(Err(e)) => {
                        if !candidates.is_empty() {
                            mon.violation(format!("C15.selection:error-although-feasible-sample-exists:{which}:{shape}"), format!("best_feasible*: {e}\n{}", ctx()));
                        }
                    }
                    Ok(Ok(sol)) => {
                        if candidates.is_empty() {
                            mon.violation(format!("C15.selection:returned-although-none-feasible:{which}:{shape}"), format!("returned a solution\n{}", ctx()));
                        } else if let Some(b) = &best {
                            let same = if sol.objective.is_infinite() { (sol.objective > 0.0) == (b > &qi(0)) && num::Signed::abs(b) > q(f64::MAX) } else { f64_eq_q(sol.objective, b) };
                            if !same {
                                mon.violation(format!("C15.selection:not-optimal:{which}:{shape}"), format!("returned solution has objective {:e}, best feasible is {:e}\n{}", sol.objective, q_to_f64(b), ctx()));
                            }
                        }
                    }
                }
            }
        }
        if mon.want_sample() && n >= 2 {
            mon.sample(json!({"sense": if maximise {"maximise"} else {"minimise"}, "objectives": objective.iter().map(|(k, v)| (k.to_string(), q_to_f64(v))).collect::<BTreeMap<_, _>>(), "feasible_relaxed": format!("{feas_relaxed:?}"), "feasible": format!("{feas_all:?}")}));
        }
    }
}

impl Property for C15 {
    fn id(&self) -> &'static str {
        "C15"
    }
    fn cases(&self, tier: Tier) -> u64 {
        match tier {
            Tier::Quick => 60_000,
            Tier::Thorough => 3_000_000,
        }
    }
    fn min_nontrivial(&self, tier: Tier) -> u64 {
        match tier {
            Tier::Quick => 12_000,
            Tier::Thorough => 700_000,
        }
    }
    fn rule(&self) -> &'static str {
        "odd cases: as_minimization_problem on a generated instance of either sense: sense, objective (canonically -f iff it was a maximisation), idempotence, all other fields equal, and the ranking of a random pair of assignments in both problems. Even cases: a generated instance of either sense with constraints steered by constants so that every feasibility pattern occurs, 1-8 sample ids (ties through shared states and constant objectives, objectives one or two ulps apart, infinite objectives - the worst value for the sense on every sample or on most), evaluate_samples; best_feasible_id / best_feasible_unrelaxed_id / best_feasible / best_feasible_unrelaxed on seven shapes of the same set (as produced, rewritten to the legacy feasibility fields, each also after an encode/decode trip, objective table regrouped by value with shuffled ids / one entry per id, legacy + regrouped) against the exact objective and feasibility per sample: feasible in the requested sense, optimal under the set's sense, Err iff no feasible sample. Non-trivial = >= 2 samples / non-constant objective; distinct = fingerprint of (instance, samples)."
    }
    fn assumptions(&self) -> Vec<&'static str> {
        vec!["selection cases run in the dyadic regime and are skipped (counted) when a constraint value lies within rounding of the feasibility threshold or the objective is not certified exact, so ties are real ties"]
    }
    fn run_case(&self, k: u64, rng: &mut Rng, _env: &Env, mon: &mut Monitor) {
        if k % 2 == 1 {
            self.conversion_case(rng, mon)
        } else {
            self.selection_case(rng, mon)
        }
    }
}
