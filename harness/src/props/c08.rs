//! C08 — validation accepts exactly the well-formed instances; the typed view keeps content.
//! Level: fault enumeration — every single-fault mutation of a valid base at every position,
//! then random pairs of faults.

use crate::build::*;
use crate::exact::occurring_ids;
use crate::gen::*;
use crate::monitor::{fp_msg, panic_site, probe, Fp, Monitor};
use crate::rng::Rng;
use crate::{Env, Property, Tier};
use ommx::parse::{ParseError, RawParseError};
use ommx::v1;
use proptest::arbitrary::Arbitrary;
use serde_json::json;
use std::collections::{BTreeMap, BTreeSet};

pub struct C08;

// ---------------------------------------------------------------------------------------------
// the independent predicate

/// one violated typed rule: error kind, the ommx.v1.Instance field it must be attributed to, and
/// the (message, field) context entries that are consistent with the true nesting path
#[derive(Clone, Debug, PartialEq)]
struct Expected {
    kind: &'static str,
    top: &'static str,
    path: Vec<(&'static str, &'static str)>,
}

/// "UnspecifiedEnum*" marks an enum field holding a number outside the schema (the statement speaks of unset
/// fields, i.e. 0): it must be rejected at that field, as an unspecified value or under a kind of its own.
fn kind_matches(expected: &str, reported: &str) -> bool {
    match expected.strip_suffix('*') {
        Some(base) => reported == base || reported == "OtherKind",
        None => expected == reported,
    }
}

fn exp(kind: &'static str, top: &'static str, path: &[(&'static str, &'static str)]) -> Expected {
    let mut p = vec![("ommx.v1.Instance", top)];
    p.extend_from_slice(path);
    Expected { kind, top, path: p }
}

fn fn_state(f: &Option<v1::Function>) -> u8 {
    match f {
        None => 0,
        Some(x) if x.function.is_none() => 1,
        _ => 2,
    }
}

fn bound_invalid(b: &v1::Bound) -> bool {
    b.lower.is_nan() || b.upper.is_nan() || b.lower == f64::INFINITY || b.upper == f64::NEG_INFINITY || b.lower > b.upper
}

/// rules of `validate()`: unique variable ids, unique constraint ids across both lists, every used id defined
fn validate_expected(m: &v1::Instance) -> Result<(), &'static str> {
    let mut ids = BTreeSet::new();
    for v in &m.decision_variables {
        if !ids.insert(v.id) {
            return Err("duplicate-variable-id");
        }
    }
    let mut cids = BTreeSet::new();
    for c in &m.constraints {
        if !cids.insert(c.id) {
            return Err("duplicate-constraint-id");
        }
    }
    for r in &m.removed_constraints {
        if let Some(c) = &r.constraint {
            if !cids.insert(c.id) {
                return Err("duplicate-constraint-id");
            }
        }
    }
    if !used_ids(m).is_subset(&ids) {
        return Err("undefined-variable-used");
    }
    Ok(())
}

struct TypedVerdict {
    /// violated rules that try_from must report (any one of them)
    must: Vec<Expected>,
    /// ids used inside function bodies but undefined: not asserted for try_from (scope decision)
    undefined_in_body: bool,
    /// a hint names a removed constraint: not judged
    hint_names_removed: bool,
}

fn typed_expected(m: &v1::Instance) -> TypedVerdict {
    let mut must = vec![];
    // 1 duplicate variables
    let mut ids = BTreeSet::new();
    for v in &m.decision_variables {
        if !ids.insert(v.id) {
            must.push(exp("DuplicatedVariableID", "decision_variables", &[]));
        }
    }
    // 2 duplicate constraints
    let mut active = BTreeSet::new();
    for c in &m.constraints {
        if !active.insert(c.id) {
            must.push(exp("DuplicatedConstraintID", "constraints", &[]));
        }
    }
    let mut removed = BTreeSet::new();
    for r in &m.removed_constraints {
        if let Some(c) = &r.constraint {
            if active.contains(&c.id) || !removed.insert(c.id) {
                must.push(exp("DuplicatedConstraintID", "removed_constraints", &[]));
            }
        }
    }
    // 3 sense
    if !(m.sense == 1 || m.sense == 2) {
        must.push(exp(if m.sense == 0 { "UnspecifiedEnum" } else { "UnspecifiedEnum*" }, "sense", &[]));
    }
    // 4 objective
    match fn_state(&m.objective) {
        0 => must.push(exp("MissingField", "objective", &[])),
        1 => must.push(exp("UnsupportedV1Function", "objective", &[])),
        _ => {}
    }
    // 5 / 6 constraints
    let c_fn: &[(&'static str, &'static str)] = &[("ommx.v1.Constraint", "function")];
    let c_eq: &[(&'static str, &'static str)] = &[("ommx.v1.Constraint", "equality")];
    for c in &m.constraints {
        match fn_state(&c.function) {
            0 => must.push(exp("MissingField", "constraints", c_fn)),
            1 => must.push(exp("UnsupportedV1Function", "constraints", c_fn)),
            _ => {}
        }
        if !(c.equality == 1 || c.equality == 2) {
            must.push(exp(if c.equality == 0 { "UnspecifiedEnum" } else { "UnspecifiedEnum*" }, "constraints", c_eq));
        }
    }
    let r_c: &[(&'static str, &'static str)] = &[("ommx.v1.RemovedConstraint", "constraint")];
    let r_fn: &[(&'static str, &'static str)] = &[("ommx.v1.RemovedConstraint", "constraint"), ("ommx.v1.Constraint", "function")];
    let r_eq: &[(&'static str, &'static str)] = &[("ommx.v1.RemovedConstraint", "constraint"), ("ommx.v1.Constraint", "equality")];
    for r in &m.removed_constraints {
        match &r.constraint {
            None => must.push(exp("MissingField", "removed_constraints", r_c)),
            Some(c) => {
                match fn_state(&c.function) {
                    0 => must.push(exp("MissingField", "removed_constraints", r_fn)),
                    1 => must.push(exp("UnsupportedV1Function", "removed_constraints", r_fn)),
                    _ => {}
                }
                if !(c.equality == 1 || c.equality == 2) {
                    must.push(exp(if c.equality == 0 { "UnspecifiedEnum" } else { "UnspecifiedEnum*" }, "removed_constraints", r_eq));
                }
            }
        }
    }
    // 7 variables
    let v_kind: &[(&'static str, &'static str)] = &[("ommx.v1.DecisionVariable", "kind")];
    let v_bound: &[(&'static str, &'static str)] = &[("ommx.v1.DecisionVariable", "bound")];
    for v in &m.decision_variables {
        if !(1..=5).contains(&v.kind) {
            must.push(exp(if v.kind == 0 { "UnspecifiedEnum" } else { "UnspecifiedEnum*" }, "decision_variables", v_kind));
        }
        if let Some(b) = &v.bound {
            if bound_invalid(b) {
                must.push(exp("InvalidBound", "decision_variables", v_bound));
            }
        }
    }
    // 8 dependencies
    for (k, f) in &m.decision_variable_dependency {
        if !ids.contains(k) {
            must.push(exp("UndefinedVariableID", "decision_variable_dependency", &[]));
        }
        if f.function.is_none() {
            must.push(exp("UnsupportedV1Function", "decision_variable_dependency", &[]));
        }
    }
    // 9 hints
    let mut hint_names_removed = false;
    if let Some(h) = &m.constraint_hints {
        // the path to the offending field, per kind of hint and per field of it
        const CH: &str = "ommx.v1.ConstraintHints";
        let oh_c: &[(&'static str, &'static str)] = &[(CH, "one_hot_constraints"), ("ommx.v1.OneHot", "constraint_id")];
        let oh_v: &[(&'static str, &'static str)] = &[(CH, "one_hot_constraints"), ("ommx.v1.OneHot", "decision_variables")];
        let s1_b: &[(&'static str, &'static str)] = &[(CH, "sos1_constraints"), ("ommx.v1.Sos1", "binary_constraint_id")];
        let s1_m: &[(&'static str, &'static str)] = &[(CH, "sos1_constraints"), ("ommx.v1.Sos1", "big_m_constraint_ids")];
        let s1_v: &[(&'static str, &'static str)] = &[(CH, "sos1_constraints"), ("ommx.v1.Sos1", "decision_variables")];
        let mut check_c = |id: u64, hp: &[(&'static str, &'static str)], must: &mut Vec<Expected>| {
            if !active.contains(&id) {
                if removed.contains(&id) {
                    hint_names_removed = true;
                } else {
                    must.push(exp("UndefinedConstraintID", "constraint_hints", hp));
                }
            }
        };
        let check_vars = |vs: &Vec<u64>, hp: &[(&'static str, &'static str)], must: &mut Vec<Expected>| {
            let mut seen = BTreeSet::new();
            for v in vs {
                if !ids.contains(v) {
                    must.push(exp("UndefinedVariableID", "constraint_hints", hp));
                } else if !seen.insert(*v) {
                    must.push(exp("NonUniqueVariableID", "constraint_hints", hp));
                }
            }
        };
        for o in &h.one_hot_constraints {
            check_c(o.constraint_id, oh_c, &mut must);
            check_vars(&o.decision_variables, oh_v, &mut must);
        }
        for s in &h.sos1_constraints {
            check_c(s.binary_constraint_id, s1_b, &mut must);
            let mut seen = BTreeSet::new();
            for b in &s.big_m_constraint_ids {
                let before = must.len();
                check_c(*b, s1_m, &mut must);
                if must.len() == before && !seen.insert(*b) {
                    must.push(exp("NonUniqueConstraintID", "constraint_hints", s1_m));
                }
            }
            check_vars(&s.decision_variables, s1_v, &mut must);
        }
    }
    TypedVerdict {
        must,
        undefined_in_body: !used_ids(m).is_subset(&ids),
        hint_names_removed,
    }
}

fn kind_of(e: &RawParseError) -> &'static str {
    match e {
        RawParseError::UnsupportedV1Function => "UnsupportedV1Function",
        RawParseError::MissingField { .. } => "MissingField",
        RawParseError::UnspecifiedEnum { .. } => "UnspecifiedEnum",
        RawParseError::DuplicatedVariableID { .. } => "DuplicatedVariableID",
        RawParseError::DuplicatedConstraintID { .. } => "DuplicatedConstraintID",
        RawParseError::UndefinedVariableID { .. } => "UndefinedVariableID",
        RawParseError::UndefinedConstraintID { .. } => "UndefinedConstraintID",
        RawParseError::NonUniqueVariableID { .. } => "NonUniqueVariableID",
        RawParseError::NonUniqueConstraintID { .. } => "NonUniqueConstraintID",
        RawParseError::InvalidBound(_) => "InvalidBound",
        RawParseError::DecodeError(_) => "DecodeError",
        // a variant added by a later SDK is a kind of its own (never equal to an expected kind)
        #[allow(unreachable_patterns)]
        _ => "OtherKind",
    }
}

/// The reported path, outermost hop first. The statement asks for "the path to the offending field", not
/// for the end at which the vector starts: the SDK stores the innermost hop first; a vector that starts at
/// the root message instead is read as it stands.
fn root_first(e: &ParseError) -> Vec<(&'static str, &'static str)> {
    let mut v: Vec<(&'static str, &'static str)> = e.context.iter().map(|c| (c.message, c.field)).collect();
    let starts_at_root = v.first().map_or(false, |c| c.0 == "ommx.v1.Instance") && v.last().map_or(false, |c| c.0 != "ommx.v1.Instance");
    if !starts_at_root {
        v.reverse();
    }
    v
}

/// the ommx.v1.Instance field an error is attributed to
fn top_field(e: &ParseError) -> Option<&'static str> {
    if let Some(c) = root_first(e).first() {
        if c.0 == "ommx.v1.Instance" {
            return Some(c.1);
        }
        return None;
    }
    if let RawParseError::MissingField { message, field } = &e.error {
        if *message == "ommx.v1.Instance" {
            return Some(field);
        }
    }
    None
}

// ---------------------------------------------------------------------------------------------
// typed content comparison (hook H4)

fn typed_fn_matches(t: &ommx::Function, m: &v1::Function) -> bool {
    use v1::function::Function as F;
    match (t, &m.function) {
        (ommx::Function::Constant(a), Some(F::Constant(b))) => a.to_bits() == b.to_bits() || a == b,
        (ommx::Function::Linear(a), Some(F::Linear(b))) => a == b,
        (ommx::Function::Quadratic(a), Some(F::Quadratic(b))) => a == b,
        (ommx::Function::Polynomial(a), Some(F::Polynomial(b))) => a == b,
        _ => false,
    }
}

fn compare_typed(t: &ommx::Instance, m: &v1::Instance) -> Vec<(String, String)> {
    let p = t.verif_parts();
    let mut out = vec![];
    let sense_ok = matches!((p.sense, m.sense), (ommx::Sense::Minimize, 1) | (ommx::Sense::Maximize, 2));
    if !sense_ok {
        out.push(("sense".into(), format!("typed {:?} vs message {}", p.sense, m.sense)));
    }
    if !m.objective.as_ref().map_or(false, |f| typed_fn_matches(p.objective, f)) {
        out.push(("objective".into(), format!("typed {:?} vs message {:?}", p.objective, m.objective)));
    }
    // variables
    if p.decision_variables.len() != m.decision_variables.len() {
        out.push(("variables-count".into(), format!("{} vs {}", p.decision_variables.len(), m.decision_variables.len())));
    }
    for v in &m.decision_variables {
        let Some(tv) = p.decision_variables.get(&ommx::VariableID::from(v.id)) else {
            out.push(("variable-missing".into(), format!("variable {} absent from the typed view", v.id)));
            continue;
        };
        let kind_ok = matches!(
            (tv.kind, v.kind),
            (ommx::Kind::Binary, 1) | (ommx::Kind::Integer, 2) | (ommx::Kind::Continuous, 3) | (ommx::Kind::SemiInteger, 4) | (ommx::Kind::SemiContinuous, 5)
        );
        if !kind_ok {
            out.push(("variable-kind".into(), format!("variable {}: typed {:?} vs message {}", v.id, tv.kind, v.kind)));
        }
        let (l, u) = effective_bound(v);
        if tv.bound.lower() != l || tv.bound.upper() != u {
            let tail = if v.bound.is_none() { "unspecified-bound" } else { "explicit-bound" };
            out.push((format!("typed-bound:{tail}"), format!("variable {} (kind {}): message bound {:?} means [{l}, {u}], typed view has [{}, {}]", v.id, v.kind, v.bound, tv.bound.lower(), tv.bound.upper())));
        }
        if tv.substituted_value.map(f64::to_bits) != v.substituted_value.map(f64::to_bits) || tv.name != v.name || tv.subscripts != v.subscripts || tv.parameters != v.parameters || tv.description != v.description || *tv.id != v.id {
            out.push(("variable-metadata".into(), format!("variable {}: typed {tv:?} vs message {v:?}", v.id)));
        }
    }
    // constraints
    let cmp_c = |tc: &ommx::Constraint, c: &v1::Constraint| -> Option<String> {
        let eq_ok = matches!((tc.equality, c.equality), (ommx::Equality::EqualToZero, 1) | (ommx::Equality::LessThanOrEqualToZero, 2));
        if *tc.id != c.id || !eq_ok || !c.function.as_ref().map_or(false, |f| typed_fn_matches(&tc.function, f)) || tc.name != c.name || tc.subscripts != c.subscripts || tc.parameters != c.parameters || tc.description != c.description {
            Some(format!("typed {tc:?} vs message {c:?}"))
        } else {
            None
        }
    };
    if p.constraints.len() != m.constraints.len() {
        out.push(("constraints-count".into(), format!("{} vs {}", p.constraints.len(), m.constraints.len())));
    }
    for c in &m.constraints {
        match p.constraints.get(&ommx::ConstraintID::from(c.id)) {
            None => out.push(("constraint-missing".into(), format!("constraint {} absent", c.id))),
            Some(tc) => {
                if let Some(d) = cmp_c(tc, c) {
                    out.push(("constraint-content".into(), d));
                }
            }
        }
    }
    if p.removed_constraints.len() != m.removed_constraints.len() {
        out.push(("removed-constraints-count".into(), format!("{} vs {}", p.removed_constraints.len(), m.removed_constraints.len())));
    }
    for r in &m.removed_constraints {
        let Some(c) = &r.constraint else { continue };
        match p.removed_constraints.get(&ommx::ConstraintID::from(c.id)) {
            None => out.push(("removed-constraint-missing".into(), format!("removed constraint {} absent", c.id))),
            Some(tr) => {
                if let Some(d) = cmp_c(&tr.constraint, c) {
                    out.push(("removed-constraint-content".into(), d));
                }
                if tr.removed_reason != r.removed_reason || tr.removed_reason_parameters != r.removed_reason_parameters {
                    out.push(("removed-constraint-reason".into(), format!("typed {:?} {:?} vs message {:?} {:?}", tr.removed_reason, tr.removed_reason_parameters, r.removed_reason, r.removed_reason_parameters)));
                }
            }
        }
    }
    // dependencies
    if p.decision_variable_dependency.len() != m.decision_variable_dependency.len() {
        out.push(("dependencies-count".into(), String::new()));
    }
    for (k, f) in &m.decision_variable_dependency {
        match p.decision_variable_dependency.get(&ommx::VariableID::from(*k)) {
            Some(tf) if typed_fn_matches(tf, f) => {}
            other => out.push(("dependency-content".into(), format!("dependency of {k}: typed {other:?} vs message {f:?}"))),
        }
    }
    // hints
    let h = m.constraint_hints.clone().unwrap_or_default();
    let th = p.constraint_hints;
    let oh_ok = th.one_hot_constraints.len() == h.one_hot_constraints.len()
        && th.one_hot_constraints.iter().zip(h.one_hot_constraints.iter()).all(|(a, b)| *a.id == b.constraint_id && a.variables.iter().map(|v| **v).collect::<BTreeSet<u64>>() == b.decision_variables.iter().cloned().collect::<BTreeSet<u64>>());
    let sos_ok = th.sos1_constraints.len() == h.sos1_constraints.len()
        && th.sos1_constraints.iter().zip(h.sos1_constraints.iter()).all(|(a, b)| {
            *a.binary_constraint_id == b.binary_constraint_id
                && a.big_m_constraint_ids.iter().map(|v| **v).collect::<BTreeSet<u64>>() == b.big_m_constraint_ids.iter().cloned().collect::<BTreeSet<u64>>()
                && a.variables.iter().map(|v| **v).collect::<BTreeSet<u64>>() == b.decision_variables.iter().cloned().collect::<BTreeSet<u64>>()
        });
    if !oh_ok || !sos_ok {
        out.push(("hints".into(), format!("typed {th:?} vs message {h:?}")));
    }
    if p.parameters != &m.parameters {
        out.push(("parameters".into(), format!("typed {:?} vs message {:?}", p.parameters, m.parameters)));
    }
    if p.description != &m.description {
        out.push(("description".into(), format!("typed {:?} vs message {:?}", p.description, m.description)));
    }
    out
}

// ---------------------------------------------------------------------------------------------
// bases and faults

fn sdk_random_instance(rng: &mut Rng) -> v1::Instance {
    let mut seed = [0u8; 32];
    for c in seed.chunks_mut(8) {
        c.copy_from_slice(&rng.next_u64().to_le_bytes());
    }
    let trng = proptest::test_runner::TestRng::from_seed(proptest::test_runner::RngAlgorithm::ChaCha, &seed);
    ommx::random::sample(trng, v1::Instance::arbitrary())
}

fn own_base(rng: &mut Rng) -> v1::Instance {
    let mut cfg = InstCfg::new(Regime::D);
    cfg.absent_functions = false;
    cfg.unset_oneof = false;
    cfg.semi_kinds = true;
    cfg.max_vars = 5;
    let g = gen_instance(rng, &cfg);
    let mut inst = g.instance;
    if inst.objective.is_none() {
        inst.objective = Some(f_const(0.0));
    }
    inst.constraint_hints = gen_hints(rng, &inst);
    // dependencies: key = a defined variable, function over defined variables
    let ids: Vec<u64> = inst.decision_variables.iter().map(|v| v.id).collect();
    if ids.len() >= 2 && rng.bool() {
        let k = ids[0];
        inst.decision_variable_dependency.insert(k, f_linear(linear(vec![(ids[1], 2.0)], 1.0)));
    }
    if rng.bool() {
        inst.parameters = Some(parameters(vec![(77, 1.5)]));
    }
    if let Some(v) = inst.decision_variables.first_mut() {
        if rng.bool() {
            v.substituted_value = Some(0.5);
        }
    }
    inst
}

type Fault = (String, Box<dyn Fn(&mut v1::Instance)>);

fn each_function_mut<'a>(m: &'a mut v1::Instance) -> Vec<(&'static str, &'a mut v1::Function)> {
    let mut v: Vec<(&'static str, &'a mut v1::Function)> = vec![];
    if let Some(f) = m.objective.as_mut() {
        v.push(("objective", f));
    }
    for c in m.constraints.iter_mut() {
        if let Some(f) = c.function.as_mut() {
            v.push(("constraint", f));
        }
    }
    for r in m.removed_constraints.iter_mut() {
        if let Some(c) = r.constraint.as_mut() {
            if let Some(f) = c.function.as_mut() {
                v.push(("removed-constraint", f));
            }
        }
    }
    v
}

/// number of id positions inside a function and a setter for position p
fn id_positions(f: &v1::Function) -> usize {
    use v1::function::Function as F;
    match &f.function {
        Some(F::Linear(l)) => l.terms.len(),
        Some(F::Quadratic(q)) => q.rows.len() * 2 + q.linear.as_ref().map_or(0, |l| l.terms.len()),
        Some(F::Polynomial(p)) => p.terms.iter().map(|m| m.ids.len()).sum(),
        _ => 0,
    }
}

fn set_id_at(f: &mut v1::Function, mut p: usize, id: u64) {
    use v1::function::Function as F;
    match &mut f.function {
        Some(F::Linear(l)) => l.terms[p].id = id,
        Some(F::Quadratic(q)) => {
            let n = q.rows.len();
            if p < n {
                q.rows[p] = id;
            } else if p < 2 * n {
                q.columns[p - n] = id;
            } else if let Some(l) = q.linear.as_mut() {
                l.terms[p - 2 * n].id = id;
            }
        }
        Some(F::Polynomial(pl)) => {
            for m in pl.terms.iter_mut() {
                if p < m.ids.len() {
                    m.ids[p] = id;
                    return;
                }
                p -= m.ids.len();
            }
        }
        _ => {}
    }
}

/// every single-fault mutation of `base`, at every position
fn enumerate_faults(base: &v1::Instance) -> Vec<Fault> {
    let mut out: Vec<Fault> = vec![];
    let nv = base.decision_variables.len();
    let nc = base.constraints.len();
    let nr = base.removed_constraints.len();
    const UNDEF: u64 = 999_999_937;
    // duplicate a variable id (copy entry i to the end / overwrite the id of j with the id of i)
    for i in 0..nv {
        out.push((format!("duplicate-variable-id@{i}"), Box::new(move |m| {
            let v = m.decision_variables[i].clone();
            m.decision_variables.push(v);
        })));
        for j in 0..nv {
            if i != j {
                out.push((format!("duplicate-variable-id@{i}->{j}"), Box::new(move |m| {
                    m.decision_variables[j].id = m.decision_variables[i].id;
                })));
            }
        }
    }
    // duplicate constraint ids
    for i in 0..nc {
        for j in 0..nc {
            if i != j {
                out.push((format!("duplicate-constraint-id:active/active@{i}->{j}"), Box::new(move |m| {
                    m.constraints[j].id = m.constraints[i].id;
                })));
            }
        }
        for j in 0..nr {
            out.push((format!("duplicate-constraint-id:active/removed@{i}->{j}"), Box::new(move |m| {
                let id = m.constraints[i].id;
                if let Some(c) = m.removed_constraints[j].constraint.as_mut() {
                    c.id = id;
                }
            })));
        }
    }
    for i in 0..nr {
        for j in 0..nr {
            if i != j {
                out.push((format!("duplicate-constraint-id:removed/removed@{i}->{j}"), Box::new(move |m| {
                    let id = m.removed_constraints[i].constraint.as_ref().map(|c| c.id);
                    if let (Some(id), Some(c)) = (id, m.removed_constraints[j].constraint.as_mut()) {
                        c.id = id;
                    }
                })));
            }
        }
    }
    // undefined id at each term position of every function
    {
        let mut clone = base.clone();
        let fns = each_function_mut(&mut clone);
        for (fi, (what, f)) in fns.iter().enumerate() {
            for p in 0..id_positions(f) {
                let what = *what;
                out.push((format!("undefined-id:{what}@{fi}.{p}"), Box::new(move |m| {
                    // at every other position, when the instance records the parameters it was instantiated with, the
                    // undefined id is the id of such a recorded parameter (recorded, not defined as a variable)
                    let mut id = UNDEF + p as u64;
                    if (p + fi) % 2 == 1 {
                        if let Some(k) = m.parameters.as_ref().and_then(|ps| ps.entries.keys().copied().filter(|k| m.decision_variables.iter().all(|v| v.id != *k)).min()) {
                            id = k;
                        }
                    }
                    let mut fns = each_function_mut(m);
                    set_id_at(fns[fi].1, p, id);
                })));
            }
        }
    }
    // typed-only faults
    out.push(("sense-unspecified".into(), Box::new(|m| m.sense = 0)));
    out.push(("sense-unknown-value".into(), Box::new(|m| m.sense = 7)));
    out.push(("objective-absent".into(), Box::new(|m| m.objective = None)));
    out.push(("objective-unset-oneof".into(), Box::new(|m| m.objective = Some(f_unset()))));
    for i in 0..nc {
        out.push((format!("constraint-function-absent@{i}"), Box::new(move |m| m.constraints[i].function = None)));
        out.push((format!("constraint-function-unset-oneof@{i}"), Box::new(move |m| m.constraints[i].function = Some(f_unset()))));
        out.push((format!("constraint-equality-unspecified@{i}"), Box::new(move |m| m.constraints[i].equality = 0)));
    }
    for i in 0..nr {
        out.push((format!("removed-constraint-absent@{i}"), Box::new(move |m| m.removed_constraints[i].constraint = None)));
        out.push((format!("removed-constraint-function-absent@{i}"), Box::new(move |m| {
            if let Some(c) = m.removed_constraints[i].constraint.as_mut() {
                c.function = None;
            }
        })));
        out.push((format!("removed-constraint-function-unset-oneof@{i}"), Box::new(move |m| {
            if let Some(c) = m.removed_constraints[i].constraint.as_mut() {
                c.function = Some(f_unset());
            }
        })));
        out.push((format!("removed-constraint-equality-unspecified@{i}"), Box::new(move |m| {
            if let Some(c) = m.removed_constraints[i].constraint.as_mut() {
                c.equality = 0;
            }
        })));
    }
    for i in 0..nv {
        out.push((format!("kind-unspecified@{i}"), Box::new(move |m| m.decision_variables[i].kind = 0)));
        for (name, l, u) in [
            ("nan-lower", f64::NAN, 1.0),
            ("nan-upper", 0.0, f64::NAN),
            ("lower-plus-inf", f64::INFINITY, f64::INFINITY),
            ("upper-minus-inf", f64::NEG_INFINITY, f64::NEG_INFINITY),
            ("lower-above-upper", 2.0, 1.0),
            ("lower-above-upper-by-1e-17", 1e-17, 0.0),
            ("lower-above-upper-by-one-ulp", 1.0 + f64::EPSILON, 1.0),
            ("lower-above-upper-subnormal", 5e-324, 0.0),
            ("lower-above-upper-tiny-negative", 0.0, -1e-300),
        ] {
            out.push((format!("invalid-bound:{name}@{i}"), Box::new(move |m| m.decision_variables[i].bound = Some(bound(l, u)))));
        }
    }
    // hints
    if nc > 0 && nv > 0 {
        out.push(("hint:one-hot-undefined-constraint".into(), Box::new(|m| {
            let mut o = v1::OneHot::default();
            o.constraint_id = UNDEF;
            o.decision_variables = vec![m.decision_variables[0].id];
            m.constraint_hints.get_or_insert_with(Default::default).one_hot_constraints.push(o);
        })));
        out.push(("hint:one-hot-undefined-variable".into(), Box::new(|m| {
            let mut o = v1::OneHot::default();
            o.constraint_id = m.constraints[0].id;
            o.decision_variables = vec![m.decision_variables[0].id, UNDEF];
            m.constraint_hints.get_or_insert_with(Default::default).one_hot_constraints.push(o);
        })));
        out.push(("hint:one-hot-repeated-variable".into(), Box::new(|m| {
            let mut o = v1::OneHot::default();
            o.constraint_id = m.constraints[0].id;
            let v = m.decision_variables[0].id;
            o.decision_variables = vec![v, v];
            m.constraint_hints.get_or_insert_with(Default::default).one_hot_constraints.push(o);
        })));
        out.push(("hint:sos1-undefined-binary-constraint".into(), Box::new(|m| {
            let mut s = v1::Sos1::default();
            s.binary_constraint_id = UNDEF;
            m.constraint_hints.get_or_insert_with(Default::default).sos1_constraints.push(s);
        })));
        out.push(("hint:sos1-undefined-big-m".into(), Box::new(|m| {
            let mut s = v1::Sos1::default();
            s.binary_constraint_id = m.constraints[0].id;
            s.big_m_constraint_ids = vec![UNDEF];
            m.constraint_hints.get_or_insert_with(Default::default).sos1_constraints.push(s);
        })));
        out.push(("hint:sos1-repeated-big-m".into(), Box::new(|m| {
            let mut s = v1::Sos1::default();
            let c = m.constraints[0].id;
            s.binary_constraint_id = c;
            s.big_m_constraint_ids = vec![c, c];
            m.constraint_hints.get_or_insert_with(Default::default).sos1_constraints.push(s);
        })));
        out.push(("hint:sos1-repeated-variable".into(), Box::new(|m| {
            let mut s = v1::Sos1::default();
            s.binary_constraint_id = m.constraints[0].id;
            let v = m.decision_variables[nv_last(m)].id;
            s.decision_variables = vec![v, v];
            m.constraint_hints.get_or_insert_with(Default::default).sos1_constraints.push(s);
        })));
        out.push(("hint:sos1-undefined-variable".into(), Box::new(|m| {
            let mut s = v1::Sos1::default();
            s.binary_constraint_id = m.constraints[0].id;
            s.decision_variables = vec![UNDEF];
            m.constraint_hints.get_or_insert_with(Default::default).sos1_constraints.push(s);
        })));
    }
    // dependencies
    out.push(("dependency-key-undefined".into(), Box::new(|m| {
        m.decision_variable_dependency.insert(UNDEF, f_const(1.0));
    })));
    if nv > 0 {
        out.push(("dependency-function-unset-oneof".into(), Box::new(|m| {
            let k = m.decision_variables[0].id;
            m.decision_variable_dependency.insert(k, f_unset());
        })));
    }
    out
}

fn nv_last(m: &v1::Instance) -> usize {
    m.decision_variables.len() - 1
}

fn fault_class(name: &str) -> String {
    name.split('@').next().unwrap_or(name).to_string()
}

/// judge one message against the predicate; `label` = fault class (or "valid-base")
fn judge(m: &v1::Instance, label: &str, mon: &mut Monitor) {
    let ctx = || format!("case={label}\nmessage={m:?}");
    // validate()
    mon.eval();
    let vexp = validate_expected(m);
    match probe(|| m.validate().map_err(|e| format!("{e:#}"))) {
        Err(p) => mon.violation(format!("C08.panic:{}", panic_site(&p)), format!("validate panicked: {} at {}\n{}", p.message, p.location, ctx())),
        Ok(r) => match (r, vexp) {
            (Ok(()), Err(rule)) => mon.violation(format!("C08.validate-accepted:{rule}"), format!("validate() accepted a message that violates rule `{rule}`\n{}", ctx())),
            (Err(e), Ok(())) => mon.violation(format!("C08.validate-rejected-wellformed:{}", fault_class(label)), format!("validate() failed ({e}) although ids are unique and every used variable is defined\n{}", ctx())),
            _ => {}
        },
    }
    // try_from
    mon.eval();
    let tv = typed_expected(m);
    match probe(|| ommx::Instance::try_from(m.clone())) {
        Err(p) => mon.violation(format!("C08.panic:{}", panic_site(&p)), format!("try_from panicked: {} at {}\n{}", p.message, p.location, ctx())),
        Ok(Ok(typed)) => {
            if tv.hint_names_removed {
                mon.observe("try_from:hint-names-removed-constraint:accepted");
            }
            if !tv.must.is_empty() {
                let e = &tv.must[0];
                mon.violation(format!("C08.try-from-accepted:{}:{}", e.kind, e.top), format!("try_from accepted a message that violates {:?}\n{}", tv.must, ctx()));
                return;
            }
            if tv.undefined_in_body {
                mon.observe("try_from:undefined-id-inside-function-body:accepted");
            }
            for (tail, d) in compare_typed(&typed, m) {
                let sig = if tail == "typed-bound:unspecified-bound" {
                    "C08.typed-bound:unspecified-bound".to_string()
                } else {
                    format!("C08.typed-content:{tail}")
                };
                mon.violation(sig, format!("{d}\n{}", ctx()));
            }
        }
        Ok(Err(e)) => {
            let kind = kind_of(&e.error);
            if tv.must.is_empty() {
                if tv.undefined_in_body {
                    mon.observe("try_from:undefined-id-inside-function-body:rejected");
                } else if tv.hint_names_removed {
                    mon.observe("try_from:hint-names-removed-constraint:rejected");
                } else {
                    mon.violation(format!("C08.try-from-rejected-wellformed:{kind}"), format!("try_from failed on a well-formed message:\n{e}\n{}", ctx()));
                }
                return;
            }
            mon.facet(&format!("error-kind:{kind}"));
            // the reported kind and field must be those of one violated rule
            let top = top_field(&e);
            // the context lists the path from the offending field outwards to the Instance field
            // and must be an initial part of that path (the innermost field may be named by the error itself)
            let reported = root_first(&e);
            let on_path = |x: &Expected| reported.len() <= x.path.len() && reported.iter().zip(x.path.iter()).all(|(c, (m, f))| *m == c.0 && *f == c.1);
            // among the violated rules of this kind and field, prefer one whose path explains the whole context
            let hit = tv.must.iter().filter(|x| kind_matches(x.kind, kind) && Some(x.top) == top).max_by_key(|x| on_path(x));
            match hit {
                None => {
                    let want: BTreeSet<String> = tv.must.iter().map(|x| format!("{}@{}", x.kind, x.top)).collect();
                    mon.violation(
                        format!("C08.error-attribution:{}", fault_class(label)),
                        format!("try_from reported {kind} attributed to Instance field {top:?} (context {:?}); the violated rules are {want:?}\nerror:\n{e}\n{}", e.context.iter().map(|c| (c.message, c.field)).collect::<Vec<_>>(), ctx()),
                    );
                }
                Some(x) => {
                    if !on_path(x) {
                        mon.violation(
                            format!("C08.error-path:{}", fault_class(label)),
                            format!("the reported context {:?} is not an initial part of the path to the offending field of a violated rule of this kind (e.g. {:?}, outermost first)\nerror:\n{e}\n{}", e.context.iter().map(|c| (c.message, c.field)).collect::<Vec<_>>(), x.path, ctx()),
                        );
                    }
                }
            }
        }
    }
}

fn parametric_case(rng: &mut Rng, mon: &mut Monitor) {
    let mut cfg = InstCfg::new(Regime::D);
    cfg.max_vars = 4;
    let g = gen_instance(rng, &cfg);
    let inst = g.instance;
    let var_ids: BTreeSet<u64> = inst.decision_variables.iter().map(|v| v.id).collect();
    let mut pi: v1::ParametricInstance = inst.clone().into();
    let mut pids = vec![];
    let mut next = 600_000 + rng.below(10);
    for _ in 0..rng.below(3) {
        while var_ids.contains(&next) {
            next += 1;
        }
        pids.push(next);
        pi.parameters.push(parameter(next));
        next += 1;
    }
    if let (Some(p), Some(c)) = (pids.first(), pi.constraints.first_mut()) {
        c.function = Some(f_linear(linear(vec![(*p, 1.0)], 0.0)));
    }
    let fault = rng.below(9);
    let fname = match fault {
        0 => "valid",
        7 => {
            // constraint ids are unique across active AND removed constraints: two removed ones sharing an id
            let f = Some(f_linear(linear(vec![], 1.0)));
            pi.removed_constraints.push(removed(constraint(8_000_002, LE_ZERO, f.clone()), "a", Default::default()));
            if rng.bool() {
                pi.removed_constraints.push(removed(constraint(8_000_003, EQ_ZERO, f.clone()), "b", Default::default()));
            }
            pi.removed_constraints.push(removed(constraint(8_000_002, EQ_ZERO, f), "c", Default::default()));
            "duplicate-constraint-id:removed/removed"
        }
        8 if !pi.constraints.is_empty() => {
            let id = pi.constraints[0].id;
            pi.removed_constraints.push(removed(constraint(id, LE_ZERO, Some(f_linear(linear(vec![], 1.0)))), "a", Default::default()));
            "duplicate-constraint-id:active/removed"
        }
        6 => {
            // the parametric rule speaks of the objective and the ACTIVE constraints only: a removed constraint
            // may mention an id that is neither a variable nor a parameter
            let c = constraint(8_000_001, LE_ZERO, Some(f_linear(linear(vec![(987_654_322, 1.0)], 0.0))));
            pi.removed_constraints.push(removed(c, "earlier", Default::default()));
            "valid:undefined-id-only-in-a-removed-constraint"
        }
        1 if !var_ids.is_empty() => {
            let v = *var_ids.iter().next().unwrap();
            pi.parameters.push(parameter(v));
            "id-shared-by-variable-and-parameter"
        }
        2 if !pids.is_empty() => {
            pi.parameters.push(parameter(pids[0]));
            "duplicate-parameter-id"
        }
        3 => {
            pi.objective = Some(f_linear(linear(vec![(987_654_321, 1.0)], 0.0)));
            "undefined-id-in-objective"
        }
        4 if !pi.constraints.is_empty() => {
            let id = pi.constraints[0].id;
            let mut c = pi.constraints[0].clone();
            c.id = id;
            pi.constraints.push(c);
            "duplicate-constraint-id"
        }
        5 if !pi.constraints.is_empty() => {
            pi.constraints[0].function = Some(f_linear(linear(vec![(987_654_321, 2.0)], 0.0)));
            "undefined-id-in-constraint"
        }
        _ => "valid",
    };
    // independent predicate for the parametric rules
    let mut ids = BTreeSet::new();
    let mut ok = true;
    for v in &pi.decision_variables {
        ok &= ids.insert(v.id);
    }
    for p in &pi.parameters {
        ok &= ids.insert(p.id);
    }
    let mut used = BTreeSet::new();
    if let Some(f) = &pi.objective {
        used.extend(occurring_ids(f));
    }
    for c in &pi.constraints {
        if let Some(f) = &c.function {
            used.extend(occurring_ids(f));
        }
    }
    ok &= used.is_subset(&ids);
    let mut cids = BTreeSet::new();
    for c in &pi.constraints {
        ok &= cids.insert(c.id);
    }
    for r in &pi.removed_constraints {
        if let Some(c) = &r.constraint {
            ok &= cids.insert(c.id);
        }
    }
    mon.eval();
    mon.facet(&format!("parametric:{fname}"));
    mon.nontrivial(fp_msg(&pi) ^ 0x5555);
    match probe(|| pi.validate().map_err(|e| format!("{e:#}"))) {
        Err(p) => mon.violation(format!("C08.panic:{}", panic_site(&p)), format!("ParametricInstance::validate panicked: {}\n{pi:?}", p.message)),
        Ok(Ok(())) if !ok => mon.violation(format!("C08.parametric-validate-accepted:{fname}"), format!("{pi:?}")),
        Ok(Err(e)) if ok => mon.violation(format!("C08.parametric-validate-rejected-wellformed:{fname}"), format!("{e}\n{pi:?}")),
        _ => {}
    }
}

impl Property for C08 {
    fn id(&self) -> &'static str {
        "C08"
    }
    fn level(&self) -> &'static str {
        "fault_enumeration"
    }
    fn cases(&self, tier: Tier) -> u64 {
        match tier {
            Tier::Quick => 3_000,
            Tier::Thorough => 600_000,
        }
    }
    fn min_nontrivial(&self, tier: Tier) -> u64 {
        match tier {
            Tier::Quick => 25_000,
            Tier::Thorough => 5_000_000,
        }
    }
    fn rule(&self) -> &'static str {
        "each case takes one base instance (two of three from the harness generator with hints, dependencies, parameters, semi kinds, fixed values; one of three from the SDK's own proptest strategy), judges it, then applies EVERY single-fault mutation at EVERY position: duplicate a variable id (append / overwrite each other entry), duplicate a constraint id (active/active, active/removed, removed/removed), an undefined id at each term position of the objective / each constraint / each removed constraint, unset or unknown sense, absent objective, unset oneof, absent / unset constraint function, absent removed constraint, unspecified kind / equality, five invalid bound shapes per variable, eight hint faults, undefined dependency key, unset dependency function; then 10 random pairs of faults and up to 12 targeted pairs (an emptied removed entry + an undefined id in another removed constraint); plus one parametric-instance case (shared id, duplicate parameter, undefined id in objective / active constraint, duplicate constraint id among active, among removed and across the two lists; an undefined id that occurs only in a removed constraint is well-formed). An independent predicate decides the expected outcome of validate() and try_from (error kind, Instance field, and the context path, which may only name messages and fields on the way to the offending field of one violated rule of that kind); accepted messages are compared with the typed view through hook verif_parts. Non-trivial = every judged mutated message; distinct = fingerprint of the mutated message."
    }
    fn assumptions(&self) -> Vec<&'static str> {
        vec![
            "an undefined id inside a function body is asserted for validate() only; what try_from does with it is counted, not judged (the statement's conversion clause lists its own rules)",
            "hints naming a removed constraint are never generated; when the SDK strategy produces one the outcome is counted, not judged",
            "when several rules are violated (pairs) any one of them may be reported",
        ]
    }
    fn exhaustive(&self, _tier: Tier) -> bool {
        false
    }

    fn run_case(&self, k: u64, rng: &mut Rng, _env: &Env, mon: &mut Monitor) {
        let base = if k % 3 == 2 { sdk_random_instance(rng) } else { own_base(rng) };
        mon.facet(if k % 3 == 2 { "base:sdk-strategy" } else { "base:harness-generator" });
        judge(&base, "valid-base", mon);
        let base_ok = validate_expected(&base).is_ok() && typed_expected(&base).must.is_empty();
        if !base_ok {
            mon.facet("base-not-wellformed(judged-by-predicate)");
        }
        let faults = enumerate_faults(&base);
        if mon.want_sample() {
            mon.sample(json!({"base": format!("{base:?}"), "single_faults_applied": faults.iter().map(|f| f.0.clone()).collect::<Vec<_>>()}));
        }
        for (name, apply) in &faults {
            let mut m = base.clone();
            apply(&mut m);
            if m == base {
                continue;
            }
            mon.facet(&format!("fault:{}", fault_class(name)));
            let mut fp = Fp::new();
            fp.u64(fp_msg(&m)).str(name);
            mon.nontrivial(fp.finish());
            judge(&m, name, mon);
        }
        // random pairs
        if faults.len() >= 2 {
            for _ in 0..10 {
                let a = rng.usize_below(faults.len());
                let b = rng.usize_below(faults.len());
                if a == b {
                    continue;
                }
                let mut m = base.clone();
                (faults[a].1)(&mut m);
                // the second fault was enumerated on the base: positions may have moved, so apply defensively
                let r = std::panic::catch_unwind(std::panic::AssertUnwindSafe(|| {
                    let mut m2 = m.clone();
                    (faults[b].1)(&mut m2);
                    m2
                }));
                let Ok(m2) = r else { continue };
                mon.facet("fault-pair");
                let mut fp = Fp::new();
                fp.u64(fp_msg(&m2)).str("pair");
                mon.nontrivial(fp.finish());
                judge(&m2, &format!("pair:{}+{}", fault_class(&faults[a].0), fault_class(&faults[b].0)), mon);
            }
        }
        // targeted pairs: a removed entry without content next to an undefined id elsewhere among the
        // removed constraints (an empty entry must not end the walk over the list)
        {
            let empties: Vec<usize> = faults.iter().enumerate().filter(|(_, f)| f.0.starts_with("removed-constraint-absent@")).map(|(i, _)| i).collect();
            let undefs: Vec<usize> = faults.iter().enumerate().filter(|(_, f)| f.0.starts_with("undefined-id:removed")).map(|(i, _)| i).collect();
            let mut done = 0;
            'outer: for a in &empties {
                for b in &undefs {
                    if done >= 12 {
                        break 'outer;
                    }
                    let r = std::panic::catch_unwind(std::panic::AssertUnwindSafe(|| {
                        let mut m = base.clone();
                        (faults[*b].1)(&mut m);
                        (faults[*a].1)(&mut m);
                        m
                    }));
                    let Ok(m2) = r else { continue };
                    done += 1;
                    mon.facet("fault-pair:empty-removed-entry+undefined-id-in-a-removed-constraint");
                    let mut fp = Fp::new();
                    fp.u64(fp_msg(&m2)).str("pair-targeted");
                    mon.nontrivial(fp.finish());
                    judge(&m2, &format!("pair:{}+{}", fault_class(&faults[*a].0), fault_class(&faults[*b].0)), mon);
                }
            }
        }
        parametric_case(rng, mon);
        let _ = BTreeMap::<u64, u64>::new();
    }
}
