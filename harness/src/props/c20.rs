//! C20 — artifacts return what was stored in them.
//!
//! Each case builds one local OCI archive from a random history of `Builder::add_*` calls,
//! re-opens it and compares everything the reading API returns with the executable model
//! (the list of `(kind, message, annotation map)` in insertion order). Media types, annotation
//! keys and digests are written out / recomputed here, never taken from the SDK's constants.

use crate::build;
use crate::gen::{gen_instance, gen_state_in_bounds, InstCfg, Regime};
use crate::monitor::{panic_site, probe, Fp, Monitor, PanicInfo};
use crate::rng::Rng;
use crate::{Env, Property, Tier};
use chrono::{DateTime, Local, TimeZone, Utc};
use ommx::artifact::{
    Artifact, Builder, Config, InstanceAnnotations, ParametricInstanceAnnotations,
    SampleSetAnnotations, SolutionAnnotations,
};
use ommx::ocipkg::image::{ImageBuilder, OciArchive, OciArchiveBuilder, OciArtifactBuilder};
use ommx::ocipkg::oci_spec::image::{Descriptor, ImageManifestBuilder, MediaType};
use ommx::ocipkg::{Digest, ImageName};
use ommx::{v1, Evaluate};
use prost::Message;
use serde_json::{json, Value};
use std::collections::{BTreeMap, BTreeSet, HashMap};
use std::fmt::{Debug, Write as _};
use std::path::{Path, PathBuf};

pub struct C20;

// ---------------------------------------------------------------------------------------------
// model

#[derive(Clone, Copy, PartialEq, Eq, PartialOrd, Ord, Debug)]
enum Kind {
    Instance,
    Parametric,
    Solution,
    SampleSet,
}
const KINDS: [Kind; 4] = [Kind::Instance, Kind::Parametric, Kind::Solution, Kind::SampleSet];

impl Kind {
    fn name(self) -> &'static str {
        match self {
            Kind::Instance => "instance",
            Kind::Parametric => "parametric-instance",
            Kind::Solution => "solution",
            Kind::SampleSet => "sample-set",
        }
    }
    /// ARTIFACT.md: `application/org.ommx.v1.<kind>`
    fn media(self) -> String {
        format!("application/org.ommx.v1.{}", self.name())
    }
    fn media_type(self) -> MediaType {
        MediaType::Other(self.media())
    }
    /// ARTIFACT.md: `org.ommx.v1.<kind>.<field>`
    fn key(self, field: &str) -> String {
        format!("org.ommx.v1.{}.{}", self.name(), field)
    }
    fn instance_like(self) -> bool {
        matches!(self, Kind::Instance | Kind::Parametric)
    }
}

#[derive(Clone, PartialEq, Debug)]
enum Msg {
    I(v1::Instance),
    P(v1::ParametricInstance),
    S(v1::State),
    SS(v1::SampleSet),
}

impl Msg {
    fn kind(&self) -> Kind {
        match self {
            Msg::I(_) => Kind::Instance,
            Msg::P(_) => Kind::Parametric,
            Msg::S(_) => Kind::Solution,
            Msg::SS(_) => Kind::SampleSet,
        }
    }
    fn encode(&self) -> Vec<u8> {
        match self {
            Msg::I(m) => m.encode_to_vec(),
            Msg::P(m) => m.encode_to_vec(),
            Msg::S(m) => m.encode_to_vec(),
            Msg::SS(m) => m.encode_to_vec(),
        }
    }
    fn short(&self) -> String {
        let mut s = match self {
            Msg::I(m) => format!("{m:?}"),
            Msg::P(m) => format!("{m:?}"),
            Msg::S(m) => format!("{m:?}"),
            Msg::SS(m) => format!("{m:?}"),
        };
        if s.len() > 300 {
            let mut cut = 300;
            while !s.is_char_boundary(cut) {
                cut -= 1;
            }
            s.truncate(cut);
            s.push('…');
        }
        s
    }
}

/// what the typed setters were called with (None = setter not called)
#[derive(Clone, Default, Debug)]
struct Ann {
    title: Option<String>,
    authors: Option<Vec<String>>,
    created: Option<DateTime<Local>>,
    license: Option<String>,
    dataset: Option<String>,
    variables: Option<usize>,
    constraints: Option<usize>,
    start: Option<DateTime<Local>>,
    end: Option<DateTime<Local>>,
    instance: Option<String>,
    solver: Option<String>,
    parameters: Option<Value>,
    user: BTreeMap<String, String>,
}

impl Ann {
    /// the documented keys the setters must have written
    fn expected_keys(&self, kind: Kind) -> BTreeSet<String> {
        let mut s = BTreeSet::new();
        let mut add = |set: bool, f: &str| {
            if set {
                s.insert(kind.key(f));
            }
        };
        add(self.title.is_some(), "title");
        add(self.authors.is_some(), "authors");
        add(self.created.is_some(), "created");
        add(self.license.is_some(), "license");
        add(self.dataset.is_some(), "dataset");
        add(self.variables.is_some(), "variables");
        add(self.constraints.is_some(), "constraints");
        add(self.start.is_some(), "start");
        add(self.end.is_some(), "end");
        add(self.instance.is_some(), "instance");
        add(self.solver.is_some(), "solver");
        add(self.parameters.is_some(), "parameters");
        s.extend(self.user.keys().cloned());
        s
    }
    fn key_set_name(&self) -> String {
        let mut v: Vec<&str> = vec![];
        let mut add = |set: bool, f: &'static str| {
            if set {
                v.push(f);
            }
        };
        add(self.title.is_some(), "title");
        add(self.authors.is_some(), "authors");
        add(self.created.is_some(), "created");
        add(self.license.is_some(), "license");
        add(self.dataset.is_some(), "dataset");
        add(self.variables.is_some(), "variables");
        add(self.constraints.is_some(), "constraints");
        add(self.start.is_some(), "start");
        add(self.end.is_some(), "end");
        add(self.instance.is_some(), "instance");
        add(self.solver.is_some(), "solver");
        add(self.parameters.is_some(), "parameters");
        add(!self.user.is_empty(), "user");
        if v.is_empty() {
            "none".into()
        } else {
            v.join("+")
        }
    }
}

enum TAnn {
    I(InstanceAnnotations),
    P(ParametricInstanceAnnotations),
    S(SolutionAnnotations),
    SS(SampleSetAnnotations),
}

impl TAnn {
    fn map(&self) -> &HashMap<String, String> {
        match self {
            TAnn::I(a) => a,
            TAnn::P(a) => a,
            TAnn::S(a) => a,
            TAnn::SS(a) => a,
        }
    }
}

struct Layer {
    kind: Kind,
    msg: Msg,
    blob: Vec<u8>,
    digest: String,
    ann: Ann,
    /// inner map of the annotation object handed to `add_*`
    map: HashMap<String, String>,
    /// "generated" | "empty-message" | "repeat-of-<i>"
    origin: String,
}

fn sorted_map(m: &HashMap<String, String>) -> BTreeMap<&String, &String> {
    m.iter().collect()
}

fn describe(history: &[Layer]) -> String {
    let mut s = format!("history of {} add operation(s):\n", history.len());
    for (i, l) in history.iter().enumerate() {
        let _ = writeln!(
            s,
            "  [{i}] add_{} ({}) digest={} size={} annotations={:?}\n      message={}",
            l.kind.name().replace('-', "_"),
            l.origin,
            l.digest,
            l.blob.len(),
            sorted_map(&l.map),
            l.msg.short()
        );
    }
    s
}

/// `Monitor::violation` cuts details at a fixed byte offset; keep them shorter than that and cut
/// on a character boundary (the details here are full of multi-byte text).
fn viol(mon: &mut Monitor, signature: impl Into<String>, detail: String) {
    let mut d = detail;
    if d.len() > 5800 {
        let mut cut = 5800;
        while !d.is_char_boundary(cut) {
            cut -= 1;
        }
        d.truncate(cut);
        d.push_str("…[truncated]");
    }
    mon.violation(signature, d);
}

fn sha256_digest(blob: &[u8]) -> String {
    use sha2::{Digest as _, Sha256};
    let h = Sha256::digest(blob);
    let mut s = String::from("sha256:");
    for b in h {
        let _ = write!(s, "{b:02x}");
    }
    s
}

// ---------------------------------------------------------------------------------------------
// generators

const ALPHABET: &[&str] = &[
    "a", "b", "Z", "0", "9", " ", "  ", "-", "_", ".", ":", ";", "/", "\\", "\"", "'", "{", "}", "[", "]", "=",
    "é", "ü", "ß", "日本語", "数理最適化", "Ω", "ж", "𝒳", "\u{200b}", "\t", "\n", "\u{7f}", "\u{0}", "%", "&", "<", ">", "+",
];

fn hostile_string(rng: &mut Rng, allow_comma: bool) -> String {
    let s = match rng.below(10) {
        0 => String::new(),
        1 => " ".to_string(),
        2 => rng.ascii_word(8),
        3 => format!("{} {}", rng.ascii_word(5), rng.ascii_word(6)),
        4 => rng
            .pick(&[
                "巡回セールスマン問題 №1",
                "Ångström & Søn",
                "{\"json\": [1, 2]}",
                "  leading and trailing  ",
                "MIT OR Apache-2.0",
                "CC-BY-4.0",
                "line\nbreak\tand tab",
                "back\\slash \"quoted\"",
                "2024-01-01T00:00:00+09:00",
                "sha256:0000",
            ])
            .to_string(),
        5 => {
            // long
            let n = 100 + rng.usize_below(400);
            (0..n).map(|_| *rng.pick(ALPHABET)).collect()
        }
        _ => {
            let n = 1 + rng.usize_below(10);
            (0..n).map(|_| *rng.pick(ALPHABET)).collect()
        }
    };
    if allow_comma {
        if rng.chance(1, 6) {
            format!("{s},{}", rng.ascii_word(3))
        } else {
            s
        }
    } else {
        s.replace(',', "")
    }
}

/// an instant with nanosecond resolution between 1900 and 2200, expressed in the local zone
fn gen_time(rng: &mut Rng) -> DateTime<Local> {
    let secs = match rng.below(6) {
        0 => rng.range(-2_208_988_800, 0),          // before the epoch
        1 => rng.range(4_102_444_800, 7_258_118_400), // 2100..2200
        _ => rng.range(0, 4_102_444_800),
    };
    let nanos: u32 = match rng.below(6) {
        0 => 0,
        1 => rng.below(1000) as u32 * 1_000_000, // milliseconds
        2 => rng.below(1_000_000) as u32 * 1000, // microseconds
        3 => *rng.pick(&[1u32, 999_999_999, 100_000_000, 10, 999_999_990, 500]),
        _ => rng.below(1_000_000_000) as u32,
    };
    Utc.timestamp_opt(secs, nanos).single().expect("valid instant").with_timezone(&Local)
}

fn gen_digest_string(rng: &mut Rng) -> String {
    let mut s = String::from("sha256:");
    for _ in 0..4 {
        let _ = write!(s, "{:016x}", rng.next_u64());
    }
    s
}

fn gen_json(rng: &mut Rng, depth: u32) -> Value {
    let top = if depth == 0 { 8 } else { 6 };
    match rng.below(top) {
        0 => Value::Null,
        1 => json!(rng.bool()),
        2 => json!(rng.range(-1_000_000, 1_000_000)),
        3 => json!(*rng.pick(&[u64::MAX, i64::MAX as u64 + 1, 0, 1 << 53])),
        // dyadic floats: their shortest decimal form parses back exactly with any parser
        4 => json!(rng.range(-4096, 4096) as f64 / 8.0 + 0.0625),
        5 => json!(hostile_string(rng, true)),
        6 => {
            let n = rng.usize_below(4);
            Value::Array((0..n).map(|_| gen_json(rng, depth + 1)).collect())
        }
        _ => {
            let n = rng.usize_below(4);
            let mut m = serde_json::Map::new();
            for _ in 0..n {
                let k = if rng.chance(1, 4) { hostile_string(rng, true) } else { rng.ascii_word(6) };
                m.insert(k, gen_json(rng, depth + 1));
            }
            Value::Object(m)
        }
    }
}

fn gen_usize(rng: &mut Rng) -> usize {
    match rng.below(5) {
        0 => 0,
        1 => usize::MAX,
        2 => rng.below(1 << 40) as usize,
        _ => rng.below(1000) as usize,
    }
}

fn gen_ann(rng: &mut Rng, kind: Kind) -> Ann {
    let mut a = Ann::default();
    // density: empty map, sparse, or (almost) everything
    let (num, den) = *rng.pick(&[(0u64, 1u64), (1, 3), (1, 2), (9, 10)]);
    if kind.instance_like() {
        if rng.chance(num, den) {
            a.title = Some(hostile_string(rng, true));
        }
        if rng.chance(num, den) {
            let n = if rng.chance(1, 12) { 0 } else { 1 + rng.usize_below(4) };
            let mut names: Vec<String> = (0..n).map(|_| hostile_string(rng, false)).collect();
            // the comma-joined storage cannot tell [] from [""]: the list consisting of exactly one
            // empty name is observationally indistinguishable from the empty list and is not generated
            if names.len() == 1 && names[0].is_empty() {
                names[0] = "anonymous".to_string();
            }
            a.authors = Some(names);
        }
        if rng.chance(num, den) {
            a.created = Some(gen_time(rng));
        }
        if rng.chance(num, den) {
            a.license = Some(hostile_string(rng, true));
        }
        if rng.chance(num, den) {
            a.dataset = Some(hostile_string(rng, true));
        }
        if rng.chance(num, den) {
            a.variables = Some(gen_usize(rng));
        }
        if rng.chance(num, den) {
            a.constraints = Some(gen_usize(rng));
        }
    } else {
        if rng.chance(num, den) {
            a.start = Some(gen_time(rng));
        }
        if rng.chance(num, den) {
            a.end = Some(gen_time(rng));
        }
        if rng.chance(num, den) {
            a.instance = Some(gen_digest_string(rng));
        }
        if rng.chance(num, den) {
            a.solver = Some(gen_digest_string(rng));
        }
        if rng.chance(num, den) {
            a.parameters = Some(gen_json(rng, 0));
        }
    }
    if rng.chance(num.max(1), den.max(2)) {
        for _ in 0..1 + rng.below(3) {
            let key = if rng.chance(1, 5) {
                format!("org.ommx.user.{}.{}", rng.ascii_word(4), rng.ascii_word(4))
            } else {
                format!("org.ommx.user.{}", rng.ascii_word(8))
            };
            a.user.insert(key, hostile_string(rng, true));
        }
    }
    a
}

fn gen_solution_state(rng: &mut Rng) -> v1::State {
    if rng.bool() {
        let g = gen_instance(rng, &InstCfg::new(Regime::D));
        gen_state_in_bounds(rng, &g.instance, None, Regime::D)
    } else {
        let n = rng.usize_below(8);
        let specials = [-0.0, f64::INFINITY, f64::NEG_INFINITY, f64::MIN_POSITIVE, 5e-324, 1e300, 0.1, f64::MAX];
        build::state((0..n).map(|_| {
            let id = match rng.below(4) {
                0 => rng.next_u64(),
                1 => (1u64 << 32) + rng.below(8),
                _ => rng.below(30),
            };
            let v = if rng.chance(1, 4) { *rng.pick(&specials) } else { rng.range(-64, 64) as f64 / 4.0 };
            (id, v)
        }))
    }
}

fn gen_parametric(rng: &mut Rng) -> v1::ParametricInstance {
    let g = gen_instance(rng, &InstCfg::new(Regime::D));
    let mut p = v1::ParametricInstance::from(g.instance);
    for _ in 0..rng.below(4) {
        let mut q = build::parameter(1000 + rng.below(50));
        if rng.bool() {
            q.name = Some(hostile_string(rng, true));
        }
        if rng.bool() {
            q.subscripts = (0..rng.below(3)).map(|_| rng.range(-5, 5)).collect();
        }
        if rng.chance(1, 3) {
            q.parameters.insert(rng.ascii_word(4), hostile_string(rng, true));
            if rng.bool() {
                q.parameters.insert(rng.ascii_word(5), rng.ascii_word(3));
            }
        }
        if rng.chance(1, 3) {
            q.description = Some(hostile_string(rng, true));
        }
        p.parameters.push(q);
    }
    p
}

fn sampled_values(rng: &mut Rng, sample_ids: &[u64]) -> v1::SampledValues {
    // split the sample ids into one or two groups with one value each
    let mut sv = v1::SampledValues::default();
    let cut = rng.usize_below(sample_ids.len() + 1);
    for part in [&sample_ids[..cut], &sample_ids[cut..]] {
        if part.is_empty() {
            continue;
        }
        let mut e = v1::sampled_values::SampledValuesEntry::default();
        e.value = rng.range(-64, 64) as f64 / 8.0;
        e.ids = part.to_vec();
        sv.entries.push(e);
    }
    sv
}

fn gen_sample_set(rng: &mut Rng, mon: &mut Monitor) -> v1::SampleSet {
    if rng.chance(2, 3) {
        // through the SDK: evaluate complete in-bound samples of a random instance
        let g = gen_instance(rng, &InstCfg::new(Regime::D));
        let mut samples = v1::Samples::default();
        let n = 1 + rng.usize_below(3);
        for i in 0..n {
            let st = gen_state_in_bounds(rng, &g.instance, None, Regime::D);
            samples.entries.push(build::samples_entry(st, vec![i as u64 * 3 + rng.below(3)]));
        }
        match probe(|| g.instance.evaluate_samples(&samples)) {
            Ok(Ok((ss, _))) => {
                mon.facet("sample-set-source:evaluate_samples");
                return ss;
            }
            // not this property's business (C06 judges evaluate_samples): fall back
            Ok(Err(_)) => mon.observe("evaluate_samples returned Err while preparing a sample set (hand-built one used)"),
            Err(_) => mon.observe("evaluate_samples panicked while preparing a sample set (hand-built one used)"),
        }
    }
    mon.facet("sample-set-source:hand-built");
    let mut ss = v1::SampleSet::default();
    let n = rng.usize_below(4);
    let ids: Vec<u64> = (0..n as u64).map(|i| i * 2 + rng.below(2)).collect();
    if rng.chance(5, 6) {
        ss.objectives = Some(sampled_values(rng, &ids));
    }
    for _ in 0..rng.below(3) {
        let mut d = v1::SampledDecisionVariable::default();
        d.decision_variable = Some(build::dvar(rng.below(20), build::KIND_INTEGER, Some((-2.0, 5.0))));
        if rng.bool() {
            d.samples = Some(sampled_values(rng, &ids));
        }
        ss.decision_variables.push(d);
    }
    for _ in 0..rng.below(3) {
        let mut c = v1::SampledConstraint::default();
        c.id = rng.below(20);
        c.equality = if rng.bool() { build::EQ_ZERO } else { build::LE_ZERO };
        if rng.bool() {
            c.name = Some(hostile_string(rng, true));
        }
        if rng.chance(1, 3) {
            c.removed_reason = Some(rng.ascii_word(6));
            c.removed_reason_parameters.insert(rng.ascii_word(3), hostile_string(rng, true));
        }
        c.evaluated_values = Some(sampled_values(rng, &ids));
        c.used_decision_variable_ids = (0..rng.below(3)).collect();
        for id in &ids {
            c.feasible.insert(*id, rng.bool());
        }
        ss.constraints.push(c);
    }
    for id in &ids {
        ss.feasible.insert(*id, rng.bool());
        ss.feasible_relaxed.insert(*id, rng.bool());
    }
    ss.sense = if rng.bool() { build::SENSE_MIN } else { build::SENSE_MAX };
    ss
}

fn gen_msg(rng: &mut Rng, kind: Kind, mon: &mut Monitor) -> (Msg, &'static str) {
    if rng.chance(1, 25) {
        // the empty message of every kind encodes to the empty blob: zero-size layers, and the
        // same digest under different media types
        let m = match kind {
            Kind::Instance => Msg::I(v1::Instance::default()),
            Kind::Parametric => Msg::P(v1::ParametricInstance::default()),
            Kind::Solution => Msg::S(v1::State::default()),
            Kind::SampleSet => Msg::SS(v1::SampleSet::default()),
        };
        return (m, "empty-message");
    }
    let m = match kind {
        Kind::Instance => Msg::I(gen_instance(rng, &InstCfg::new(Regime::D)).instance),
        Kind::Parametric => Msg::P(gen_parametric(rng)),
        Kind::Solution => Msg::S(gen_solution_state(rng)),
        Kind::SampleSet => Msg::SS(gen_sample_set(rng, mon)),
    };
    (m, "generated")
}

// ---------------------------------------------------------------------------------------------
// SDK calls (all inside probes)

type Art = Artifact<OciArchive>;
type Probed<T> = Result<Result<T, String>, PanicInfo>;

fn es(e: anyhow::Error) -> String {
    format!("{e:#}")
}

macro_rules! set_instance_like {
    ($T:ty, $a:expr, $n:expr) => {{
        let a: &Ann = $a;
        let mut x = <$T>::default();
        if let Some(v) = &a.title {
            if v.len() % 2 == 0 {
                x.set_title(format!("{v}~superseded"));
                $n += 1;
            }
            x.set_title(v.clone());
            $n += 1;
        }
        if let Some(v) = &a.authors {
            x.set_authors(v.clone());
            $n += 1;
        }
        if let Some(v) = &a.created {
            x.set_created(*v);
            $n += 1;
        }
        if let Some(v) = &a.license {
            if v.len() % 2 == 1 {
                x.set_license(String::new());
                $n += 1;
            }
            x.set_license(v.clone());
            $n += 1;
        }
        if let Some(v) = &a.dataset {
            x.set_dataset(v.clone());
            $n += 1;
        }
        if let Some(v) = a.variables {
            x.set_variables(v);
            $n += 1;
        }
        if let Some(v) = a.constraints {
            x.set_constraints(v);
            $n += 1;
        }
        for (k, v) in &a.user {
            // every other key is set twice: the later call replaces the earlier value
            if k.len() % 2 == 0 {
                x.set_other(k.clone(), format!("{v}~superseded"));
                $n += 1;
            }
            x.set_other(k.clone(), v.clone());
            $n += 1;
        }
        x
    }};
}

macro_rules! set_solution_like {
    ($T:ty, $a:expr, $n:expr) => {{
        let a: &Ann = $a;
        let mut x = <$T>::default();
        if let Some(v) = &a.start {
            x.set_start(*v);
            $n += 1;
        }
        if let Some(v) = &a.end {
            x.set_end(*v);
            $n += 1;
        }
        if let Some(v) = &a.instance {
            x.set_instance(Digest::new(v).map_err(|e| format!("Digest::new({v}): {}", es(e)))?);
            $n += 1;
        }
        if let Some(v) = &a.solver {
            x.set_solver(Digest::new(v).map_err(|e| format!("Digest::new({v}): {}", es(e)))?);
            $n += 1;
        }
        if let Some(v) = &a.parameters {
            x.set_parameters(v.clone()).map_err(|e| format!("set_parameters: {}", es(e)))?;
            $n += 1;
        }
        for (k, v) in &a.user {
            // every other key is set twice: the later call replaces the earlier value
            if k.len() % 2 == 0 {
                x.set_other(k.clone(), format!("{v}~superseded"));
                $n += 1;
            }
            x.set_other(k.clone(), v.clone());
            $n += 1;
        }
        x
    }};
}

/// build the typed annotation object through the setters; returns it and the number of calls
fn build_tann(kind: Kind, a: &Ann) -> Probed<(TAnn, u64)> {
    probe(|| -> Result<(TAnn, u64), String> {
        let mut n = 0u64;
        let t = match kind {
            Kind::Instance => TAnn::I(set_instance_like!(InstanceAnnotations, a, n)),
            Kind::Parametric => TAnn::P(set_instance_like!(ParametricInstanceAnnotations, a, n)),
            Kind::Solution => TAnn::S(set_solution_like!(SolutionAnnotations, a, n)),
            Kind::SampleSet => TAnn::SS(set_solution_like!(SampleSetAnnotations, a, n)),
        };
        Ok((t, n))
    })
}

fn get_kind(art: &mut Art, kind: Kind, d: &Digest) -> Probed<(Msg, TAnn)> {
    probe(|| {
        match kind {
            Kind::Instance => art.get_instance(d).map(|(m, a)| (Msg::I(m), TAnn::I(a))),
            Kind::Parametric => art.get_parametric_instance(d).map(|(m, a)| (Msg::P(m), TAnn::P(a))),
            Kind::Solution => art.get_solution(d).map(|(m, a)| (Msg::S(m), TAnn::S(a))),
            Kind::SampleSet => art.get_sample_set(d).map(|(m, a)| (Msg::SS(m), TAnn::SS(a))),
        }
        .map_err(es)
    })
}

/// flatten a probe result; a panic becomes a `C20.panic:<site>` violation
fn settle<T>(mon: &mut Monitor, what: &str, r: Probed<T>, ctx: &dyn Fn() -> String) -> Option<Result<T, String>> {
    mon.eval();
    match r {
        Ok(x) => Some(x),
        Err(p) => {
            viol(mon,
                format!("C20.panic:{}", panic_site(&p)),
                format!("{what} panicked: {} at {}\n{}", p.message, p.location, ctx()),
            );
            None
        }
    }
}

/// one typed getter against what the setter was called with
fn judge<T: PartialEq + Debug>(
    mon: &mut Monitor,
    kind: Kind,
    key: &str,
    expected: Option<&T>,
    got: Probed<T>,
    // a full signature for a difference that is explained by a specific, separately tracked cause
    alt: &dyn Fn(&T, &T) -> Option<&'static str>,
    ctx: &dyn Fn() -> String,
) {
    let Some(got) = settle(mon, &format!("annotation getter {}.{key}", kind.name()), got, ctx) else {
        return;
    };
    match (expected, got) {
        (Some(e), Ok(g)) if *e == g => {}
        (Some(e), Ok(g)) if alt(e, &g).is_some() => viol(mon,
            alt(e, &g).unwrap(),
            format!("{}.{key}: setter stored {e:?}; after build and re-open the getter returned Ok({g:?})\n{}", kind.name(), ctx()),
        ),
        (Some(e), got) => viol(mon,
            format!("C20.annotation-getter:{}.{key}", kind.name()),
            format!("setter stored {e:?}; after build and re-open the getter returned {got:?}\n{}", ctx()),
        ),
        (None, Ok(g)) => viol(mon,
            format!("C20.unset-getter-ok:{}.{key}", kind.name()),
            format!("the key was never set, but the getter returned Ok({g:?})\n{}", ctx()),
        ),
        (None, Err(_)) => {}
    }
}

fn no_alt<T>(_: &T, _: &T) -> Option<&'static str> {
    None
}

/// `to_rfc3339()` prints the UTC offset in whole minutes but keeps the wall-clock time, so a
/// `DateTime<Local>` whose offset has a seconds part (local mean time of many zones before
/// ~1900-1972) is read back shifted by the rounding error of the offset (< 60 s, whole seconds).
fn alt_time(e: &DateTime<Local>, g: &DateTime<Local>) -> Option<&'static str> {
    let off = e.offset().local_minus_utc();
    let d = g.signed_duration_since(*e);
    let whole = d.subsec_nanos() == 0;
    (off % 60 != 0 && whole && d.num_seconds().abs() < 60).then_some("C20.annotation-getter:timestamp-shifted-by-sub-minute-utc-offset")
}

/// `[]` is joined to `""`, which splits into `[""]`
fn alt_authors(e: &Vec<String>, g: &Vec<String>) -> Option<&'static str> {
    (e.is_empty() && g.len() == 1 && g[0].is_empty()).then_some("C20.annotation-getter:authors-empty-list-reads-as-one-empty-name")
}

macro_rules! check_instance_like {
    ($ra:expr, $a:expr, $kind:expr, $mon:expr, $ctx:expr) => {{
        let (ra, a, kind, mon, ctx) = ($ra, $a, $kind, &mut *$mon, $ctx);
        judge(mon, kind, "title", a.title.as_ref(), probe(|| ra.title().cloned().map_err(es)), &no_alt, ctx);
        judge(
            mon,
            kind,
            "authors",
            a.authors.as_ref(),
            probe(|| ra.authors().map(|it| it.map(|s| s.to_string()).collect::<Vec<String>>()).map_err(es)),
            &alt_authors,
            ctx,
        );
        judge(mon, kind, "created", a.created.as_ref(), probe(|| ra.created().map_err(es)), &alt_time, ctx);
        judge(mon, kind, "license", a.license.as_ref(), probe(|| ra.license().cloned().map_err(es)), &no_alt, ctx);
        judge(mon, kind, "dataset", a.dataset.as_ref(), probe(|| ra.dataset().cloned().map_err(es)), &no_alt, ctx);
        judge(mon, kind, "variables", a.variables.as_ref(), probe(|| ra.variables().map_err(es)), &no_alt, ctx);
        judge(mon, kind, "constraints", a.constraints.as_ref(), probe(|| ra.constraints().map_err(es)), &no_alt, ctx);
    }};
}

macro_rules! check_solution_like {
    ($ra:expr, $a:expr, $kind:expr, $mon:expr, $ctx:expr) => {{
        let (ra, a, kind, mon, ctx) = ($ra, $a, $kind, &mut *$mon, $ctx);
        judge(mon, kind, "start", a.start.as_ref(), probe(|| ra.start().map_err(es)), &alt_time, ctx);
        judge(mon, kind, "end", a.end.as_ref(), probe(|| ra.end().map_err(es)), &alt_time, ctx);
        judge(mon, kind, "instance", a.instance.as_ref(), probe(|| ra.instance().map(|d| d.to_string()).map_err(es)), &no_alt, ctx);
        judge(mon, kind, "solver", a.solver.as_ref(), probe(|| ra.solver().map(|d| d.to_string()).map_err(es)), &no_alt, ctx);
        judge(mon, kind, "parameters", a.parameters.as_ref(), probe(|| ra.parameters::<Value>().map_err(es)), &no_alt, ctx);
    }};
}

fn check_getters(mon: &mut Monitor, kind: Kind, a: &Ann, ra: &TAnn, ctx: &dyn Fn() -> String) {
    match ra {
        TAnn::I(ra) => check_instance_like!(ra, a, kind, mon, ctx),
        TAnn::P(ra) => check_instance_like!(ra, a, kind, mon, ctx),
        TAnn::S(ra) => check_solution_like!(ra, a, kind, mon, ctx),
        TAnn::SS(ra) => check_solution_like!(ra, a, kind, mon, ctx),
    }
    // user-defined keys have no typed getter: read through the map
    for (k, v) in &a.user {
        mon.eval();
        if ra.map().get(k) != Some(v) {
            viol(mon,
                format!("C20.annotation-getter:{}.user-key", kind.name()),
                format!("set_other({k:?}, {v:?}) was stored; the map read back holds {:?}\n{}", ra.map().get(k), ctx()),
            );
        }
    }
}

// ---------------------------------------------------------------------------------------------
// time zone of the process

/// `Local` is part of the API under test (`DateTime<Local>` in, `DateTime<Local>` out). The zone
/// is fixed per process before its first use, as a function of the seed only (so a replay sees
/// the same zone): the RFC 3339 strings then carry non-zero, DST-dependent, non-integral-hour
/// offsets. If the zone database is missing chrono falls back to UTC, which is harmless.
fn init_tz(seed: u64) -> &'static str {
    use std::sync::OnceLock;
    static TZ: OnceLock<&'static str> = OnceLock::new();
    TZ.get_or_init(|| {
        const ZONES: [&str; 6] = [
            "UTC",
            "America/St_Johns",
            "Asia/Kathmandu",
            "America/New_York",
            "Pacific/Chatham",
            "Asia/Tokyo",
        ];
        let z = ZONES[(seed % ZONES.len() as u64) as usize];
        // the worker is single-threaded and this runs before the first use of chrono::Local
        std::env::set_var("TZ", z);
        z
    })
}

// ---------------------------------------------------------------------------------------------

impl Property for C20 {
    fn id(&self) -> &'static str {
        "C20"
    }
    fn cases(&self, tier: Tier) -> u64 {
        match tier {
            Tier::Quick => 2_000,
            Tier::Thorough => 60_000,
        }
    }
    fn min_nontrivial(&self, tier: Tier) -> u64 {
        match tier {
            Tier::Quick => 450,
            Tier::Thorough => 13_000,
        }
    }
    fn rule(&self) -> &'static str {
        "each case: one local OCI archive (unnamed or named, with or without add_config) built from a history of 0-6 Builder::add_{instance, parametric_instance, solution, sample_set} calls; messages: random instances (gen_instance, dyadic regime), ParametricInstance::from(instance)+0-3 parameters, states (in-bound states or hand-built incl. -0.0/inf/subnormal/huge ids), sample sets (Instance::evaluate_samples or hand-built), occasionally the empty message of the kind or a repeat of an earlier message (duplicate digests, also across kinds); annotations through every typed setter with density 0/sparse/half/full: hostile strings (empty, spaces, unicode incl. astral and control characters, quotes, commas except in author names, 100-500 chars), nanosecond instants 1900-2200 as DateTime<Local> in a seed-chosen non-UTC zone, usize incl. 0 and MAX, random sha256 digests, JSON values of depth <= 2, 0-3 org.ommx.user.* keys, about half of the user keys, titles and licences set twice (the later value counts); build(), drop, Artifact::from_oci_archive, then get_manifest, get_layer, get_<kind> for all four kinds per layer, typed getters, unknown digests, get_layer_descriptors per media type, get_instances, get_solutions; every 4th case additionally builds a non-OMMX archive through ocipkg and reads its manifest. Non-trivial = history with at least one layer; distinct = fingerprint of (kind sequence, order-insensitive hash of each encoded message, sorted annotation maps)."
    }
    fn assumptions(&self) -> Vec<&'static str> {
        vec![
            "expected digest/size: sha256 and length of prost encode_to_vec() of the very message object handed to add_* (encoded before the call, so map iteration order is the same); media types and annotation keys are the literal strings of ARTIFACT.md, not the SDK's constants",
            "messages compare with prost PartialEq (map fields order-independent); no NaN is generated; for layers with a unique digest the raw blob returned by get_layer is also compared byte for byte",
            "timestamps compare as instants (DateTime equality, nanosecond resolution), never as strings; the process zone is set through TZ before chrono::Local is first used",
            "JSON parameters use integers, strings, booleans, null and dyadic floats only (exact with any float parser), compared as serde_json::Value",
            "author names contain no comma; two differences with a specific, input-determined cause are reported under their own signatures: an empty authors list read back as [\"\"], and a timestamp whose local UTC offset has a seconds part read back shifted by the rounding error of the offset (< 60 s, whole seconds)",
            "layers whose digest occurs more than once in the history (same message twice, or empty messages of different kinds): only the manifest entries and 'some kind of the group reads the message back' are judged; which annotations come back is recorded, not judged",
            "archives live in the worker's scratch directory only; no registry, push, pull, load or user data directory",
        ]
    }

    fn run_case(&self, k: u64, rng: &mut Rng, env: &Env, mon: &mut Monitor) {
        let tz = init_tz(env.seed);
        let _ = std::fs::create_dir_all(&env.scratch);
        let path = env.scratch.join(format!("c20-{k}.ommx"));
        let _ = std::fs::remove_file(&path);
        self.ommx_archive(k, rng, &path, tz, mon);
        let _ = std::fs::remove_file(&path);
        if k % 4 == 0 {
            let fpath = env.scratch.join(format!("c20-{k}-foreign.tar"));
            let _ = std::fs::remove_file(&fpath);
            foreign_archive(rng, &fpath, mon);
            let _ = std::fs::remove_file(&fpath);
        }
    }
}

impl C20 {
    fn ommx_archive(&self, _k: u64, rng: &mut Rng, path: &Path, tz: &str, mon: &mut Monitor) {
        // ---- history ------------------------------------------------------------------------
        let n = if rng.chance(1, 14) { 0 } else { 1 + rng.usize_below(6) };
        let mut history: Vec<Layer> = Vec::with_capacity(n);
        let mut typed: Vec<TAnn> = Vec::with_capacity(n);
        // a history concentrated on one or two kinds makes per-kind ordering observable
        let kinds_pool: Vec<Kind> = match rng.below(3) {
            0 => vec![*rng.pick(&KINDS), *rng.pick(&KINDS)],
            _ => KINDS.to_vec(),
        };
        for i in 0..n {
            let (kind, msg, origin) = if i > 0 && rng.chance(1, 12) {
                let j = rng.usize_below(i);
                (history[j].kind, history[j].msg.clone(), format!("repeat-of-{j}"))
            } else {
                let kind = *rng.pick(&kinds_pool);
                let (m, o) = gen_msg(rng, kind, mon);
                (kind, m, o.to_string())
            };
            let ann = if origin.starts_with("repeat") && rng.chance(1, 3) {
                let j: usize = origin["repeat-of-".len()..].parse().unwrap();
                history[j].ann.clone()
            } else {
                gen_ann(rng, kind)
            };
            let ctx = || format!("annotations for add #{i} ({}) = {ann:?}", kind.name());
            let (t, calls) = match build_tann(kind, &ann) {
                Ok(Ok(x)) => x,
                Ok(Err(e)) => {
                    mon.eval();
                    viol(mon, "C20.build-error", format!("an annotation setter failed: {e}\n{}", ctx()));
                    return;
                }
                Err(p) => {
                    mon.eval();
                    viol(mon,
                        format!("C20.panic:{}", panic_site(&p)),
                        format!("an annotation setter panicked: {} at {}\n{}", p.message, p.location, ctx()),
                    );
                    return;
                }
            };
            mon.evals(calls);
            let map = t.map().clone();
            // the setters must have written exactly the documented keys
            let keys: BTreeSet<String> = map.keys().cloned().collect();
            if keys != ann.expected_keys(kind) {
                viol(mon,
                    format!("C20.annotations:{}", kind.name()),
                    format!(
                        "the setters wrote the keys {keys:?}; ARTIFACT.md documents {:?} for what was set\n{}",
                        ann.expected_keys(kind),
                        ctx()
                    ),
                );
            }
            assert_eq!(msg.kind(), kind, "harness: message and kind agree");
            typed.push(t);
            history.push(Layer {
                kind,
                msg,
                blob: vec![],
                digest: String::new(),
                ann,
                map,
                origin,
            });
        }

        // ---- build --------------------------------------------------------------------------
        let named = rng.chance(1, 3);
        let with_config = rng.chance(1, 4);
        let config_at = rng.usize_below(n + 1);
        let ctx_build = |h: &[Layer]| format!("named={named} add_config={with_config}\n{}", describe(h));
        let b = probe(|| -> Result<Builder<OciArchiveBuilder>, String> {
            if named {
                let name = ImageName::parse("localhost:5000/verif/c20:case").map_err(es)?;
                Builder::new_archive(path.to_path_buf(), name).map_err(es)
            } else {
                Builder::new_archive_unnamed(path.to_path_buf()).map_err(es)
            }
        });
        let Some(b) = settle(mon, "Builder::new_archive*", b, &|| ctx_build(&history)) else { return };
        let mut builder = match b {
            Ok(b) => b,
            Err(e) => {
                viol(mon, "C20.build-error", format!("creating the builder failed: {e}\n{}", ctx_build(&history)));
                return;
            }
        };
        for (i, t) in typed.into_iter().enumerate() {
            if with_config && config_at == i {
                let r = probe(|| builder.add_config(Config {}).map_err(es));
                match settle(mon, "add_config", r, &|| ctx_build(&history)) {
                    Some(Ok(())) => {}
                    Some(Err(e)) => {
                        viol(mon, "C20.build-error", format!("add_config failed: {e}\n{}", ctx_build(&history)));
                        return;
                    }
                    None => return,
                }
            }
            // encode the very object that is handed over, before the call
            let blob = history[i].msg.encode();
            history[i].digest = sha256_digest(&blob);
            history[i].blob = blob;
            let msg = std::mem::replace(&mut history[i].msg, Msg::S(v1::State::default()));
            let keep = msg.clone();
            let r = probe(|| {
                match (msg, t) {
                    (Msg::I(m), TAnn::I(a)) => builder.add_instance(m, a),
                    (Msg::P(m), TAnn::P(a)) => builder.add_parametric_instance(m, a),
                    (Msg::S(m), TAnn::S(a)) => builder.add_solution(m, a),
                    (Msg::SS(m), TAnn::SS(a)) => builder.add_sample_set(m, a),
                    _ => unreachable!("kind of message and annotations agree by construction"),
                }
                .map_err(es)
            });
            history[i].msg = keep;
            match settle(mon, &format!("add #{i}"), r, &|| ctx_build(&history)) {
                Some(Ok(())) => {}
                Some(Err(e)) => {
                    viol(mon, "C20.build-error", format!("add #{i} failed: {e}\n{}", ctx_build(&history)));
                    return;
                }
                None => return,
            }
        }
        if with_config && config_at == n {
            let r = probe(|| builder.add_config(Config {}).map_err(es));
            match settle(mon, "add_config", r, &|| ctx_build(&history)) {
                Some(Ok(())) => {}
                Some(Err(e)) => {
                    viol(mon, "C20.build-error", format!("add_config failed: {e}\n{}", ctx_build(&history)));
                    return;
                }
                None => return,
            }
        }
        let r = probe(|| builder.build().map(drop).map_err(es));
        match settle(mon, "build", r, &|| ctx_build(&history)) {
            Some(Ok(())) => {}
            Some(Err(e)) => {
                viol(mon, "C20.build-error", format!("build() failed: {e}\n{}", ctx_build(&history)));
                return;
            }
            None => return,
        }
        let history = history; // frozen: this is the model
        let ctx = || format!("zone={tz} named={named} add_config={with_config}\n{}", describe(&history));

        // ---- accounting ---------------------------------------------------------------------
        mon.facet(&format!("history-length:{n}"));
        mon.facet(if named { "archive:named" } else { "archive:unnamed" });
        if with_config {
            mon.facet("archive:with-config");
        }
        for l in &history {
            mon.facet(&format!("kind:{}", l.kind.name()));
            mon.facet(&format!("annotation-keys:{}:{}", l.kind.name(), l.ann.key_set_name()));
            for key in l.map.keys() {
                let key = if key.starts_with("org.ommx.user.") { "org.ommx.user.*" } else { key.as_str() };
                mon.facet(&format!("annotation-key:{key}"));
            }
            if l.origin == "empty-message" {
                mon.facet("empty-message(zero-size blob)");
            }
        }
        if n > 0 {
            let mut fp = Fp::new();
            for l in &history {
                fp.str(l.kind.name());
                let mut sorted = l.blob.clone();
                sorted.sort_unstable();
                fp.bytes(&sorted);
                for (k, v) in sorted_map(&l.map) {
                    fp.str(k).str(v);
                }
            }
            mon.nontrivial(fp.finish());
        }
        if mon.want_sample() && n >= 2 {
            mon.sample(json!({
                "zone": tz, "named": named, "add_config": with_config,
                "history": history.iter().map(|l| json!({
                    "kind": l.kind.name(), "origin": l.origin, "digest": l.digest, "size": l.blob.len(),
                    "annotations": sorted_map(&l.map),
                })).collect::<Vec<_>>(),
            }));
        }
        let mut by_digest: BTreeMap<&str, Vec<usize>> = BTreeMap::new();
        for (i, l) in history.iter().enumerate() {
            by_digest.entry(&l.digest).or_default().push(i);
        }

        // ---- re-open ------------------------------------------------------------------------
        let r = probe(|| Artifact::from_oci_archive(path).map_err(es));
        let Some(r) = settle(mon, "Artifact::from_oci_archive", r, &ctx) else { return };
        let mut art: Art = match r {
            Ok(a) => a,
            Err(e) => {
                viol(mon, "C20.open-error", format!("from_oci_archive failed on an archive just built: {e}\n{}", ctx()));
                return;
            }
        };

        // ---- manifest -----------------------------------------------------------------------
        let r = probe(|| art.get_manifest().map_err(es));
        let Some(r) = settle(mon, "get_manifest", r, &ctx) else { return };
        let manifest = match r {
            Ok(m) => m,
            Err(e) => {
                viol(mon, "C20.open-error", format!("get_manifest failed on an OMMX archive just built: {e}\n{}", ctx()));
                return;
            }
        };
        let show = |ds: &[Descriptor]| -> String {
            ds.iter().map(|d| format!("{} {}", d.media_type(), d.digest())).collect::<Vec<_>>().join(", ")
        };
        let layers: &[Descriptor] = manifest.layers();
        if layers.len() != history.len() {
            viol(mon,
                "C20.layer-order",
                format!("the manifest has {} layer(s), the history {}: [{}]\n{}", layers.len(), history.len(), show(layers), ctx()),
            );
            return;
        }
        {
            // is it a reordering (same multiset of digests)?
            let mut a: Vec<&str> = layers.iter().map(|d| d.digest().as_str()).collect();
            let mut b: Vec<&str> = history.iter().map(|l| l.digest.as_str()).collect();
            if a != b {
                a.sort_unstable();
                b.sort_unstable();
                if a == b {
                    viol(mon,
                        "C20.layer-order",
                        format!("manifest layers are not in insertion order: [{}]\n{}", show(layers), ctx()),
                    );
                    return;
                }
            }
        }
        for (i, (d, l)) in layers.iter().zip(&history).enumerate() {
            let kn = l.kind.name();
            if d.media_type().to_string() != l.kind.media() {
                viol(mon,
                    format!("C20.media-type:{kn}"),
                    format!("manifest layer {i} has media type {}, expected {}\n{}", d.media_type(), l.kind.media(), ctx()),
                );
            }
            if d.digest() != &l.digest {
                viol(mon,
                    format!("C20.digest:{kn}"),
                    format!("manifest layer {i} has digest {}, sha256 of the encoded message is {}\n{}", d.digest(), l.digest, ctx()),
                );
            }
            if d.size() != l.blob.len() as i64 {
                viol(mon,
                    format!("C20.digest:{kn}"),
                    format!("manifest layer {i} has size {}, the encoded message has {} bytes\n{}", d.size(), l.blob.len(), ctx()),
                );
            }
            let dm = d.annotations().clone().unwrap_or_default();
            if dm != l.map {
                viol(mon,
                    format!("C20.annotations:{kn}"),
                    format!("manifest layer {i} carries annotations {:?}, stored {:?}\n{}", sorted_map(&dm), sorted_map(&l.map), ctx()),
                );
            }
        }
        if mon.violations.iter().any(|v| v.case == mon.case && (v.signature.starts_with("C20.digest") || v.signature.starts_with("C20.media-type"))) {
            // by-digest reads below would only repeat the same defect
            return;
        }

        // ---- per layer, unique digests ------------------------------------------------------
        for (i, l) in history.iter().enumerate() {
            if by_digest[l.digest.as_str()].len() > 1 {
                continue;
            }
            let kn = l.kind.name();
            let dg = match probe(|| Digest::new(&l.digest).map_err(es)) {
                Ok(Ok(d)) => d,
                other => {
                    viol(mon, "C20.digest:unparsable", format!("Digest::new({}) failed: {:?}\n{}", l.digest, other.map(|r| r.map(|_| ())), ctx()));
                    continue;
                }
            };
            // raw layer
            let r = probe(|| art.get_layer(&dg).map_err(es));
            match settle(mon, "get_layer", r, &ctx) {
                Some(Ok((d, blob))) => {
                    if blob != l.blob {
                        viol(mon,
                            format!("C20.message:{kn}"),
                            format!("get_layer({}) returned {} bytes that differ from the {} bytes stored (layer {i})\n{}", l.digest, blob.len(), l.blob.len(), ctx()),
                        );
                    }
                    if d.digest() != &l.digest || d.media_type().to_string() != l.kind.media() {
                        viol(mon,
                            format!("C20.media-type:{kn}"),
                            format!("get_layer({}) returned the descriptor {} {} (layer {i} is {})\n{}", l.digest, d.media_type(), d.digest(), l.kind.media(), ctx()),
                        );
                    }
                }
                Some(Err(e)) => viol(mon,
                    format!("C20.message:{kn}"),
                    format!("get_layer({}) failed for layer {i}: {e}\n{}", l.digest, ctx()),
                ),
                None => {}
            }
            // own kind
            let r = get_kind(&mut art, l.kind, &dg);
            match settle(mon, &format!("get_{kn}"), r, &ctx) {
                Some(Ok((m, ra))) => {
                    if m != l.msg {
                        viol(mon,
                            format!("C20.message:{kn}"),
                            format!("get_{kn}({}) returned a different message (layer {i}):\n  read   {}\n  stored {}\n{}", l.digest, m.short(), l.msg.short(), ctx()),
                        );
                    }
                    if ra.map() != &l.map {
                        viol(mon,
                            format!("C20.annotations:{kn}"),
                            format!("get_{kn}({}) returned annotations {:?}, stored {:?} (layer {i})\n{}", l.digest, sorted_map(ra.map()), sorted_map(&l.map), ctx()),
                        );
                    }
                    check_getters(mon, l.kind, &l.ann, &ra, &ctx);
                }
                Some(Err(e)) => viol(mon,
                    format!("C20.message:{kn}"),
                    format!("get_{kn}({}) failed for layer {i}, which was added as {kn}: {e}\n{}", l.digest, ctx()),
                ),
                None => {}
            }
            // the three other kinds
            for other in KINDS {
                if other == l.kind {
                    continue;
                }
                let r = get_kind(&mut art, other, &dg);
                if let Some(Ok((m, _))) = settle(mon, &format!("get_{}", other.name()), r, &ctx) {
                    viol(mon,
                        format!("C20.wrong-kind-accepted:{kn}-as-{}", other.name()),
                        format!("layer {i} ({}) was stored as {kn}, but get_{} returned Ok({})\n{}", l.digest, other.name(), m.short(), ctx()),
                    );
                }
                mon.facet("wrong-kind-request");
            }
        }

        // ---- duplicate content --------------------------------------------------------------
        for (dgs, idx) in &by_digest {
            if idx.len() < 2 {
                continue;
            }
            mon.facet("duplicate-content");
            let group_kinds: BTreeSet<Kind> = idx.iter().map(|i| history[*i].kind).collect();
            let cross = group_kinds.len() > 1;
            if cross {
                mon.facet("duplicate-content:across-kinds");
            }
            let Ok(Ok(dg)) = probe(|| Digest::new(dgs).map_err(es)) else { continue };
            let mut any_ok = false;
            for kind in KINDS {
                let r = get_kind(&mut art, kind, &dg);
                let Some(r) = settle(mon, &format!("get_{}", kind.name()), r, &ctx) else { continue };
                if !group_kinds.contains(&kind) {
                    if let Ok((m, _)) = r {
                        let stored: Vec<&str> = group_kinds.iter().map(|k| k.name()).collect();
                        viol(mon,
                            format!("C20.wrong-kind-accepted:{}-as-{}", stored.join("+"), kind.name()),
                            format!("digest {dgs} was stored only as {stored:?}, but get_{} returned Ok({})\n{}", kind.name(), m.short(), ctx()),
                        );
                    }
                    continue;
                }
                let members: Vec<usize> = idx.iter().cloned().filter(|i| history[*i].kind == kind).collect();
                match r {
                    Ok((m, ra)) => {
                        any_ok = true;
                        if m != history[members[0]].msg {
                            viol(mon,
                                format!("C20.message:{}", kind.name()),
                                format!("get_{}({dgs}) (digest stored {} times) returned a different message:\n  read   {}\n  stored {}\n{}", kind.name(), idx.len(), m.short(), history[members[0]].msg.short(), ctx()),
                            );
                        }
                        // which annotations come back is recorded, not judged
                        let matching: Vec<usize> = idx.iter().cloned().filter(|i| &history[*i].map == ra.map()).collect();
                        let all_same = idx.iter().all(|i| history[*i].map == history[idx[0]].map);
                        let what = if all_same && !matching.is_empty() {
                            "identical annotations on all copies, returned"
                        } else if matching.contains(&idx[0]) {
                            "annotations of the FIRST layer with that digest returned"
                        } else if matching.contains(idx.last().unwrap()) {
                            "annotations of the LAST layer with that digest returned"
                        } else if !matching.is_empty() {
                            "annotations of a MIDDLE layer with that digest returned"
                        } else {
                            "annotations of NO layer with that digest returned"
                        };
                        mon.observe(&format!("duplicate digest, read as a kind it was stored as: {what}"));
                    }
                    Err(_) => {
                        mon.observe(&format!(
                            "duplicate digest stored under several media types: get_{} is Err because an earlier layer of another kind has the same digest",
                            kind.name()
                        ));
                    }
                }
            }
            if !any_ok {
                let stored: Vec<&str> = group_kinds.iter().map(|k| k.name()).collect();
                viol(mon,
                    format!("C20.message:{}", stored.join("+")),
                    format!("digest {dgs} is stored {} times (kinds {stored:?}) but no getter of these kinds reads it back\n{}", idx.len(), ctx()),
                );
            }
        }

        // ---- unknown digests ----------------------------------------------------------------
        let mut unknown = vec![gen_digest_string(rng)];
        if let Some(l) = history.first() {
            // the hex of a real layer under another algorithm name
            unknown.push(l.digest.replacen("sha256:", "sha512:", 1));
        }
        for u in &unknown {
            if by_digest.contains_key(u.as_str()) {
                continue;
            }
            let Ok(Ok(dg)) = probe(|| Digest::new(u).map_err(es)) else { continue };
            mon.facet("unknown-digest-request");
            let r = probe(|| art.get_layer(&dg).map(|(d, b)| (d.digest().clone(), b.len())).map_err(es));
            if let Some(Ok((d, len))) = settle(mon, "get_layer", r, &ctx) {
                viol(mon,
                    "C20.unknown-digest-accepted:layer",
                    format!("get_layer({u}) returned Ok (descriptor {d}, {len} bytes) although no layer has this digest\n{}", ctx()),
                );
            }
            for kind in KINDS {
                let r = get_kind(&mut art, kind, &dg);
                if let Some(Ok((m, _))) = settle(mon, &format!("get_{}", kind.name()), r, &ctx) {
                    viol(mon,
                        format!("C20.unknown-digest-accepted:{}", kind.name()),
                        format!("get_{}({u}) returned Ok({}) although no layer has this digest\n{}", kind.name(), m.short(), ctx()),
                    );
                }
            }
        }

        // ---- listing by media type ----------------------------------------------------------
        let mut requests: Vec<(String, MediaType, Vec<usize>)> = KINDS
            .iter()
            .map(|k| {
                let idx = history.iter().enumerate().filter(|(_, l)| l.kind == *k).map(|(i, _)| i).collect();
                (k.name().to_string(), k.media_type(), idx)
            })
            .collect();
        requests.push(("unused-media-type".into(), MediaType::Other("application/org.ommx.v1.nothing".into()), vec![]));
        for (name, mt, idx) in &requests {
            let r = probe(|| art.get_layer_descriptors(mt).map_err(es));
            match settle(mon, "get_layer_descriptors", r, &ctx) {
                Some(Ok(ds)) => {
                    let ok = ds.len() == idx.len()
                        && ds.iter().zip(idx).all(|(d, i)| {
                            let l = &history[*i];
                            d.digest() == &l.digest
                                && d.media_type().to_string() == l.kind.media()
                                && d.size() == l.blob.len() as i64
                                && d.annotations().clone().unwrap_or_default() == l.map
                        });
                    if !ok {
                        viol(mon,
                            format!("C20.layer-descriptors:{name}"),
                            format!("get_layer_descriptors({mt}) returned [{}]; the layers of that kind are, in insertion order, #{idx:?}\n{}", show(&ds), ctx()),
                        );
                    }
                }
                Some(Err(e)) => viol(mon,
                    format!("C20.layer-descriptors:{name}"),
                    format!("get_layer_descriptors({mt}) failed: {e}\n{}", ctx()),
                ),
                None => {}
            }
        }
        // get_instances / get_solutions
        let r = probe(|| art.get_instances().map_err(es));
        match settle(mon, "get_instances", r, &ctx) {
            Some(Ok(v)) => {
                let exp: Vec<&Layer> = history.iter().filter(|l| l.kind == Kind::Instance).collect();
                let ok = v.len() == exp.len()
                    && v.iter().zip(&exp).all(|((d, m), l)| d.digest() == &l.digest && Msg::I(m.clone()) == l.msg && d.annotations().clone().unwrap_or_default() == l.map);
                if !ok {
                    let ds: Vec<Descriptor> = v.iter().map(|x| x.0.clone()).collect();
                    viol(mon,
                        "C20.get-instances",
                        format!("get_instances() returned {} entr(ies) [{}]; expected exactly the instance layers in insertion order with their messages\n{}", v.len(), show(&ds), ctx()),
                    );
                }
            }
            Some(Err(e)) => viol(mon, "C20.get-instances", format!("get_instances() failed: {e}\n{}", ctx())),
            None => {}
        }
        let r = probe(|| art.get_solutions().map_err(es));
        match settle(mon, "get_solutions", r, &ctx) {
            Some(Ok(v)) => {
                let exp: Vec<&Layer> = history.iter().filter(|l| l.kind == Kind::Solution).collect();
                let ok = v.len() == exp.len()
                    && v.iter().zip(&exp).all(|((d, m), l)| d.digest() == &l.digest && Msg::S(m.clone()) == l.msg && d.annotations().clone().unwrap_or_default() == l.map);
                if !ok {
                    let ds: Vec<Descriptor> = v.iter().map(|x| x.0.clone()).collect();
                    viol(mon,
                        "C20.get-solutions",
                        format!("get_solutions() returned {} entr(ies) [{}]; expected exactly the solution layers in insertion order with their messages\n{}", v.len(), show(&ds), ctx()),
                    );
                }
            }
            Some(Err(e)) => viol(mon, "C20.get-solutions", format!("get_solutions() failed: {e}\n{}", ctx())),
            None => {}
        }
    }
}

// ---------------------------------------------------------------------------------------------
// negative: an image that is not an OMMX artifact

fn foreign_archive(rng: &mut Rng, path: &PathBuf, mon: &mut Monitor) {
    // layers may even use OMMX layer media types: only the artifact type decides
    let state = gen_solution_state(rng);
    let blob = state.encode_to_vec();
    let ommx_layer = rng.bool();
    let layer_type = if ommx_layer {
        MediaType::Other("application/org.ommx.v1.solution".into())
    } else {
        MediaType::Other("application/vnd.example.layer".into())
    };
    let variant = rng.below(5);
    let artifact_type: Option<&str> = match variant {
        0 => None,
        1 => Some("application/vnd.example.other"),
        2 => Some("application/org.ommx.v1.artifact+json"),
        3 => Some("application/org.ommx.v1.instance"),
        _ => Some("application/org.ommx.v2.artifact"),
    };
    let what = format!(
        "archive built through ocipkg with artifactType={artifact_type:?} and one layer of type {layer_type}"
    );
    // building is harness-side work with a third-party crate: a failure here is not a verdict
    let built = probe(|| -> Result<(), String> {
        let archive = OciArchiveBuilder::new_unnamed(path.clone()).map_err(es)?;
        match artifact_type {
            Some(t) => {
                let mut b = OciArtifactBuilder::new(archive, MediaType::Other(t.into())).map_err(es)?;
                b.add_layer(layer_type.clone(), &blob, HashMap::new()).map_err(es)?;
                b.build().map(drop).map_err(es)
            }
            None => {
                // a plain image manifest without artifactType
                let mut archive = archive;
                let config = archive.add_empty_json().map_err(es)?;
                let (digest, size) = archive.add_blob(&blob).map_err(es)?;
                let layer = ommx::ocipkg::oci_spec::image::DescriptorBuilder::default()
                    .media_type(layer_type.clone())
                    .digest(digest.to_string())
                    .size(size)
                    .build()
                    .map_err(|e| e.to_string())?;
                let manifest = ImageManifestBuilder::default()
                    .schema_version(2u32)
                    .config(config)
                    .layers(vec![layer])
                    .build()
                    .map_err(|e| e.to_string())?;
                archive.build(manifest).map(drop).map_err(es)
            }
        }
    });
    match built {
        Ok(Ok(())) => {}
        Ok(Err(e)) => {
            mon.observe(&format!("foreign archive could not be built through ocipkg (no verdict): {e}"));
            return;
        }
        Err(p) => {
            mon.observe(&format!("ocipkg panicked while building a foreign archive (no verdict): {}", p.message));
            return;
        }
    }
    mon.facet("foreign-artifact");
    mon.facet(&format!("foreign-artifact:type={}", artifact_type.unwrap_or("<absent>")));
    let ctx = || what.clone();
    let r = probe(|| Artifact::from_oci_archive(path).map_err(es));
    let Some(r) = settle(mon, "Artifact::from_oci_archive(foreign)", r, &ctx) else { return };
    let mut art = match r {
        // refusing the file at open time is as good as refusing its manifest
        Err(_) => {
            mon.observe("foreign archive rejected by from_oci_archive");
            return;
        }
        Ok(a) => a,
    };
    let r = probe(|| art.get_manifest().map_err(es));
    if let Some(Ok(m)) = settle(mon, "get_manifest(foreign)", r, &ctx) {
        viol(mon,
            "C20.foreign-artifact-accepted",
            format!("get_manifest() returned Ok (artifactType {:?}) for an {what}", m.artifact_type()),
        );
    }
    // everything that goes through the manifest check must fail as well
    let r = probe(|| art.get_layer_descriptors(&layer_type).map_err(es));
    if let Some(Ok(ds)) = settle(mon, "get_layer_descriptors(foreign)", r, &ctx) {
        viol(mon,
            "C20.foreign-artifact-accepted",
            format!("get_layer_descriptors() returned Ok ({} descriptor(s)) for an {what}", ds.len()),
        );
    }
    // by-digest getters do not read the artifact type: recorded, not judged (the property only
    // speaks about the manifest)
    if ommx_layer {
        if let Ok(Ok(dg)) = probe(|| Digest::new(&sha256_digest(&blob)).map_err(es)) {
            let r = probe(|| art.get_solution(&dg).map(|_| ()).map_err(es));
            match settle(mon, "get_solution(foreign)", r, &ctx) {
                Some(Ok(())) => mon.observe("get_solution(digest) on a non-OMMX image with a solution-typed layer: Ok"),
                Some(Err(_)) => mon.observe("get_solution(digest) on a non-OMMX image with a solution-typed layer: Err"),
                None => {}
            }
        }
    }
}
