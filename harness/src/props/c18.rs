//! C18 — writing an instance as MPS and reading it back returns the same problem.
//!
//! Each case generates a linear instance, writes it with `mps::write_file` into the worker's
//! scratch directory, loads the file with `mps::load_file` and compares sense, objective,
//! constraints (by id) and the value domain of every used variable. A second workload makes the
//! objective and/or some constraints nonlinear: the writer must refuse with the error that names
//! the offender.

use crate::build::*;
use crate::exact::{canon_function, Poly};
use crate::gen::{gen_constraint_id_pool, gen_metadata, id_pool};
use crate::monitor::{fp_msg, panic_site, probe, Monitor};
use crate::mps_model::{domain_of_dvar, Domain, Kind};
use crate::rng::Rng;
use super::c17::report;
use crate::{Env, Property, Tier};
use ommx::mps::{MpsParseError, MpsWriteError};
use ommx::v1;
use serde_json::json;
use std::collections::{BTreeMap, BTreeSet};

pub struct C18;

fn avoid_known() -> bool {
    // debugging aid only: the committed default generates the inputs of the known defect
    std::env::var("VERIF_C18_AVOID_KNOWN").map(|v| v == "1").unwrap_or(false)
}

// ---------------------------------------------------------------------------------------------
// generator

fn short_coef(rng: &mut Rng) -> f64 {
    let mut k = rng.range(-64, 64);
    if k == 0 {
        k = 5;
    }
    k as f64 / *rng.pick(&[1.0, 2.0, 4.0, 8.0])
}

/// arbitrary finite non-zero f64: the writer prints Rust's shortest round-trip decimal
fn arbitrary_coef(rng: &mut Rng) -> f64 {
    let x = match rng.below(4) {
        0 => *rng.pick(&[
            0.1 + 0.2,
            1e-7,
            123456.789e3,
            1.0 / 3.0,
            2.5e-12,
            9007199254740993.0,
            7.3e14,
            1e15,
            f64::EPSILON,
            1e-17,
            0.1,
            1e21,
            5e-9,
        ]),
        1 => {
            // random mantissa, decimal exponent in [-9, 12]
            let e = rng.range(-9, 12) as i32;
            (1.0 + rng.unit() * 9.0) * 10f64.powi(e)
        }
        2 => f64::from_bits(0x3FF0_0000_0000_0000 | (rng.next_u64() >> 12)) * 2f64.powi(rng.range(-20, 30) as i32),
        _ => (rng.range(1, 99_999) as f64) / 1000.0,
    };
    if rng.bool() {
        -x
    } else {
        x
    }
}

fn coef(rng: &mut Rng, arbitrary: bool) -> f64 {
    if arbitrary && rng.chance(2, 3) {
        arbitrary_coef(rng)
    } else {
        short_coef(rng)
    }
}

fn constant(rng: &mut Rng, arbitrary: bool) -> f64 {
    match rng.below(5) {
        0 | 1 => 0.0,
        _ => coef(rng, arbitrary),
    }
}

/// (bound, shape name); shapes of binaries stay inside [0,1] except `wider-than-[0,1]`, which
/// is counted but not judged
fn gen_bound18(rng: &mut Rng, kind: i32, avoid: bool) -> (Option<(f64, f64)>, &'static str) {
    let inf = f64::INFINITY;
    if kind == KIND_BINARY {
        return match rng.below(16) {
            0..=3 if !avoid => (None, "unspecified"),
            4 => (Some((0.0, 0.0)), "degenerate"),
            5 => (Some((1.0, 1.0)), "degenerate"),
            6 => (*rng.pick(&[Some((-1.0, 2.0)), Some((0.0, 5.0)), Some((0.0, inf))]), "wider-than-[0,1]"),
            _ => (Some((0.0, 1.0)), "finite"),
        };
    }
    let a = rng.range(-16, 16) as f64 / 4.0;
    let w = rng.range(1, 24) as f64 / 4.0;
    match rng.below(9) {
        0 | 1 if !avoid => (None, "unspecified"),
        2 => (Some((-inf, inf)), "infinite"),
        3 => (Some((a, inf)), "lower-only"),
        4 => (Some((-inf, a)), "upper-only"),
        5 => (Some((a, a)), "degenerate"),
        6 => (Some((a + 0.125, a + w + 0.375)), "fractional"),
        7 => (Some((-a.abs() - w, -a.abs())), "negative"),
        _ => (Some((a, a + w)), "finite"),
    }
}

fn gen_terms(rng: &mut Rng, pool: &[u64], arbitrary: bool, allow_empty: bool) -> Vec<(u64, f64)> {
    // normalised: every id at most once, no zero coefficient; long rows are dense and stay unsorted
    let mut ids: Vec<u64> = if pool.len() > 30 { rng.subset(pool, 9, 10) } else { rng.subset(pool, 1, 2) };
    if ids.is_empty() && !allow_empty && !pool.is_empty() {
        ids.push(*rng.pick(pool));
    }
    rng.shuffle(&mut ids);
    ids.into_iter().map(|i| (i, coef(rng, arbitrary))).collect()
}

/// coefficient of the term that makes a function nonlinear: clearly above the SDK's documented
/// threshold (|c| <= f64::EPSILON counts as zero), so the function's degree is not in question
fn nl_coef(rng: &mut Rng, arbitrary: bool) -> f64 {
    loop {
        let c = coef(rng, arbitrary);
        if c.abs() >= 1e-6 {
            return c;
        }
    }
}

fn gen_nonlinear(rng: &mut Rng, pool: &[u64], arbitrary: bool) -> v1::Function {
    // a function with a genuine term of degree >= 2 (single entry per position: nothing cancels)
    let a = *rng.pick(pool);
    let b = *rng.pick(pool);
    let lin = linear(gen_terms(rng, pool, arbitrary, true), constant(rng, arbitrary));
    if rng.bool() {
        f_quadratic(quadratic(vec![(a, b, nl_coef(rng, arbitrary))], if rng.bool() { Some(lin) } else { None }))
    } else {
        let mut terms: Vec<(Vec<u64>, f64)> = vec![];
        let c = *rng.pick(pool);
        if rng.bool() {
            terms.push((vec![a, b, c], nl_coef(rng, arbitrary)));
        } else {
            terms.push((vec![a, b], nl_coef(rng, arbitrary)));
        }
        // lower-degree part: each id once, a constant
        for t in &lin.terms {
            terms.push((vec![t.id], t.coefficient));
        }
        if lin.constant != 0.0 {
            terms.push((vec![], lin.constant));
        }
        rng.shuffle(&mut terms);
        f_polynomial(polynomial(terms))
    }
}

struct Case {
    size: &'static str,
    inst: v1::Instance,
    shapes: BTreeMap<u64, &'static str>,
    nonlinear_objective: bool,
    nonlinear_constraints: BTreeSet<u64>,
    arbitrary: bool,
}

/// the same linear function in another message variant: a Quadratic without quadratic entries or a
/// Polynomial with monomials of degree <= 1 (each id once, no zero coefficient) is still linear
fn revariant(rng: &mut Rng, l: v1::Linear) -> v1::Function {
    match rng.below(6) {
        0 => f_quadratic(quadratic(vec![], Some(l))),
        1 => {
            let mut terms: Vec<(Vec<u64>, f64)> = l.terms.iter().map(|t| (vec![t.id], t.coefficient)).collect();
            if l.constant != 0.0 {
                terms.push((vec![], l.constant));
            }
            rng.shuffle(&mut terms);
            f_polynomial(polynomial(terms))
        }
        _ => f_linear(l),
    }
}

fn gen_case(rng: &mut Rng) -> Case {
    let avoid = avoid_known();
    let want_nonlinear = rng.chance(1, 8);
    let arbitrary = rng.chance(2, 5);
    let mut nv = if rng.chance(1, 30) { 0 } else { 1 + rng.usize_below(6) };
    if want_nonlinear {
        nv = nv.max(1);
    }
    // sizes: 1 case in 50 has 33..100 variables (rows of >= 32 unsorted terms), 1 in 800 is a
    // 300 x 40 dense instance with arbitrary coefficients (an MPS text of ~0.4 MB, > 32 KiB compressed)
    let size = rng.below(800);
    let huge = size == 0 && !want_nonlinear;
    let medium = (1..=16).contains(&size) && !want_nonlinear;
    let arbitrary = arbitrary || huge;
    if huge {
        nv = 300;
    } else if medium {
        nv = 33 + rng.usize_below(68);
    }
    let ids = id_pool(rng, nv, true);
    let mut inst = v1::Instance::default();
    let mut shapes = BTreeMap::new();
    for id in &ids {
        let kind = *rng.pick(&[KIND_BINARY, KIND_INTEGER, KIND_CONTINUOUS, KIND_CONTINUOUS]);
        let (b, shape) = gen_bound18(rng, kind, avoid);
        shapes.insert(*id, shape);
        let mut v = dvar(*id, kind, b);
        if rng.chance(1, 4) {
            v.name = Some(rng.ascii_word(4));
        }
        inst.decision_variables.push(v);
    }
    // some variables stay unused
    let pool: Vec<u64> = if nv > 1 && rng.chance(2, 3) {
        let mut p = if nv > 30 { rng.subset(&ids, 19, 20) } else { rng.subset(&ids, 3, 4) };
        if p.is_empty() {
            p.push(ids[0]);
        }
        p
    } else {
        ids.clone()
    };

    let mut nonlinear_objective = false;
    let mut nonlinear_constraints = BTreeSet::new();
    let nl_mode = if want_nonlinear { 1 + rng.below(3) } else { 0 }; // 1 objective, 2 constraints, 3 both

    inst.objective = if nl_mode == 1 || nl_mode == 3 {
        nonlinear_objective = true;
        Some(gen_nonlinear(rng, &pool, arbitrary))
    } else {
        match rng.below(12) {
            0 => None,
            1 => Some(f_const(constant(rng, arbitrary))),
            2 => Some(f_linear(linear(vec![], constant(rng, arbitrary)))),
            _ => {
                let l = linear(gen_terms(rng, &pool, arbitrary, pool.is_empty()), constant(rng, arbitrary));
                Some(revariant(rng, l))
            }
        }
    };
    inst.sense = if rng.bool() { SENSE_MIN } else { SENSE_MAX };

    let mut nc = rng.usize_below(6);
    if nl_mode >= 2 {
        nc = nc.max(1);
    }
    if huge {
        nc = 40;
    }
    let cids = gen_constraint_id_pool(rng, nc);
    let nl_pick = if nl_mode >= 2 { rng.usize_below(nc) } else { usize::MAX };
    for (i, cid) in cids.iter().enumerate() {
        let nonlinear = nl_mode >= 2 && (i == nl_pick || rng.chance(1, 4));
        let f = if nonlinear {
            nonlinear_constraints.insert(*cid);
            gen_nonlinear(rng, &pool, arbitrary)
        } else {
            match rng.below(10) {
                0 => f_const(constant(rng, arbitrary)),
                1 => f_linear(linear(vec![], constant(rng, arbitrary))),
                _ => {
                    let l = linear(gen_terms(rng, &pool, arbitrary, pool.is_empty()), constant(rng, arbitrary));
                    revariant(rng, l)
                }
            }
        };
        let mut c = constraint(*cid, if rng.bool() { EQ_ZERO } else { LE_ZERO }, Some(f));
        if rng.chance(1, 3) {
            gen_metadata(rng, &mut c);
        }
        inst.constraints.push(c);
    }
    // a constraint that was removed earlier is not part of the written problem and must not disturb it
    if rng.chance(1, 6) && !pool.is_empty() {
        let c = constraint(9_000_001, LE_ZERO, Some(f_linear(linear(gen_terms(rng, &pool, arbitrary, false), constant(rng, arbitrary)))));
        inst.removed_constraints.push(removed(c, "earlier", Default::default()));
    }
    if rng.chance(1, 3) {
        let mut d = v1::instance::Description::default();
        d.name = Some((*rng.pick(&["prob", "LP1", "roundtrip_case", "m"])).to_string());
        inst.description = Some(d);
    }
    Case {
        size: if huge { "huge" } else if medium { "medium" } else { "small" },
        inst,
        shapes,
        nonlinear_objective,
        nonlinear_constraints,
        arbitrary,
    }
}

// ---------------------------------------------------------------------------------------------

/// removes the scratch file (and the directory made for it) when the case ends, however it ends
struct Cleanup(std::path::PathBuf, std::path::PathBuf);

impl Drop for Cleanup {
    fn drop(&mut self) {
        let _ = std::fs::remove_file(&self.0);
        let _ = std::fs::remove_dir_all(&self.1);
    }
}

fn used_in(inst: &v1::Instance) -> BTreeSet<u64> {
    let mut s = BTreeSet::new();
    if let Some(f) = &inst.objective {
        s.extend(canon_function(f).ids());
    }
    for c in &inst.constraints {
        if let Some(f) = &c.function {
            s.extend(canon_function(f).ids());
        }
    }
    s
}

fn kind_name(k: i32) -> &'static str {
    match k {
        1 => "binary",
        2 => "integer",
        3 => "continuous",
        _ => "other",
    }
}

fn write_variant(e: &MpsWriteError) -> String {
    match e {
        MpsWriteError::InvalidConstraintType { .. } => "InvalidConstraintType".into(),
        MpsWriteError::InvalidObjectiveType { .. } => "InvalidObjectiveType".into(),
        MpsWriteError::InvalidVariableId(_) => "InvalidVariableId".into(),
        MpsWriteError::Io(_) => "Io".into(),
        #[allow(unreachable_patterns)]
        _ => "<other variant>".into(),
    }
}

fn parse_variant(e: &MpsParseError) -> &'static str {
    match e {
        MpsParseError::UnknownRowName(_) => "UnknownRowName",
        MpsParseError::InvalidRowType(_) => "InvalidRowType",
        MpsParseError::InvalidBoundType(_) => "InvalidBoundType",
        MpsParseError::InvalidHeader(_) => "InvalidHeader",
        MpsParseError::InvalidMarker(_) => "InvalidMarker",
        MpsParseError::InvalidObjSense(_) => "InvalidObjSense",
        MpsParseError::Io(_) => "Io",
        MpsParseError::ParseFloat(_) => "ParseFloat",
        #[allow(unreachable_patterns)]
        _ => "<other variant>",
    }
}

fn gunzip(path: &std::path::Path) -> String {
    use std::io::Read;
    let Ok(f) = std::fs::File::open(path) else {
        return "<file not readable>".into();
    };
    let mut s = String::new();
    let _ = flate2::read::GzDecoder::new(f).read_to_string(&mut s);
    s
}

fn show(p: &Poly) -> String {
    p.pretty()
}

impl Property for C18 {
    fn id(&self) -> &'static str {
        "C18"
    }
    fn cases(&self, tier: Tier) -> u64 {
        match tier {
            Tier::Quick => 40_000,
            Tier::Thorough => 3_000_000,
        }
    }
    fn min_nontrivial(&self, tier: Tier) -> u64 {
        match tier {
            Tier::Quick => 6_000,
            Tier::Thorough => 500_000,
        }
    }
    fn rule(&self) -> &'static str {
        "each case: one instance with 0-6 variables (binary/integer/continuous, ids small, sparse or up to 2^62, bound unspecified / finite / lower-only / upper-only / infinite / negative / fractional / degenerate), some of them unused, objective absent / constant / linear, 0-5 constraints (= 0 or <= 0, non-contiguous ids, constant-only ones included), normalised linear functions (each id once, no zero coefficient) with coefficients k/1..k/8 or arbitrary f64 (0.1+0.2, 1e-7, 123456.789e3, random mantissas), either sense; 1 case in 50 has 33-100 variables with dense rows of >= 32 terms stored unsorted, 1 in 800 is a dense 300 x 40 instance with arbitrary coefficients (MPS text ~0.4 MB, more than 32 KiB compressed); written with mps::write_file (file names with and without the usual ending, sometimes in a directory that does not exist yet) and re-read with mps::load_file, and in one linear case in four (every large one) the instance read back is written and read a second time and must still be the problem first written; about 1 case in 8 has a quadratic or polynomial objective and/or constraint of degree >= 2 and must be refused. Non-trivial = linear instance that uses at least one variable; distinct = fingerprint of the encoded instance."
    }
    fn assumptions(&self) -> Vec<&'static str> {
        vec![
            "functions are compared as exact rational polynomials of the f64 coefficients (the text form must round-trip every f64 exactly)",
            "domains are compared as sets for used variables only (integer [0,1] == binary; unspecified bound == unbounded, [0,1] for binary)",
            "out of the quantifier, never generated: zero-coefficient terms, repeated ids in a linear function, constraints without function, removed constraints, equality/sense unspecified, undefined ids, non-finite coefficients",
            "a binary variable whose explicit bound is wider than [0,1] is written with that bound as an integer: counted, not judged",
            "nonlinear = quadratic or polynomial message with a non-cancelling term of degree >= 2 whose |coefficient| >= 1e-6 (the SDK documents |c| <= f64::EPSILON as zero); degree<=1 functions stored in a quadratic/polynomial message are not generated",
        ]
    }

    fn run_case(&self, k: u64, rng: &mut Rng, env: &Env, mon: &mut Monitor) {
        let case = gen_case(rng);
        let inst = &case.inst;
        std::fs::create_dir_all(&env.scratch).expect("harness: scratch directory");
        // any file name, also in a directory that does not exist yet (write_file creates it)
        let path = match rng.below(8) {
            0 => env.scratch.join(format!("c18-{k}.MPS.GZ")),
            1 => env.scratch.join(format!("c18-{k}")),
            2 => env.scratch.join(format!("c18-{k}.dir")).join("sub dir").join("model.mps"),
            3 => env.scratch.join(format!("c18-{k}.mps")),
            _ => env.scratch.join(format!("c18-{k}.mps.gz")),
        };
        let _cleanup = Cleanup(path.clone(), env.scratch.join(format!("c18-{k}.dir")));
        let _ = std::fs::remove_file(&path);

        mon.eval();
        let w = probe(|| ommx::mps::write_file(inst, &path));
        let nonlinear = case.nonlinear_objective || !case.nonlinear_constraints.is_empty();
        let ctx = |path: &std::path::Path| format!("instance: {inst:?}\nfile written:\n{}", gunzip(path));

        if nonlinear {
            let class = match (case.nonlinear_objective, !case.nonlinear_constraints.is_empty()) {
                (true, true) => "objective+constraint",
                (true, false) => "objective",
                _ => "constraint",
            };
            mon.facet(&format!("nonlinear:{class}"));
            match w {
                Err(p) => report(mon, format!("C18.panic:{}", panic_site(&p)), format!("write_file panicked on a nonlinear instance: {} at {}\ninstance: {inst:?}", p.message, p.location)),
                Ok(Ok(())) => report(mon,
                    format!("C18.nonlinear-accepted:{}", if case.nonlinear_objective { "objective" } else { "constraint" }),
                    format!("write_file returned Ok although the instance has a nonlinear {class} (nonlinear constraint ids {:?})\n{}", case.nonlinear_constraints, ctx(&path)),
                ),
                Ok(Err(e)) => {
                    let names: BTreeSet<String> = case.nonlinear_constraints.iter().map(|i| format!("OMMX_CONSTR_{i}")).collect();
                    let ok = match &e {
                        MpsWriteError::InvalidObjectiveType { .. } => case.nonlinear_objective,
                        MpsWriteError::InvalidConstraintType { name, .. } => names.contains(name),
                        _ => false,
                    };
                    mon.facet(&format!("nonlinear-error:{}", write_variant(&e)));
                    if !ok {
                        let what = match &e {
                            MpsWriteError::InvalidObjectiveType { .. } => "objective-blamed-but-linear".to_string(),
                            MpsWriteError::InvalidConstraintType { .. } => "wrong-constraint-name".to_string(),
                            other => format!("variant-{}", write_variant(other)),
                        };
                        report(mon,
                            format!("C18.nonlinear-error:{what}"),
                            format!("write_file refused with `{e}` ({e:?}); nonlinear objective: {}, nonlinear constraints: {names:?}\ninstance: {inst:?}", case.nonlinear_objective),
                        );
                    }
                }
            }
            let _ = std::fs::remove_file(&path);
            return;
        }

        // linear instance
        let used = used_in(inst);
        if !used.is_empty() {
            mon.nontrivial(fp_msg(inst));
        }
        mon.facet(if case.arbitrary { "coefficients:arbitrary-f64" } else { "coefficients:short-decimals" });
        mon.facet(match &inst.objective {
            None => "objective:absent",
            Some(f) => {
                if canon_function(f).degree() == 0 {
                    "objective:constant"
                } else {
                    "objective:linear"
                }
            }
        });
        mon.facet(if inst.sense == SENSE_MAX { "sense:maximize" } else { "sense:minimize" });
        mon.facet(&format!("constraints:{}", inst.constraints.len()));
        for c in &inst.constraints {
            if c.function.as_ref().map_or(true, |f| canon_function(f).degree() == 0) {
                mon.facet("constraint:constant-only");
            }
        }
        for v in &inst.decision_variables {
            let u = if used.contains(&v.id) { "used" } else { "unused" };
            mon.facet(&format!("variable:{u}:{}/{}", kind_name(v.kind), case.shapes[&v.id]));
            if v.id >= 1 << 32 {
                mon.facet("variable:id>=2^32");
            }
        }
        if mon.want_sample() && !used.is_empty() {
            mon.sample(json!({"instance": format!("{inst:?}")}));
        }

        let Some(back) = load_back(mon, w, &path, inst, "") else {
            let _ = std::fs::remove_file(&path);
            return;
        };
        let ctx_s = ctx(&path);
        let _ = std::fs::remove_file(&path);
        mon.facet(&format!("size:{}", case.size));
        let long_unsorted = |f: &Option<v1::Function>| match f.as_ref().and_then(|f| f.function.as_ref()) {
            Some(v1::function::Function::Linear(l)) => l.terms.len() >= 32 && l.terms.windows(2).any(|w| w[0].id > w[1].id),
            _ => false,
        };
        if long_unsorted(&inst.objective) || inst.constraints.iter().any(|c| long_unsorted(&c.function)) {
            mon.facet("row-with->=32-terms-stored-unsorted");
        }
        compare(mon, &case, &used, &back, &ctx_s, "");
        // one linear case in four (every medium / huge one): what was read is written and read again;
        // the result must still be the problem first written
        if case.size != "small" || rng.chance(1, 4) {
            mon.facet("second-round-trip");
            mon.eval();
            let w2 = probe(|| ommx::mps::write_file(&back, &path));
            let note = "second round trip (the instance read back is written and read again): ";
            if let Some(back2) = load_back(mon, w2, &path, &back, note) {
                let ctx2 = format!("{ctx_s}\nsecond file:\n{}", gunzip(&path));
                compare(mon, &case, &used, &back2, &ctx2, note);
            }
            let _ = std::fs::remove_file(&path);
        }
    }
}

/// outcome of write_file, then load_file of the written file; reports refusals and panics
fn load_back(mon: &mut Monitor, w: Result<Result<(), MpsWriteError>, crate::monitor::PanicInfo>, path: &std::path::Path, written: &v1::Instance, note: &str) -> Option<v1::Instance> {
    match w {
        Err(p) => {
            report(mon, format!("C18.panic:{}", panic_site(&p)), format!("{note}write_file panicked: {} at {}\ninstance: {written:?}", p.message, p.location));
            return None;
        }
        Ok(Err(e)) => {
            report(mon, format!("C18.write-error:{}", write_variant(&e)), format!("{note}write_file refused a linear instance: {e}\ninstance: {written:?}"));
            return None;
        }
        Ok(Ok(())) => {}
    }
    mon.eval();
    let ctx = |path: &std::path::Path| format!("instance: {written:?}\nfile written:\n{}", gunzip(path));
    match probe(|| ommx::mps::load_file(path)) {
        Err(p) => {
            report(mon, format!("C18.panic:{}", panic_site(&p)), format!("{note}load_file panicked on the written file: {} at {}\n{}", p.message, p.location, ctx(path)));
            None
        }
        Ok(Err(e)) => {
            report(mon, format!("C18.load-error:{}", parse_variant(&e)), format!("{note}the written file is refused by load_file: {e}\n{}", ctx(path)));
            None
        }
        Ok(Ok(b)) => Some(b),
    }
}

/// the instance read back against the instance first written
fn compare(mon: &mut Monitor, case: &Case, used: &BTreeSet<u64>, back: &v1::Instance, ctx: &str, note: &str) {
    let inst = &case.inst;
    let ctx = format!("{note}{ctx}");
    {
        // sense
        if back.sense != inst.sense {
            report(mon, "C18.sense", format!("sense {} written, {} read back\n{ctx}", inst.sense, back.sense));
        }
        // objective
        let want_obj = match &inst.objective {
            Some(f) => canon_function(f),
            None => Poly::zero(),
        };
        let got_obj = match &back.objective {
            Some(f) => canon_function(f),
            None => Poly::zero(),
        };
        if want_obj != got_obj {
            report(mon, "C18.objective", format!("objective written {}, read back {}\n{ctx}", show(&want_obj), show(&got_obj)));
        }
        // constraints by id
        let mut got_c: BTreeMap<u64, Vec<&v1::Constraint>> = BTreeMap::new();
        for c in &back.constraints {
            got_c.entry(c.id).or_default().push(c);
        }
        for c in &inst.constraints {
            match got_c.remove(&c.id) {
                None => report(mon, "C18.constraint:missing", format!("constraint id {} is missing after the round trip (ids read back: {:?})\n{ctx}", c.id, back.constraints.iter().map(|c| c.id).collect::<Vec<_>>())),
                Some(v) if v.len() != 1 => report(mon, "C18.constraint:duplicate-id", format!("constraint id {} read back {} times\n{ctx}", c.id, v.len())),
                Some(v) => {
                    let g = v[0];
                    let want = c.function.as_ref().map(canon_function).unwrap_or_else(Poly::zero);
                    let got = g.function.as_ref().map(canon_function).unwrap_or_else(Poly::zero);
                    if want != got {
                        report(mon, "C18.constraint:function", format!("constraint id {}: written {}, read back {}\n{ctx}", c.id, show(&want), show(&got)));
                    }
                    if g.equality != c.equality {
                        report(mon, "C18.constraint:equality", format!("constraint id {}: equality {} written, {} read back\n{ctx}", c.id, c.equality, g.equality));
                    }
                }
            }
        }
        for (id, _) in got_c {
            report(mon, "C18.constraint:unexpected-id", format!("constraint id {id} read back but never written\n{ctx}"));
        }
        // domains of used variables
        let mut got_v: BTreeMap<u64, Vec<&v1::DecisionVariable>> = BTreeMap::new();
        for v in &back.decision_variables {
            got_v.entry(v.id).or_default().push(v);
        }
        for v in &inst.decision_variables {
            if !used.contains(&v.id) {
                continue;
            }
            let shape = case.shapes[&v.id];
            let tag = format!("{}/{}", kind_name(v.kind), shape);
            let Some(gs) = got_v.remove(&v.id) else {
                report(mon, "C18.variable:missing", format!("used variable id {} ({tag}) is missing after the round trip\n{ctx}", v.id));
                continue;
            };
            if gs.len() != 1 {
                report(mon, "C18.variable:duplicate-id", format!("variable id {} read back {} times\n{ctx}", v.id, gs.len()));
                continue;
            }
            let g = gs[0];
            let want = domain_of_dvar(v).expect("generated kinds are 1..3");
            match domain_of_dvar(g) {
                None => report(mon, format!("C18.kind:{tag}"), format!("variable id {} read back with kind {} bound {:?}\n{ctx}", v.id, g.kind, g.bound)),
                Some(got) => {
                    if got != want {
                        if shape == "wider-than-[0,1]" {
                            mon.observe("binary with explicit bound wider than [0,1] comes back as integer with that bound");
                            continue;
                        }
                        // classification: exactly the MPS default domain where nothing was specified
                        let default = Domain::new(if v.kind == KIND_CONTINUOUS { Kind::Continuous } else { Kind::Integer }, 0.0, f64::INFINITY);
                        let sig = if v.bound.is_none() && got == default { "C18.domain:bound-unspecified".to_string() } else { format!("C18.domain:{tag}") };
                        report(mon,
                            sig,
                            format!(
                                "used variable id {} written as kind {} bound {:?} = domain {}; read back kind {} bound {:?} = domain {}\n{ctx}",
                                v.id,
                                v.kind,
                                v.bound.as_ref().map(|b| (b.lower, b.upper)),
                                want.show(),
                                g.kind,
                                g.bound.as_ref().map(|b| (b.lower, b.upper)),
                                got.show()
                            ),
                        );
                    }
                }
            }
        }
        for (id, _) in got_v {
            // an unused but defined variable that reappears is harmless; an id that was never defined is not
            if !inst.decision_variables.iter().any(|v| v.id == id) {
                report(mon, "C18.variable:unexpected", format!("variable id {id} read back although the written instance does not define it\n{ctx}"));
            }
        }
    }
}
