//! C19 — QPLIB files are read as the problem they describe.
//!
//! Each case renders one abstract QP model (qplib_model.rs) for type code `k mod 120`, writes
//! the text to a file in the worker's scratch directory and calls `ommx::qplib::load_file`.
//! The returned instance is compared with the instance computed from the abstract model.

use crate::exact::*;
use crate::monitor::{panic_site, probe, Fp, Monitor, PanicInfo};
use crate::qplib_model::*;
use crate::rng::Rng;
use crate::{Env, Property, Tier};
use ommx::v1;
use serde_json::json;
use std::collections::{BTreeMap, BTreeSet};

pub struct C19;

/// The monitor keeps a bounded number of violations per worker. A defect that fires in most
/// cases must not crowd out a rarer, different one, so each signature is stored a few times
/// per worker and further occurrences are only counted.
const PER_SIGNATURE: usize = 6;

macro_rules! report {
    ($mon:expr, $sig:expr, $detail:expr $(,)?) => {{
        let sig: String = $sig.into();
        if $mon.violations.iter().filter(|v| v.signature == sig).count() < PER_SIGNATURE {
            $mon.violation(sig, $detail);
        } else {
            $mon.observe(&format!("further-occurrences:{sig}"));
        }
    }};
}

const MODELS_QUICK: u64 = 100;
const MODELS_THOROUGH: u64 = 10000;

fn load(env: &Env, text: &str) -> Result<Result<v1::Instance, String>, PanicInfo> {
    std::fs::create_dir_all(&env.scratch).expect("harness: scratch directory");
    // the file name is immaterial (chosen by the content, so that a replay takes the same one)
    let h = text.bytes().fold(7u32, |h, b| h.wrapping_mul(131).wrapping_add(b as u32));
    let path = env.scratch.join(["c19.qplib", "c19.QPLIB", "c19", "c19.qplib.txt", "c19 (1).lp"][(h % 5) as usize]);
    std::fs::write(&path, text.as_bytes()).expect("harness: write qplib file");
    // one text in five (chosen by its content, so that a replay takes the same path) goes through
    // load_file_bytes and is decoded again
    let via_bytes = text.bytes().fold(0u32, |h, b| h.wrapping_mul(31).wrapping_add(b as u32)) % 5 == 0;
    if via_bytes {
        probe(|| {
            ommx::qplib::load_file_bytes(&path)
                .map_err(|e| format!("{e:#}"))
                .map(|bytes| <v1::Instance as prost::Message>::decode(&bytes[..]).expect("harness: load_file_bytes returns an encoded Instance"))
        })
    } else {
        probe(|| ommx::qplib::load_file(&path).map_err(|e| format!("{e:#}")))
    }
}

/// every integer that follows the word "line" in an error text
fn line_numbers(msg: &str) -> Vec<usize> {
    let lower = msg.to_lowercase();
    let mut out = vec![];
    let mut rest = lower.as_str();
    while let Some(p) = rest.find("line") {
        rest = &rest[p + 4..];
        let t = rest.trim_start_matches([' ', ':', '#']);
        let digits: String = t.chars().take_while(|c| c.is_ascii_digit()).collect();
        if let Ok(n) = digits.parse::<usize>() {
            out.push(n);
        }
    }
    out
}

/// which classes of terms differ between two polynomials
fn diff_classes(obs: &Poly, exp: &Poly) -> (usize, String) {
    let keys: BTreeSet<&Vec<u64>> = obs.terms.keys().chain(exp.terms.keys()).collect();
    let mut classes = BTreeSet::new();
    let mut n = 0;
    for k in keys {
        if obs.terms.get(k) != exp.terms.get(k) {
            n += 1;
            classes.insert(match k.len() {
                0 => "constant",
                1 => "linear",
                2 if k[0] == k[1] => "diagonal",
                2 => "off-diagonal",
                _ => "higher-degree",
            });
        }
    }
    (n, classes.into_iter().collect::<Vec<_>>().join("+"))
}

fn observed_var(dv: &v1::DecisionVariable) -> Option<(VType, f64, f64)> {
    use v1::decision_variable::Kind;
    let kind = match Kind::try_from(dv.kind) {
        Ok(Kind::Binary) => VType::Binary,
        Ok(Kind::Integer) => VType::Integer,
        Ok(Kind::Continuous) => VType::Continuous,
        _ => return None,
    };
    let (l, u) = match &dv.bound {
        Some(b) => (b.lower, b.upper),
        None => {
            if kind == VType::Binary {
                (0.0, 1.0)
            } else {
                (f64::NEG_INFINITY, f64::INFINITY)
            }
        }
    };
    Some((kind, l, u))
}

fn is_discrete(k: VType) -> bool {
    k != VType::Continuous
}

fn judge_ok(model: &QpModel, exp: &Expected, inst: &v1::Instance, text: &str, mon: &mut Monitor) {
    let ctx = |extra: String| format!("{extra}\ntype code {}\n--- file ---\n{text}\n--- end ---", model.code());

    // ---- variables
    let dvs = &inst.decision_variables;
    if dvs.len() != exp.vars.len() {
        report!(mon,
            "C19.variables:count",
            ctx(format!("{} decision variables returned, the file declares {}", dvs.len(), exp.vars.len())),
        );
    } else {
        let ids: BTreeSet<u64> = dvs.iter().map(|d| d.id).collect();
        let want: BTreeSet<u64> = (0..exp.vars.len() as u64).collect();
        if ids != want {
            report!(mon,
                "C19.variables:ids",
                ctx(format!("variable ids {:?}, expected 0..{}", dvs.iter().map(|d| d.id).collect::<Vec<_>>(), exp.vars.len())),
            );
        } else {
            let by_id: BTreeMap<u64, &v1::DecisionVariable> = dvs.iter().map(|d| (d.id, d)).collect();
            for ev in &exp.vars {
                let dv = by_id[&ev.id];
                match observed_var(dv) {
                    None => report!(mon,
                        "C19.variables:kind",
                        ctx(format!("variable {} (file index {}) has kind code {}, the file declares {:?}", ev.id, ev.id + 1, dv.kind, ev.kind)),
                    ),
                    Some((k, l, u)) => {
                        let d = domain(k, l, u);
                        if d != ev.domain {
                            let what = if is_discrete(k) != is_discrete(ev.kind) { "kind" } else { "bound" };
                            report!(mon,
                                format!("C19.variables:{what}"),
                                ctx(format!(
                                    "variable {} (file index {}): returned {:?} [{}, {}] = {:?}; the file describes {:?} [{}, {}] = {:?} (infinity value {})",
                                    ev.id, ev.id + 1, k, l, u, d, ev.kind, ev.lower, ev.upper, ev.domain, model.infinity
                                )),
                            );
                        } else if k != ev.kind {
                            // the declared type is returned, except that an integer variable whose declared
                            // bounds are exactly (0,1), (1,1) or (0,0) may come back as binary (QPLIB's way of
                            // writing a binary or fixed binary variable) and a binary one as integer [0,1]
                            let pair = (ev.lower, ev.upper);
                            let documented = is_discrete(k) && is_discrete(ev.kind) && (ev.kind == VType::Binary || pair == (0.0, 1.0) || pair == (1.0, 1.0) || pair == (0.0, 0.0));
                            if documented {
                                mon.observe(&format!("kind-representation:{:?}-as-{:?}", ev.kind, k));
                            } else {
                                report!(mon,
                                    "C19.variables:declared-type",
                                    ctx(format!(
                                        "variable {} (file index {}): declared {:?} with bounds [{}, {}], returned as {:?} [{}, {}] (same value set, but the file's type is only replaced for integer variables bounded (0,1), (1,1) or (0,0))",
                                        ev.id, ev.id + 1, ev.kind, ev.lower, ev.upper, k, l, u
                                    )),
                                );
                            }
                        }
                    }
                }
                if dv.name != ev.name {
                    report!(mon,
                        "C19.variables:name",
                        ctx(format!("variable {} (file index {}): name {:?}, the file gives {:?}", ev.id, ev.id + 1, dv.name, ev.name)),
                    );
                }
            }
        }
    }

    // ---- objective
    match &inst.objective {
        None => report!(mon, "C19.objective:absent", ctx("the returned instance has no objective".into())),
        Some(f) => {
            let got = canon_function(f);
            if got != exp.objective {
                if exp.objective_full_diag != exp.objective && got == exp.objective_full_diag {
                    report!(mon,
                        "C19.objective:diagonal-not-halved",
                        ctx(format!(
                            "objective returned: {}\nexpected 1/2 x'Q0x + b0'x + q0 = {}\nthe returned function is the model with the diagonal entries of Q0 at full weight (x_i^2 gets Q_ii instead of Q_ii/2)",
                            got.pretty(), exp.objective.pretty()
                        )),
                    );
                } else {
                    // describe the difference against the closer of the two readings, so that the
                    // signature of a second failure does not depend on the known one being present
                    let (nh, ch) = diff_classes(&got, &exp.objective);
                    let (nf, cf) = diff_classes(&got, &exp.objective_full_diag);
                    let cls = if nf < nh {
                        report!(
                            mon,
                            "C19.objective:diagonal-not-halved",
                            ctx(format!(
                                "objective returned: {}\nexpected 1/2 x'Q0x + b0'x + q0 = {}\nthe returned function is closer to the model with the diagonal entries of Q0 at full weight (and differs from it too)",
                                got.pretty(), exp.objective.pretty()
                            )),
                        );
                        cf
                    } else {
                        ch
                    };
                    report!(
                        mon,
                        format!("C19.objective:differs-in-{cls}"),
                        ctx(format!("objective returned: {}\nexpected 1/2 x'Q0x + b0'x + q0 = {}", got.pretty(), exp.objective.pretty())),
                    );
                }
            }
        }
    }

    // ---- sense
    let want_sense = if exp.maximize { v1::instance::Sense::Maximize } else { v1::instance::Sense::Minimize } as i32;
    if inst.sense != want_sense {
        report!(mon,
            "C19.sense",
            ctx(format!("sense code {} returned, the file says {}", inst.sense, if exp.maximize { "maximize" } else { "minimize" })),
        );
    }

    // ---- constraints
    let cs = &inst.constraints;
    let mut seen = BTreeSet::new();
    for c in cs {
        if !seen.insert(c.id) {
            report!(mon, "C19.constraint:duplicate-id", ctx(format!("constraint id {} occurs twice", c.id)));
            break;
        }
    }
    let mut kinds_ok = true;
    for c in cs {
        if c.equality != v1::Equality::LessThanOrEqualToZero as i32 {
            kinds_ok = false;
            report!(mon,
                "C19.constraint:equality-kind",
                ctx(format!("constraint {} has equality code {}; every side of a QPLIB constraint is a `<= 0` constraint", c.id, c.equality)),
            );
            break;
        }
    }
    if !inst.removed_constraints.is_empty() {
        report!(mon,
            "C19.constraint:removed-nonempty",
            ctx(format!("{} removed constraints in a freshly loaded instance", inst.removed_constraints.len())),
        );
    }
    let observed: Vec<(u64, Poly)> = cs.iter().map(|c| (c.id, canon_opt_function(&c.function))).collect();
    let describe = |obs: &[(u64, Poly)]| -> String {
        let mut s = String::from("returned constraints (all `<= 0`):\n");
        for (id, p) in obs {
            s.push_str(&format!("  id {id}: {}\n", p.pretty()));
        }
        s.push_str("expected (one per finite side):\n");
        for e in &exp.sides {
            s.push_str(&format!("  row {} side c_{}: {}\n", e.row + 1, e.side, e.half.pretty()));
        }
        s
    };
    let mut obs_sorted: Vec<&Poly> = observed.iter().map(|o| &o.1).collect();
    obs_sorted.sort_by(|a, b| a.terms.cmp(&b.terms));
    let mut half_sorted: Vec<&Poly> = exp.sides.iter().map(|s| &s.half).collect();
    half_sorted.sort_by(|a, b| a.terms.cmp(&b.terms));
    let mut full_sorted: Vec<&Poly> = exp.sides.iter().map(|s| &s.full).collect();
    full_sorted.sort_by(|a, b| a.terms.cmp(&b.terms));

    if obs_sorted == half_sorted {
        // the id scheme is recorded, not judged
        if kinds_ok {
            let mut rest: Vec<Option<&(u64, Poly)>> = observed.iter().map(Some).collect();
            let mut scheme = true;
            for e in &exp.sides {
                let want_id = if e.side == 'u' { e.row } else { model.m + e.row } as u64;
                // among equal functions prefer the one that carries the documented id
                let pos = rest
                    .iter()
                    .position(|o| o.map_or(false, |o| o.1 == e.half && o.0 == want_id))
                    .or_else(|| rest.iter().position(|o| o.map_or(false, |o| o.1 == e.half)));
                if let Some(p) = pos {
                    if rest[p].unwrap().0 != want_id {
                        scheme = false;
                    }
                    rest[p] = None;
                }
            }
            if !exp.sides.is_empty() {
                mon.observe(if scheme { "constraint-ids:c_u-side=i,c_l-side=m+i" } else { "constraint-ids:other-scheme" });
            }
        }
    } else if obs_sorted == full_sorted {
        report!(mon,
            "C19.constraint:diagonal-not-halved",
            ctx(format!(
                "{}the returned functions are the model with the diagonal entries of Q^i at full weight (x_j^2 gets Q_jj instead of Q_jj/2)",
                describe(&observed)
            )),
        );
    } else {
        // match by content, first against the format's meaning, then against the known
        // full-weight-diagonal reading; whatever is left over is a different failure
        let mut rest: Vec<Option<&(u64, Poly)>> = observed.iter().map(Some).collect();
        let mut open: Vec<&ExpSide> = vec![];
        for e in &exp.sides {
            match rest.iter().position(|o| o.map_or(false, |o| o.1 == e.half)) {
                Some(p) => rest[p] = None,
                None => open.push(e),
            }
        }
        let mut open2: Vec<&ExpSide> = vec![];
        let mut known = false;
        for e in open {
            match rest.iter().position(|o| o.map_or(false, |o| o.1 == e.full)) {
                Some(p) if e.full != e.half => {
                    rest[p] = None;
                    known = true;
                }
                _ => open2.push(e),
            }
        }
        if known {
            report!(mon,
                "C19.constraint:diagonal-not-halved",
                ctx(format!("{}some returned functions carry the diagonal entries of Q^i at full weight", describe(&observed))),
            );
        }
        let left: Vec<&(u64, Poly)> = rest.into_iter().flatten().collect();
        if left.len() != open2.len() {
            let what = if left.len() < open2.len() { "side-missing" } else { "side-extra" };
            let sides: BTreeSet<String> = if left.len() < open2.len() {
                open2.iter().map(|e| format!("c_{}", e.side)).collect()
            } else {
                BTreeSet::new()
            };
            report!(mon,
                format!("C19.constraint:{what}{}", if sides.is_empty() { String::new() } else { format!(":{}", sides.into_iter().collect::<Vec<_>>().join("+")) }),
                ctx(format!(
                    "{}{} returned constraint(s) match no expected side, {} expected side(s) have no returned constraint (infinity value {})",
                    describe(&observed), left.len(), open2.len(), model.infinity
                )),
            );
        } else if !left.is_empty() {
            // pair each unmatched returned function with the closest unmatched expectation
            let mut classes = BTreeSet::new();
            let mut sides = BTreeSet::new();
            let mut pool: Vec<Option<&ExpSide>> = open2.iter().map(|e| Some(*e)).collect();
            let mut any_via_full = false;
            for o in &left {
                // (differing terms, pool index, classes, reference was the full-weight reading)
                let mut best: Option<(usize, usize, String, bool)> = None;
                for (pi, e) in pool.iter().enumerate() {
                    if let Some(e) = e {
                        for (reference, via_full) in [(&e.half, false), (&e.full, true)] {
                            let (n, cls) = diff_classes(&o.1, reference);
                            if best.as_ref().map_or(true, |b| n < b.0) {
                                best = Some((n, pi, cls, via_full));
                            }
                        }
                    }
                }
                if let Some((_, pi, cls, via_full)) = best {
                    any_via_full |= via_full;
                    sides.insert(format!("c_{}", pool[pi].unwrap().side));
                    pool[pi] = None;
                    for c in cls.split('+') {
                        classes.insert(c.to_string());
                    }
                }
            }
            if any_via_full {
                report!(
                    mon,
                    "C19.constraint:diagonal-not-halved",
                    ctx(format!("{}some returned functions are closer to the model with the diagonal entries of Q^i at full weight (and differ from it too)", describe(&observed))),
                );
            }
            report!(mon,
                format!(
                    "C19.constraint:{}-side-differs-in-{}",
                    sides.into_iter().collect::<Vec<_>>().join("+"),
                    classes.into_iter().collect::<Vec<_>>().join("+")
                ),
                ctx(describe(&observed)),
            );
        }
    }

    // recorded only: names of the generated constraints, problem name
    if let Some(c) = cs.first() {
        let n = c.name.clone().unwrap_or_default();
        let shape = if n.ends_with("[c_u]") || n.ends_with("[c_l]") { "name-with-side-suffix" } else { "other" };
        mon.observe(&format!("constraint-names:{shape}"));
    }
    let pname = inst.description.as_ref().and_then(|d| d.name.clone());
    mon.observe(if pname.as_deref() == Some(model.name.as_str()) { "problem-name:kept" } else { "problem-name:differs" });
}

impl Property for C19 {
    fn id(&self) -> &'static str {
        "C19"
    }
    fn cases(&self, tier: Tier) -> u64 {
        match tier {
            Tier::Quick => 120 * MODELS_QUICK,
            Tier::Thorough => 120 * MODELS_THOROUGH,
        }
    }
    fn min_nontrivial(&self, tier: Tier) -> u64 {
        match tier {
            Tier::Quick => 2_800,
            Tier::Thorough => 270_000,
        }
    }
    fn rule(&self) -> &'static str {
        "each case k: type code number k mod 120 (O in LDCQ x V in CBMIG x C in NBLDCQ, so every code is rendered 25 / 2000 times per run); one abstract QP model (n<=5 variables, m<=4 constraints, lower-triangle Q0/Qi entries incl. diagonal, default+non-default b0 incl. explicit zeros and entries equal to the default, c_l/c_u/l/u with values at and beyond the file's infinity value (1e20, 1e30 or 10000) of either sign on either side, coefficients far below f64::EPSILON (1e-18, 5e-324, 1e-100) among b0 and bi entries, equal sides, types section for M/G, names, arbitrary starting points) rendered by the harness's own writer with random layout (comment lines !/#/%, blank lines, trailing commentary, blank or tab separator, indented / right-aligned scalar lines, case of code and sense keyword) and loaded with qplib::load_file (one text in five with load_file_bytes, decoded again); every 4th case additionally one single-fault text (bad type code / garbage count / negative count / number / index / variable type / sense keyword / truncation). Non-trivial = well-formed text with n >= 1; distinct = fingerprint of the rendered text."
    }
    fn assumptions(&self) -> Vec<&'static str> {
        vec![
            "expected instance is computed from the abstract model with exact rationals (diagonal entries count half, off-diagonal lower-triangle entries once); never from the text",
            "scope restriction: exactly one separator character (blank or tab) between the tokens of a line and no leading whitespace on data lines (the reader splits entry lines on single whitespace; published files use single blanks)",
            "all numbers are multiples of 1/4 below 1e6, tiny coefficients written in shortest round-trip exponent form, or the infinity markers 1e20/1e30 and their multiples; every decimal rendering used denotes the value exactly (or rounds to it for 1e30)",
            "variables are compared as value domains: binary = {0,1} within [l,u], integer [0,1] == binary; an infinite bound or side is sometimes written with the unusual sign (lower bound / c_l = +infinity value, upper bound / c_u = -infinity value), which by the statement's magnitude rule also means unbounded; no empty domains among the finite parts",
            "constraint id scheme, generated constraint names and the problem name are recorded, not judged; convexity promised by codes D/C is not checked by anyone",
            "lines with too few tokens or index 0 are provoked rarely and only counted (observations short-line-or-zero-index:*)",
            "each non-default list names an index at most once",
        ]
    }

    fn run_case(&self, k: u64, rng: &mut Rng, env: &Env, mon: &mut Monitor) {
        let (o, v, c) = code_letters(k % 120);
        let model = gen_model(rng, o, v, c);
        let layout = Layout::random(rng);
        let rendered = render(&model, &layout, rng);
        let text = rendered.text();
        let exp = model.expected();

        // ---- facets
        mon.facet(&format!("code:{}", model.code()));
        mon.facet(&format!("O:{o}"));
        mon.facet(&format!("V:{v}"));
        mon.facet(&format!("C:{c}"));
        for f in layout.facets() {
            mon.facet(&f);
        }
        mon.facet(&format!("n:{}", model.n));
        mon.facet(&format!("m:{}", model.m));
        mon.facet(&format!("infinity:{:e}", model.infinity));
        mon.facet(if model.b0.default == 0.0 { "b0:default-zero" } else { "b0:default-nonzero" });
        if model.b0.entries.iter().any(|e| e.1 == 0.0) {
            mon.facet(if model.b0.default == 0.0 { "b0:explicit-zero-entry/default-zero" } else { "b0:explicit-zero-entry/default-nonzero" });
        }
        if model.b0.entries.iter().any(|e| e.1 == model.b0.default) {
            mon.facet("b0:explicit-entry-equal-to-default");
        }
        if model.b0.entries.is_empty() && model.n > 0 {
            mon.facet("b0:defaults-only");
        }
        if model.q0.iter().any(|e| e.0 == e.1 && e.2 != 0.0) {
            mon.facet("Q0:diagonal-entry");
        }
        if model.q0.iter().any(|e| e.0 != e.1) {
            mon.facet("Q0:off-diagonal-entry");
        }
        if model.qi.iter().any(|e| e.1 == e.2 && e.3 != 0.0) {
            mon.facet("Qi:diagonal-entry");
        }
        if model.qi.iter().any(|e| e.1 != e.2) {
            mon.facet("Qi:off-diagonal-entry");
        }
        for r in 0..model.m {
            let (lo, up) = (model.cl.value(r), model.cu.value(r));
            let inf = model.infinity;
            let f = match (lo.abs() >= inf, up.abs() >= inf) {
                (true, true) => "sides:none-finite",
                (true, false) => "sides:c_u-only",
                (false, true) => "sides:c_l-only",
                (false, false) if lo == up => "sides:equal",
                _ => "sides:both",
            };
            mon.facet(f);
            if lo.abs() > inf || up.abs() > inf {
                mon.facet("sides:value-beyond-infinity");
            }
            if lo.abs() == inf || up.abs() == inf {
                mon.facet("sides:value-equal-to-infinity");
            }
        }
        if model.v != 'B' {
            for i in 0..model.n {
                let (lo, up) = (model.l.value(i), model.u.value(i));
                if lo.abs() > model.infinity || up.abs() > model.infinity {
                    mon.facet("bounds:value-beyond-infinity");
                }
                if lo.abs() == model.infinity || up.abs() == model.infinity {
                    mon.facet("bounds:value-equal-to-infinity");
                }
            }
            mon.facet(if model.l.entries.is_empty() && model.u.entries.is_empty() { "bounds:defaults-only" } else { "bounds:explicit-entries" });
        }
        for ev in &exp.vars {
            mon.facet(&format!("variable:{:?}", ev.kind));
            if ev.kind == VType::Integer && matches!((ev.lower, ev.upper), (l, u) if (l == 0.0 || l == 1.0) && (u == 0.0 || u == 1.0) && l <= u) {
                mon.facet("variable:integer-with-binary-bounds");
            }
        }
        if !model.var_names.is_empty() {
            mon.facet("names:variables");
        }
        if !model.con_names.is_empty() {
            mon.facet("names:constraints");
        }
        if model.n >= 1 {
            let mut fp = Fp::new();
            fp.str(&text);
            mon.nontrivial(fp.finish());
        }
        if mon.want_sample() && model.n >= 2 && model.m >= 1 && k % 7 == 0 {
            mon.sample(json!({
                "type_code": model.code(),
                "text": text,
                "expected_objective": exp.objective.pretty(),
                "expected_constraints": exp.sides.iter().map(|s| format!("row {} c_{}: {} <= 0", s.row + 1, s.side, s.half.pretty())).collect::<Vec<_>>(),
                "expected_variables": exp.vars.iter().map(|v| format!("{}: {:?} [{}, {}] {:?}", v.id, v.kind, v.lower, v.upper, v.name)).collect::<Vec<_>>(),
            }));
        }

        // ---- the well-formed text
        mon.eval();
        match load(env, &text) {
            Err(p) => report!(mon,
                format!("C19.panic:{}", panic_site(&p)),
                format!("load_file panicked on a well-formed file: {} at {}\ntype code {}\n--- file ---\n{text}\n--- end ---", p.message, p.location, model.code()),
            ),
            Ok(Err(e)) => report!(mon,
                format!("C19.load-error:{}", model.code()),
                format!("load_file failed on a well-formed file: {e}\n--- file ---\n{text}\n--- end ---"),
            ),
            Ok(Ok(inst)) => judge_ok(&model, &exp, &inst, &text, mon),
        }

        // ---- one single-fault text
        if (k / 120 + k) % 4 == 0 {
            let mut class = *rng.pick(&FAULT_CLASSES);
            let mut f = rendered.inject(rng, class);
            if f.is_none() {
                // no token of that kind in this text (e.g. no types section)
                class = *rng.pick(&["count", "number", "truncation", "sense"]);
                f = rendered.inject(rng, class);
            }
            let f = f.expect("harness: fallback fault classes always apply");
            mon.eval();
            mon.facet(&format!("fault:{}", f.class));
            let detail = |what: String| format!("{what}\nfault: {} (line {})\n--- file ---\n{}\n--- end ---", f.what, f.line, f.text);
            match load(env, &f.text) {
                Err(p) => report!(mon,
                    format!("C19.panic:{}:after-{}", panic_site(&p), f.class),
                    detail(format!("load_file panicked on a malformed file: {} at {}", p.message, p.location)),
                ),
                Ok(Ok(_)) => report!(mon,
                    if f.class == "truncation" { "C19.eof:accepted".to_string() } else { format!("C19.error-accepted:{}", f.class) },
                    detail("load_file returned Ok on a malformed file".to_string()),
                ),
                Ok(Err(e)) => {
                    let lines = line_numbers(&e);
                    if f.class == "truncation" {
                        if !e.to_lowercase().contains("end of file") {
                            report!(mon, "C19.eof:not-mentioned", detail(format!("error does not mention the end of file: {e}")));
                        } else if !lines.iter().any(|n| *n == f.line || *n == f.line + 1) {
                            report!(mon,
                                "C19.eof:line",
                                detail(format!("end-of-file error does not carry the line where the text ends ({} lines): {e}", f.line)),
                            );
                        }
                    } else if !lines.contains(&f.line) {
                        report!(mon,
                            format!("C19.error-line:{}", f.class),
                            detail(format!("error does not carry line {} of the bad token: {e}", f.line)),
                        );
                    }
                    if mon.want_sample() && k % 11 == 0 {
                        mon.sample(json!({"fault": f.what, "line": f.line, "error": e}));
                    }
                }
            }
        }

        // ---- debatable malformations: counted, never judged
        if rng.chance(1, 40) {
            if let Some((kind, t, _line)) = rendered.inject_debatable(rng) {
                mon.eval();
                let outcome = match load(env, &t) {
                    Err(p) => format!("panic:{}", p.message.split(':').next().unwrap_or("").chars().take(40).collect::<String>()),
                    Ok(Ok(_)) => "ok".to_string(),
                    Ok(Err(_)) => "err".to_string(),
                };
                mon.observe(&format!("short-line-or-zero-index:{kind}:{outcome}"));
            }
        }
    }
}
