//! C11 — QUBO/PUBO export reproduces the objective on every binary assignment.

use crate::build::*;
use crate::exact::*;
use crate::gen::*;
use crate::model::opt_fn;
use crate::monitor::{fp_msg, panic_site, probe, Fp, Monitor};
use crate::rng::Rng;
use crate::{Env, Property, Tier};
use num::{Signed, Zero};
use ommx::v1;
use serde_json::json;
use std::collections::{BTreeMap, BTreeSet};

pub struct C11;

fn total_abs(p: &Poly) -> Q {
    p.terms.values().map(|c| c.abs()).fold(Q::zero(), |a, b| a + b)
}

/// exhaustive check over all 2^n assignments with scaled integers (exact): returns a counterexample
fn brute_force(expected: &Poly, got: &Poly, ids: &[u64]) -> Option<(Vec<u64>, String)> {
    // scale by 2^24: D-regime sums of products have far fewer fractional bits
    let scale = two_pow(24);
    let to_int = |p: &Poly| -> Option<Vec<(u32, i128)>> {
        let mut v = vec![];
        for (k, c) in &p.terms {
            let s = c * &scale;
            if !s.is_integer() {
                return None;
            }
            let mut mask = 0u32;
            for id in k {
                let pos = ids.iter().position(|i| i == id)?;
                mask |= 1 << pos;
            }
            let n: i128 = s.to_integer().to_string().parse().ok()?;
            v.push((mask, n));
        }
        Some(v)
    };
    let (e, g) = (to_int(expected)?, to_int(got)?);
    for x in 0u32..(1u32 << ids.len()) {
        let ev: i128 = e.iter().filter(|(m, _)| m & x == *m).map(|(_, c)| *c).sum();
        let gv: i128 = g.iter().filter(|(m, _)| m & x == *m).map(|(_, c)| *c).sum();
        if ev != gv {
            let ones: Vec<u64> = ids.iter().enumerate().filter(|(i, _)| x >> i & 1 == 1).map(|(_, id)| *id).collect();
            return Some((ones, format!("objective*2^24 = {ev}, export*2^24 = {gv}")));
        }
    }
    None
}

/// The SDK's own route to a QUBO: minimisation form, integers log-encoded and substituted, inequalities
/// turned into equalities with integer slacks (log-encoded as well), penalty method, weights instantiated.
/// None when a step refuses (e.g. a slack range the interval analysis cannot bound).
fn to_qubo_pipeline(rng: &mut Rng) -> Option<v1::Instance> {
    let mut inst = v1::Instance::default();
    let nv = 1 + rng.usize_below(3);
    let mut ids = vec![];
    for j in 0..nv {
        let id = [0u64, 1, 2][j] + if rng.bool() { 0 } else { 10 };
        if rng.bool() {
            inst.decision_variables.push(dvar(id, KIND_BINARY, Some((0.0, 1.0))));
        } else {
            let l = rng.range(-1, 1) as f64;
            inst.decision_variables.push(dvar(id, KIND_INTEGER, Some((l, l + rng.range(1, 3) as f64))));
        }
        ids.push(id);
    }
    let small = |rng: &mut Rng| *rng.pick(&[1.0, -1.0, 2.0, -2.0, 3.0]);
    let mut terms: Vec<(Vec<u64>, f64)> = ids.iter().map(|i| (vec![*i], small(rng))).collect();
    if rng.bool() {
        terms.push((vec![*rng.pick(&ids), *rng.pick(&ids)], small(rng)));
    }
    terms.push((vec![], small(rng)));
    inst.objective = Some(f_polynomial(polynomial(terms)));
    inst.sense = if rng.bool() { SENSE_MIN } else { SENSE_MAX };
    for c in 0..rng.below(3) {
        let mut lin: Vec<(u64, f64)> = vec![];
        for i in &ids {
            if rng.chance(2, 3) {
                lin.push((*i, small(rng)));
            }
        }
        inst.constraints.push(constraint(c, if rng.bool() { EQ_ZERO } else { LE_ZERO }, Some(f_linear(linear(lin, rng.range(-3, 2) as f64)))));
    }
    let weights_two = rng.bool();
    let uniform = rng.bool();
    crate::monitor::probe(move || -> Option<v1::Instance> {
        let mut i = inst;
        i.as_minimization_problem();
        let ineq: Vec<u64> = i.constraints.iter().filter(|c| c.equality == LE_ZERO).map(|c| c.id).collect();
        for id in ineq {
            i.convert_inequality_to_equality_with_integer_slack(id, 32).ok()?;
        }
        let ints: Vec<u64> = i.decision_variables.iter().filter(|v| v.kind == KIND_INTEGER).map(|v| v.id).collect();
        for id in ints {
            let lin = i.log_encode(id).ok()?;
            let mut m = std::collections::HashMap::new();
            m.insert(id, v1::Function::from(lin));
            i.substitute(m).ok()?;
        }
        let pi = if uniform { i.uniform_penalty_method() } else { i.penalty_method() }.ok()?;
        let w = parameters(pi.parameters.iter().map(|p| (p.id, if weights_two { 2.0 } else { 1.0 })));
        pi.with_parameters(w).ok()
    })
    .ok()
    .flatten()
}

impl Property for C11 {
    fn id(&self) -> &'static str {
        "C11"
    }
    fn cases(&self, tier: Tier) -> u64 {
        match tier {
            Tier::Quick => 60_000,
            Tier::Thorough => 6_000_000,
        }
    }
    fn min_nontrivial(&self, tier: Tier) -> u64 {
        match tier {
            Tier::Quick => 15_000,
            Tier::Thorough => 1_500_000,
        }
    }
    fn rule(&self) -> &'static str {
        "each case: an instance over 1-12 binary variables (ids small / sparse / huge, bounds absent or [0,1]) whose objective is a hostile function message of degree <= 4 (PUBO) or with <= 2 distinct variables per term (QUBO; one case in seven the objective comes out of the SDK's own QUBO pipeline: minimisation form, integers log-encoded and substituted, inequalities turned into equalities with log-encoded integer slacks, penalty method, weights instantiated) incl. repeated ids inside monomials, x_i^2, cancelling pairs, constants only, absent objective; optional removed constraints; exported with as_pubo_format and as_qubo_format. The dictionaries are read back into polynomials and compared (a) coefficient by coefficient with the exact objective reduced by x^2=x (two multilinear polynomials agree on {0,1}^n iff their coefficients agree) and (b) by brute force on all 2^n assignments in exact scaled-integer arithmetic. Refusal cases (active constraint, maximise, non-binary variable in a non-zero term, QUBO term with 3 distinct variables) must give Err. Non-trivial = objective of degree >= 1; distinct = fingerprint of the instance."
    }
    fn assumptions(&self) -> Vec<&'static str> {
        vec![
            "functions carry no duplicated (row,column) position; D regime: coefficients compared exactly, R regime: gamma-bound + epsilon-drop allowance per key",
            "a term whose coefficient is exactly zero is not required to trigger a refusal",
        ]
    }
    fn exhaustive(&self, _tier: Tier) -> bool {
        false
    }

    fn run_case(&self, k: u64, rng: &mut Rng, env: &Env, mon: &mut Monitor) {
        let regime = if rng.chance(5, 6) { Regime::D } else { Regime::R };
        let big = if env.tier == Tier::Thorough { 16 } else { 12 };
        let n = 1 + rng.usize_below(if k % 5 == 0 { big } else { 6 });
        let ids = id_pool(rng, n, true);
        let mut inst = v1::Instance::default();
        for id in &ids {
            let b = match rng.below(3) {
                0 => None,
                _ => Some((0.0, 1.0)),
            };
            inst.decision_variables.push(dvar(*id, KIND_BINARY, b));
        }
        inst.sense = SENSE_MIN;
        let qubo_shaped = rng.bool();
        let mut fcfg = FnCfg::new(ids.clone(), regime);
        fcfg.dup_positions = false;
        fcfg.max_terms = 8;
        fcfg.max_degree = if qubo_shaped { 2 } else { 4 };
        let mut f = gen_function(rng, &fcfg);
        // QUBO-shaped polynomials may still use x_i*x_i*x_j (two distinct variables)
        if qubo_shaped && rng.chance(1, 3) {
            if let Some(v1::function::Function::Polynomial(p)) = &mut f.function {
                let (a, b) = (*rng.pick(&ids), *rng.pick(&ids));
                p.terms.push(monomial(vec![a, b, a], coef(rng, regime)));
                p.terms.push(monomial(vec![b, b, b, b], coef(rng, regime)));
            } else if rng.bool() {
                let (a, b) = (*rng.pick(&ids), *rng.pick(&ids));
                f = f_polynomial(polynomial(vec![(vec![a, a, b], coef(rng, regime)), (vec![b, a], coef(rng, regime)), (vec![], coef(rng, regime))]));
            }
        }
        // cancelling pair
        if rng.chance(1, 4) {
            if let Some(v1::function::Function::Polynomial(p)) = &mut f.function {
                let (a, b) = (*rng.pick(&ids), *rng.pick(&ids));
                let c = coef(rng, regime);
                p.terms.push(monomial(vec![a, b], c));
                p.terms.push(monomial(vec![b, a, a], -c));
            }
        }
        // a term over three distinct variables whose stored copies cancel: the stored term still "involves
        // more than two distinct variables", so the QUBO export is refused like for any other cubic term
        if ids.len() >= 3 && rng.chance(1, 8) {
            let mut pick = ids.clone();
            rng.shuffle(&mut pick);
            let (a, b, c3) = (pick[0], pick[1], pick[2]);
            let c = coef(rng, regime);
            let mut terms = stored_terms(&f);
            terms.push((vec![a, b, c3], c));
            terms.push((vec![c3, a, b], -c));
            if rng.bool() {
                rng.shuffle(&mut terms);
            }
            f = f_polynomial(polynomial(terms));
            mon.facet("cancelling-terms-over-three-variables");
        }
        // coefficients spanning many orders of magnitude (a huge penalty weight next to ordinary terms)
        if regime == Regime::R && rng.chance(1, 4) {
            let mut terms = stored_terms(&f);
            let huge = *rng.pick(&[1e17, -1e17, 1152921504606846976.0, 3e18]);
            let d = 1 + rng.usize_below(2);
            terms.push(((0..d).map(|_| *rng.pick(&ids)).collect(), huge));
            terms.push((vec![*rng.pick(&ids)], 1.0));
            if rng.bool() {
                terms.push((vec![], 1.0));
            }
            rng.shuffle(&mut terms);
            f = f_polynomial(polynomial(terms));
        }
        inst.objective = if rng.chance(1, 20) { None } else { Some(f) };
        if rng.chance(1, 4) {
            let c = constraint(3, LE_ZERO, Some(f_linear(linear(vec![(ids[0], 1.0)], -1.0))));
            inst.removed_constraints.push(removed(c, "relaxed", Default::default()));
        }
        // a removed constraint is not part of the exported problem: it may well use an integer or
        // continuous variable that the objective does not mention
        if rng.chance(1, 5) {
            let other = 535_353;
            inst.decision_variables.push(dvar(other, *rng.pick(&[KIND_INTEGER, KIND_CONTINUOUS]), Some((0.0, 9.0))));
            let c = constraint(7, if rng.bool() { EQ_ZERO } else { LE_ZERO }, Some(f_linear(linear(vec![(other, 2.0), (ids[0], 1.0)], -1.0))));
            inst.removed_constraints.push(removed(c, "relaxed earlier", Default::default()));
            mon.facet("removed-constraint-over-a-non-binary-variable");
        }
        // one case in seven: the objective comes out of the SDK's own QUBO pipeline (minimisation form,
        // log-encoding of integers, slack variables for inequalities, penalty method, instantiated weights)
        let mut ids = ids;
        let mut n = n;
        let mut qubo_shaped = qubo_shaped;
        let mut regime = regime;
        let mut from_pipeline = false;
        if k % 7 == 3 {
            if let Some(pi) = to_qubo_pipeline(rng) {
                let used: BTreeSet<u64> = occurring_ids(&opt_fn(&pi.objective)).into_iter().collect();
                if used.len() <= 16 {
                    ids = used.into_iter().collect();
                    if ids.is_empty() {
                        ids.push(pi.decision_variables.first().map_or(0, |v| v.id));
                    }
                    n = ids.len();
                    inst = pi;
                    qubo_shaped = true;
                    regime = Regime::D;
                    from_pipeline = true;
                    mon.facet("objective-out-of-the-QUBO-pipeline");
                }
            }
        }
        // refusal scenarios
        let scenario = if from_pipeline { 9 } else { rng.below(10) };
        let mut refuse_pubo: Option<&'static str> = None;
        let mut refuse_qubo: Option<&'static str> = None;
        match scenario {
            0 => {
                // any active constraint counts: one over a variable, a constant one (what partial_evaluate
                // leaves of a constraint whose variables were all fixed), one without function
                let f = match rng.below(6) {
                    0 => Some(f_const(1.0)),
                    1 => Some(f_const(0.0)),
                    2 => Some(f_linear(linear(vec![], -1.0))),
                    3 => None,
                    _ => Some(f_linear(linear(vec![(ids[0], 1.0)], 0.0))),
                };
                let n_extra = if rng.chance(1, 4) { 2 } else { 1 };
                for j in 0..n_extra {
                    inst.constraints.push(constraint(1 + j, if rng.bool() { EQ_ZERO } else { LE_ZERO }, f.clone()));
                }
                refuse_pubo = Some("active-constraint");
                refuse_qubo = Some("active-constraint");
            }
            1 => {
                inst.sense = SENSE_MAX;
                refuse_pubo = Some("maximise");
                refuse_qubo = Some("maximise");
            }
            2 => {
                // a non-binary variable in a non-zero term
                // (alone, squared, or only as the partner of a binary variable in a product, on either
                // side; its id below, between or above the binary ids)
                let taken: BTreeSet<u64> = inst.decision_variables.iter().map(|v| v.id).collect();
                let lo = *taken.iter().next().unwrap_or(&1);
                let candidates: Vec<u64> = [424_242u64, 0, lo.wrapping_sub(1), lo.wrapping_add(1), u64::MAX / 2 + 7].into_iter().filter(|c| !taken.contains(c)).collect();
                let extra = *rng.pick(&candidates);
                inst.decision_variables.push(dvar(extra, *rng.pick(&[KIND_INTEGER, KIND_CONTINUOUS]), Some((0.0, 1.0))));
                let base = opt_fn(&inst.objective);
                let mut terms: Vec<(Vec<u64>, f64)> = stored_terms(&base);
                let partner = *rng.pick(&ids);
                let new_term = match rng.below(6) {
                    0 | 1 => vec![extra],
                    2 => vec![extra, extra],
                    3 => vec![partner, extra],
                    4 => vec![extra, partner],
                    _ => vec![partner, extra, partner],
                };
                mon.facet(&format!("non-binary-variable-in-term-of-{}-ids{}", new_term.len(), if new_term.contains(&partner) { "-with-a-binary-partner" } else { "" }));
                // one case in four: a pure quadratic form (no linear part at all in the message)
                let pure_quadratic = new_term.len() == 2 && rng.chance(1, 4);
                if pure_quadratic {
                    terms.retain(|(i, _)| i.len() == 2);
                    mon.facet("non-binary-variable-in-a-quadratic-without-linear-part");
                }
                terms.push((new_term, *rng.pick(&[1.5, -2.0, 0.25])));
                let as_quadratic = pure_quadratic || terms.iter().all(|(i, _)| i.len() <= 2) && rng.bool();
                inst.objective = Some(if as_quadratic {
                    let constant: f64 = terms.iter().filter(|(i, _)| i.is_empty()).map(|(_, c)| *c).sum();
                    let lin = linear(terms.iter().filter(|(i, _)| i.len() == 1).map(|(i, c)| (i[0], *c)).collect(), constant);
                    f_quadratic(quadratic(terms.iter().filter(|(i, _)| i.len() == 2).map(|(i, c)| (i[0], i[1], *c)).collect(), if pure_quadratic { None } else { Some(lin) }))
                } else {
                    f_polynomial(polynomial(terms))
                });
                refuse_pubo = Some("non-binary-variable");
                refuse_qubo = Some("non-binary-variable");
            }
            _ => {}
        }
        let fobj = opt_fn(&inst.objective);
        let stored = stored_terms(&fobj);
        let distinct_vars = |ids: &Vec<u64>| ids.iter().collect::<BTreeSet<_>>().len();
        let three_nonzero = stored.iter().any(|(i, c)| c.abs() > f64::EPSILON && distinct_vars(i) >= 3);
        let three_any = stored.iter().any(|(i, _)| distinct_vars(i) >= 3);
        if refuse_qubo.is_none() && three_nonzero {
            refuse_qubo = Some("three-distinct-variables");
        }
        let qubo_undecided = refuse_qubo.is_none() && three_any; // only tiny/zero terms with three variables
        let expected = canon_function(&fobj).reduce_binary();
        let abs_expected = abs_stored_poly(&fobj).reduce_binary();
        let exact_mode = regime == Regime::D && stored.iter().all(|(_, c)| dyadic_bits(*c).map_or(false, |b| b <= 8)) && total_abs(&abs_expected) < two_pow(40);
        if expected.degree() >= 1 {
            mon.nontrivial(fp_msg(&inst));
        }
        mon.facet(&format!("n={n}/{}", if qubo_shaped { "qubo-shaped" } else { "pubo-shaped" }));
        let ctx = || format!("instance={inst:?}");
        let judge = |mon: &mut Monitor, which: &str, got: &Poly, stored_zero: bool, shown: String| {
            if stored_zero {
                mon.violation(format!("C11.{which}:stored-zero"), format!("the export stores a zero coefficient: {shown}\n{}", ctx()));
            }
            let nsteps = stored.len() + 4;
            let mut keys: Vec<&Vec<u64>> = expected.terms.keys().chain(got.terms.keys()).collect();
            keys.sort();
            keys.dedup();
            let zero = Q::zero();
            for key in keys {
                let e = expected.terms.get(key).unwrap_or(&zero);
                let g = got.terms.get(key).unwrap_or(&zero);
                let ok = if exact_mode {
                    e == g
                } else {
                    let a = abs_expected.terms.get(key).cloned().unwrap_or_else(Q::zero);
                    (e - g).abs() <= gamma(2 * nsteps + 8) * a + Q::from_integer((nsteps as u64 + 2).into()) * eps()
                };
                if !ok {
                    mon.violation(format!("C11.{which}:coefficient"), format!("coefficient of {key:?}: export {} ({:e}), objective reduced with x^2=x {} ({:e})\nexport={shown}\n{}", g, q_to_f64(g), e, q_to_f64(e), ctx()));
                    return;
                }
            }
            if exact_mode && ids.len() <= 16 {
                // the variables either polynomial mentions (the others cannot make a difference)
                let all_ids: Vec<u64> = expected.terms.keys().chain(got.terms.keys()).flatten().cloned().collect::<BTreeSet<u64>>().into_iter().collect();
                if let Some((ones, why)) = brute_force(&expected, got, &all_ids) {
                    mon.violation(format!("C11.{which}:assignment"), format!("at the assignment with ones at {ones:?}: {why}\nexport={shown}\n{}", ctx()));
                } else {
                    mon.facet_n("assignments-checked-exhaustively", 1u64 << all_ids.len());
                }
            }
        };
        // ---- PUBO
        mon.eval();
        match probe(|| {
            inst.as_pubo_format().map(|m| m.iter().map(|(k, v)| (k.iter().cloned().collect::<Vec<u64>>(), *v)).collect::<Vec<_>>()).map_err(|e| format!("{e:#}"))
        }) {
            Err(p) => mon.violation(format!("C11.panic:{}", panic_site(&p)), format!("as_pubo_format panicked: {} at {}\n{}", p.message, p.location, ctx())),
            Ok(Err(e)) => match refuse_pubo {
                Some(why) => mon.facet(&format!("pubo-refused:{why}")),
                None => mon.violation("C11.pubo:refused-valid", format!("as_pubo_format failed ({e}) on an unconstrained binary minimisation\n{}", ctx())),
            },
            Ok(Ok(entries)) => match refuse_pubo {
                Some(why) => mon.violation(format!("C11.pubo:accepted:{why}"), format!("as_pubo_format returned {entries:?}\n{}", ctx())),
                None => {
                    let mut got = Poly::zero();
                    let mut stored_zero = false;
                    let mut seen = BTreeSet::new();
                    for (key, v) in &entries {
                        if *v == 0.0 {
                            stored_zero = true;
                        }
                        let mut kk = key.clone();
                        kk.dedup();
                        if kk.len() != key.len() || !key.windows(2).all(|w| w[0] < w[1]) || !seen.insert(key.clone()) {
                            mon.violation("C11.pubo:key-not-canonical", format!("key {key:?} is not a duplicate-free sorted set / occurs twice\n{}", ctx()));
                        }
                        got.add_term(key.clone(), q(*v));
                    }
                    if mon.want_sample() && expected.degree() >= 1 {
                        mon.sample(json!({"objective": format!("{:?}", inst.objective), "pubo": format!("{entries:?}")}));
                    }
                    judge(mon, "pubo", &got, stored_zero, format!("{entries:?}"));
                }
            },
        }
        // ---- QUBO
        mon.eval();
        match probe(|| inst.as_qubo_format().map(|(m, c)| (m.iter().map(|(k, v)| ((k.0, k.1), *v)).collect::<Vec<_>>(), c)).map_err(|e| format!("{e:#}"))) {
            Err(p) => mon.violation(format!("C11.panic:{}", panic_site(&p)), format!("as_qubo_format panicked: {} at {}\n{}", p.message, p.location, ctx())),
            Ok(Err(e)) => match refuse_qubo {
                Some(why) => mon.facet(&format!("qubo-refused:{why}")),
                None if qubo_undecided => mon.observe("qubo-refused:three-variable-term-with-zero-coefficient"),
                None => mon.violation("C11.qubo:refused-valid", format!("as_qubo_format failed ({e}) although every non-zero term has at most two distinct binary variables\n{}", ctx())),
            },
            Ok(Ok((entries, offset))) => match refuse_qubo {
                Some(why) => mon.violation(format!("C11.qubo:accepted:{why}"), format!("as_qubo_format returned {entries:?} offset {offset}\n{}", ctx())),
                None => {
                    let mut got = Poly::constant(q(offset));
                    let mut stored_zero = false;
                    let mut seen = BTreeSet::new();
                    for ((i, j), v) in &entries {
                        if *v == 0.0 {
                            stored_zero = true;
                        }
                        if i > j || !seen.insert((*i, *j)) {
                            mon.violation("C11.qubo:key-not-canonical", format!("key ({i},{j}) violates i<=j or occurs twice\n{}", ctx()));
                        }
                        if i == j {
                            got.add_term(vec![*i], q(*v));
                        } else {
                            got.add_term(vec![*i, *j], q(*v));
                        }
                    }
                    judge(mon, "qubo", &got, stored_zero, format!("{entries:?} offset={offset}"));
                }
            },
        }
        let _ = BTreeMap::<u64, u64>::new();
        let _ = Fp::new();
    }
}
