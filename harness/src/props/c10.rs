//! C10 — instantiating parameters equals evaluating them.

use crate::build::*;
use crate::exact::*;
use crate::gen::*;
use crate::model::opt_fn;
use crate::monitor::{fp_msg, panic_site, probe, Fp, Monitor};
use crate::rng::Rng;
use crate::{Env, Property, Tier};
use num::{Signed, Zero};
use ommx::{v1, Evaluate};
use serde_json::json;
use std::collections::{BTreeMap, BTreeSet};

pub struct C10;

fn amplification(x: &BTreeMap<u64, Q>, d: usize) -> Q {
    let mut m = qi(1);
    for v in x.values() {
        if v.abs() > m {
            m = v.abs();
        }
    }
    let mut r = qi(1);
    for _ in 0..d {
        r *= &m;
    }
    r
}

/// canon(after) == canon(before)[p] coefficient by coefficient
fn compare_instantiated(before: &v1::Function, after: &v1::Function, p: &BTreeMap<u64, f64>) -> Option<String> {
    let pq = map_q(p);
    let expected = canon_function(before).partial(&pq);
    let got = canon_function(after);
    let exact = partial_is_exact(&stored_terms(before), p);
    let nterms = stored_terms(before).len();
    let deg = stored_terms(before).iter().map(|t| t.0.len()).max().unwrap_or(0);
    let abs_p: BTreeMap<u64, Q> = pq.iter().map(|(k, v)| (*k, v.abs())).collect();
    let abs_expected = abs_stored_poly(before).partial(&abs_p);
    let mut keys: Vec<&Vec<u64>> = expected.terms.keys().chain(got.terms.keys()).collect();
    keys.sort();
    keys.dedup();
    let zero = Q::zero();
    for k in keys {
        let e = expected.terms.get(k).unwrap_or(&zero);
        let g = got.terms.get(k).unwrap_or(&zero);
        let ok = if exact {
            e == g
        } else {
            let a = abs_expected.terms.get(k).cloned().unwrap_or_else(Q::zero);
            let tiny = tiny_terms_partial(before, &abs_p).terms.get(k).cloned().unwrap_or_else(Q::zero);
            let _ = deg;
            (e - g).abs() <= gamma(2 * (nterms + deg) + 8) * a + tiny + Q::from_integer((nterms as u64 + 2).into()) * eps()
        };
        if !ok {
            return Some(format!("coefficient of {k:?}: SDK {} ({:e}), exact {} ({:e}), judged {}", g, q_to_f64(g), e, q_to_f64(e), if exact { "exactly" } else { "within bound" }));
        }
    }
    None
}

fn constraint_core(c: &v1::Constraint) -> (u64, i32, Option<String>, Option<String>, Vec<i64>, BTreeMap<String, String>) {
    (c.id, c.equality, c.name.clone(), c.description.clone(), c.subscripts.clone(), c.parameters.iter().map(|(k, v)| (k.clone(), v.clone())).collect())
}

impl Property for C10 {
    fn id(&self) -> &'static str {
        "C10"
    }
    fn cases(&self, tier: Tier) -> u64 {
        match tier {
            Tier::Quick => 100_000,
            Tier::Thorough => 10_000_000,
        }
    }
    fn min_nontrivial(&self, tier: Tier) -> u64 {
        match tier {
            Tier::Quick => 20_000,
            Tier::Thorough => 2_000_000,
        }
    }
    fn rule(&self) -> &'static str {
        "three of four cases: a generated parametric instance (a valid instance over variables and 0-3 parameter ids that occur at any degree in the objective and active constraints; removed constraints, hints, dependencies over variables only) and a parameter assignment that is complete / complete with extra ids colliding with nothing / missing one declared id; with_parameters is observed: Err iff a declared id is missing, else objective and every active constraint compared coefficient by coefficient with the exact partial substitution (which covers every state x), variables, sense, constraint ids/equality/metadata, removed constraints, hints, dependencies unchanged, supplied values recorded; plus evaluate at one state. In a third of the successful cases the result is converted back and instantiated again with no parameters and must not change. One of four cases: Instance (half of them recording parameter values of an earlier instantiation) -> ParametricInstance -> with_parameters({}) must give canonically equal objective/constraints and equal everything else. Non-trivial = a parameter occurs in some function; distinct = fingerprint of (parametric instance, assignment)."
    }
    fn assumptions(&self) -> Vec<&'static str> {
        vec![
            "extra ids in the assignment collide with no variable, parameter or dependency id; removed constraints mention no parameter",
            "bit-exact in the certified dyadic regime, gamma-bound + epsilon-drop allowance otherwise",
        ]
    }

    fn run_case(&self, k: u64, rng: &mut Rng, env: &Env, mon: &mut Monitor) {
        let regime = if rng.chance(4, 5) { Regime::D } else { Regime::R };
        let mut cfg = InstCfg::new(regime);
        cfg.deepen(env.tier == Tier::Thorough, k);
        cfg.max_vars = 5;
        let g = gen_instance(rng, &cfg);
        let mut inst = g.instance;
        inst.constraint_hints = gen_hints(rng, &inst);
        if k % 4 == 3 {
            return self.conversion_case(rng, inst, mon);
        }
        // parameter ids: fresh, not variable ids
        let var_ids: BTreeSet<u64> = inst.decision_variables.iter().map(|v| v.id).collect();
        let np = rng.usize_below(4);
        let mut pids = vec![];
        let mut next = 7000 + rng.below(50);
        while pids.len() < np {
            if !var_ids.contains(&next) {
                pids.push(next);
            }
            next += 1 + rng.below(3);
        }
        // sprinkle parameters into objective and active constraints by multiplying / adding terms
        let mut pool: Vec<u64> = g.pool.clone();
        pool.extend(pids.iter().cloned());
        let mut fcfg = FnCfg::new(pool, regime);
        fcfg.max_terms = if k % 29 == 3 { 80 } else { 5 };
        fcfg.max_degree = 3;
        if !pids.is_empty() {
            if rng.chance(3, 4) {
                inst.objective = Some(gen_function(rng, &fcfg));
            }
            for c in inst.constraints.iter_mut() {
                if rng.chance(2, 3) {
                    c.function = Some(gen_function(rng, &fcfg));
                }
            }
        }
        // a monomial with two parameter factors of which one is tiny and the other huge (1e-20 * 1e20 * x):
        // a prefix of the product is far below machine epsilon, the product itself is ordinary
        let mut tiny_huge: Option<(u64, u64)> = None;
        if regime == Regime::R && pids.len() >= 2 && !g.pool.is_empty() && rng.chance(1, 4) {
            let mut two = pids.clone();
            rng.shuffle(&mut two);
            let x = *rng.pick(&g.pool);
            let mut terms = stored_terms(&opt_fn(&inst.objective));
            let mut ids = vec![two[0], two[1], x];
            rng.shuffle(&mut ids);
            terms.push((ids, *rng.pick(&[1.0, -2.5, 0.75])));
            inst.objective = Some(f_polynomial(polynomial(terms)));
            tiny_huge = Some((two[0], two[1]));
            mon.facet("monomial-with-a-tiny-and-a-huge-parameter");
        }
        let mut pi = v1::ParametricInstance::default();
        pi.description = inst.description.clone();
        pi.decision_variables = inst.decision_variables.clone();
        pi.objective = inst.objective.clone();
        pi.constraints = inst.constraints.clone();
        pi.sense = inst.sense;
        pi.constraint_hints = inst.constraint_hints.clone();
        pi.removed_constraints = inst.removed_constraints.clone();
        pi.decision_variable_dependency = inst.decision_variable_dependency.clone();
        for (i, p) in pids.iter().enumerate() {
            let mut prm = parameter(*p);
            if i % 2 == 0 {
                prm.name = Some(rng.ascii_word(4));
            }
            pi.parameters.push(prm);
        }
        // assignment
        let scenario = if pids.is_empty() { rng.below(2) } else { rng.below(5) };
        let mut assign: BTreeMap<u64, f64> = pids.iter().map(|p| (*p, value_x(rng, regime))).collect();
        if let Some((a, b)) = tiny_huge {
            let (s, t) = *rng.pick(&[(1e-20, 1e20), (1e-9, 2.5e18), (4e-17, 2.5e16)]);
            assign.insert(a, s);
            assign.insert(b, t);
        }
        let sname = match scenario {
            0 => "complete",
            1 => {
                for _ in 0..1 + rng.below(2) {
                    assign.insert(900_000 + rng.below(1000), value(rng, regime));
                }
                "complete-with-extras"
            }
            2 => {
                let drop = *rng.pick(&pids);
                assign.remove(&drop);
                "missing-one"
            }
            3 => {
                // a declared parameter is missing although at least as many unrelated ids are supplied
                let drop = *rng.pick(&pids);
                assign.remove(&drop);
                for _ in 0..1 + rng.below(3) {
                    assign.insert(900_000 + rng.below(1000), value(rng, regime));
                }
                "missing-one-with-extras"
            }
            _ => {
                // several (possibly all) declared parameters missing, extras present
                let keep = rng.usize_below(pids.len());
                let mut shuffled = pids.clone();
                rng.shuffle(&mut shuffled);
                for p in shuffled.iter().skip(keep) {
                    assign.remove(p);
                }
                for _ in 0..rng.below(4) {
                    assign.insert(900_000 + rng.below(1000), value(rng, regime));
                }
                "missing-several-with-extras"
            }
        };
        let missing = sname.starts_with("missing");
        mon.facet(&format!("with_parameters/{sname}/{}-parameters", pids.len()));
        let mut occurs = false;
        for f in std::iter::once(&pi.objective).chain(pi.constraints.iter().map(|c| &c.function)) {
            if let Some(f) = f {
                if occurring_ids(f).iter().any(|i| pids.contains(i)) {
                    occurs = true;
                }
            }
        }
        if occurs {
            let mut fp = Fp::new();
            fp.u64(fp_msg(&pi));
            for (k, v) in &assign {
                fp.u64(*k).f64(*v);
            }
            mon.nontrivial(fp.finish());
        }
        mon.eval();
        let prm = parameters(assign.iter().map(|(k, v)| (*k, *v)));
        let r = probe(|| pi.clone().with_parameters(prm.clone()).map_err(|e| format!("{e:#}")));
        let ctx = || format!("scenario={sname}\nparametric={pi:?}\nassignment={assign:?}");
        let out = match r {
            Err(p) => {
                mon.violation(format!("C10.panic:{}", panic_site(&p)), format!("with_parameters panicked: {} at {}\n{}", p.message, p.location, ctx()));
                return;
            }
            Ok(Err(e)) => {
                if !missing {
                    mon.violation(format!("C10.rejected:{sname}"), format!("with_parameters failed ({e}) although every declared parameter has a value\n{}", ctx()));
                } else {
                    mon.facet("missing-parameter-rejected");
                }
                return;
            }
            Ok(Ok(i)) => i,
        };
        if missing {
            mon.violation(format!("C10.missing-parameter-accepted:{sname}"), format!("with_parameters returned an instance although a declared parameter has no value\nresult={out:?}\n{}", ctx()));
            return;
        }
        if mon.want_sample() && occurs {
            mon.sample(json!({"scenario": sname, "parametric_objective": format!("{:?}", pi.objective), "assignment": format!("{assign:?}"), "objective": format!("{:?}", out.objective)}));
        }
        // functions
        if let Some(d) = compare_instantiated(&opt_fn(&pi.objective), &opt_fn(&out.objective), &assign) {
            mon.violation("C10.objective", format!("{d}\nresult objective={:?}\n{}", out.objective, ctx()));
        }
        let Some(pairs) = pair_by_id(&pi.constraints, &out.constraints) else {
            mon.violation("C10.constraints-count", format!("constraint ids {:?} became {:?}\n{}", pi.constraints.iter().map(|c| c.id).collect::<Vec<_>>(), out.constraints.iter().map(|c| c.id).collect::<Vec<_>>(), ctx()));
            return;
        };
        {
            for (a, b) in pairs {
                if constraint_core(a) != constraint_core(b) {
                    mon.violation("C10.constraint-identity", format!("constraint {} id/equality/metadata changed: {:?} -> {:?}\n{}", a.id, constraint_core(a), constraint_core(b), ctx()));
                }
                if let Some(d) = compare_instantiated(&opt_fn(&a.function), &opt_fn(&b.function), &assign) {
                    mon.violation("C10.constraint-function", format!("constraint {}: {d}\nresult={:?}\n{}", a.id, b.function, ctx()));
                }
            }
        }
        // nothing mentions a parameter any more
        for (what, f) in std::iter::once(("objective", &out.objective)).chain(out.constraints.iter().map(|c| ("constraint", &c.function))) {
            if let Some(f) = f {
                let left: Vec<u64> = occurring_ids(f).into_iter().filter(|i| pids.contains(i)).collect();
                if !left.is_empty() {
                    mon.violation(format!("C10.parameter-remains:{what}"), format!("{what} still mentions parameters {left:?}\n{}", ctx()));
                }
            }
        }
        // carried over
        if !same_variables(&out.decision_variables, &pi.decision_variables) {
            mon.violation("C10.variables-changed", ctx());
        }
        if out.sense != pi.sense {
            mon.violation("C10.sense-changed", ctx());
        }
        if !same_removed(&out.removed_constraints, &pi.removed_constraints) {
            mon.violation("C10.removed-constraints-changed", format!("result={:?}\n{}", out.removed_constraints, ctx()));
        }
        if out.constraint_hints != pi.constraint_hints {
            mon.violation("C10.hints-changed", ctx());
        }
        if out.decision_variable_dependency != pi.decision_variable_dependency {
            mon.violation("C10.dependencies-changed", ctx());
        }
        match &out.parameters {
            Some(p) => {
                let got: BTreeMap<u64, u64> = p.entries.iter().map(|(k, v)| (*k, v.to_bits())).collect();
                let exp: BTreeMap<u64, u64> = assign.iter().map(|(k, v)| (*k, v.to_bits())).collect();
                if got != exp {
                    mon.violation("C10.parameters-not-recorded", format!("recorded parameters {:?} differ from the supplied ones\n{}", p.entries, ctx()));
                }
            }
            None => mon.violation("C10.parameters-not-recorded", format!("result.parameters is None\n{}", ctx())),
        }
        // the instantiated instance (which records the supplied values) converts back and instantiates
        // again with no parameters, unchanged
        if rng.chance(1, 3) {
            mon.facet("second-stage:instantiated->parametric->with_parameters({})");
            mon.eval();
            let start = out.clone();
            match probe(move || v1::ParametricInstance::from(start).with_parameters(v1::Parameters::default()).map_err(|e| format!("{e:#}"))) {
                Err(p) => mon.violation(format!("C10.panic:{}", panic_site(&p)), format!("second conversion panicked: {} at {}
{}", p.message, p.location, ctx())),
                Ok(Err(e)) => mon.violation("C10.conversion-error:already-instantiated", format!("instantiated instance -> ParametricInstance -> with_parameters({{}}) failed: {e}
first result={out:?}
{}", ctx())),
                Ok(Ok(again)) => {
                    let none = BTreeMap::new();
                    let mut same = compare_instantiated(&opt_fn(&out.objective), &opt_fn(&again.objective), &none).is_none();
                    match pair_by_id(&out.constraints, &again.constraints) {
                        None => same = false,
                        Some(pairs) => {
                            for (a, b) in pairs {
                                same &= constraint_core(a) == constraint_core(b) && compare_instantiated(&opt_fn(&a.function), &opt_fn(&b.function), &none).is_none();
                            }
                        }
                    }
                    if !same || !same_variables(&again.decision_variables, &out.decision_variables) || again.sense != out.sense || !same_removed(&again.removed_constraints, &out.removed_constraints) {
                        mon.violation("C10.conversion:already-instantiated-changed", format!("second result={again:?}
first result={out:?}
{}", ctx()));
                    }
                }
            }
        }
        // one state through the API
        if regime == Regime::D && out.decision_variable_dependency.is_empty() {
            let x = sorted_state(&gen_state_in_bounds(rng, &inst, None, Regime::D));
            let mut all = map_q(&x);
            all.extend(map_q(&assign));
            let fobj = opt_fn(&pi.objective);
            let mut allf = x.clone();
            allf.extend(assign.iter().map(|(k, v)| (*k, *v)));
            if let Some(expected) = canon_function(&fobj).eval(&all) {
                mon.eval();
                match probe(|| out.evaluate(&state(x.iter().map(|(k, v)| (*k, *v)))).map(|(s, _)| s.objective).map_err(|e| format!("{e:#}"))) {
                    Ok(Ok(v)) => {
                        if eval_is_exact(&stored_terms(&fobj), &allf) {
                            mon.facet("value-judged:exact");
                            if !f64_eq_q(v, &expected) {
                                mon.violation("C10.objective-value", format!("objective of the instantiated instance at x={x:?} is {v:e}; parametric objective at (x,p) is {expected}\n{}", ctx()));
                            }
                        }
                    }
                    Ok(Err(e)) => mon.violation("C10.evaluate-error", format!("evaluating the instantiated instance failed: {e}\nx={x:?}\n{}", ctx())),
                    Err(p) => mon.violation(format!("C10.panic:{}", panic_site(&p)), format!("evaluate panicked: {}\n{}", p.message, ctx())),
                }
            }
        }
    }
}

impl C10 {
    fn conversion_case(&self, rng: &mut Rng, mut inst: v1::Instance, mon: &mut Monitor) {
        mon.facet("conversion-round-trip");
        // half of the instances record parameter values of an earlier instantiation
        if rng.bool() {
            let ids: Vec<u64> = (0..1 + rng.below(3)).map(|j| 7000 + 3 * j + rng.below(3)).collect();
            inst.parameters = Some(parameters(ids.into_iter().map(|i| (i, 1.5))));
            mon.facet("conversion-round-trip:instance-records-earlier-parameters");
        }
        mon.eval();
        let mut fp = Fp::new();
        fp.u64(fp_msg(&inst)).str("conversion");
        if !inst.constraints.is_empty() || canon_opt_function(&inst.objective).degree() > 0 {
            mon.nontrivial(fp.finish());
        }
        let r = probe(|| {
            let pi: v1::ParametricInstance = inst.clone().into();
            pi.with_parameters(v1::Parameters::default()).map_err(|e| format!("{e:#}"))
        });
        let ctx = || format!("instance={inst:?}");
        match r {
            Err(p) => mon.violation(format!("C10.panic:{}", panic_site(&p)), format!("conversion panicked: {} at {}\n{}", p.message, p.location, ctx())),
            Ok(Err(e)) => mon.violation("C10.conversion-error", format!("Instance -> ParametricInstance -> with_parameters({{}}) failed: {e}\n{}", ctx())),
            Ok(Ok(out)) => {
                let none = BTreeMap::new();
                if let Some(d) = compare_instantiated(&opt_fn(&inst.objective), &opt_fn(&out.objective), &none) {
                    mon.violation("C10.conversion:objective", format!("objective changed: {d}\nresult={:?}\n{}", out.objective, ctx()));
                }
                let pairs = pair_by_id(&inst.constraints, &out.constraints);
                if pairs.is_none() {
                    mon.violation("C10.conversion:constraints", format!("constraint ids changed\n{}", ctx()));
                }
                {
                    for (a, b) in pairs.unwrap_or_default() {
                        if constraint_core(a) != constraint_core(b) || compare_instantiated(&opt_fn(&a.function), &opt_fn(&b.function), &none).is_some() {
                            mon.violation("C10.conversion:constraints", format!("constraint {} changed: {b:?}\n{}", a.id, ctx()));
                        }
                    }
                }
                if !same_variables(&out.decision_variables, &inst.decision_variables)
                    || out.sense != inst.sense
                    || !same_removed(&out.removed_constraints, &inst.removed_constraints)
                    || out.constraint_hints != inst.constraint_hints
                    || out.decision_variable_dependency != inst.decision_variable_dependency
                    || out.description != inst.description
                {
                    mon.violation("C10.conversion:other-fields", format!("variables / sense / removed constraints / hints / dependencies / description changed\nresult={out:?}\n{}", ctx()));
                }
                if out.parameters.as_ref().map(|p| p.entries.len()) != Some(0) {
                    mon.violation("C10.conversion:parameters", format!("parameters={:?}\n{}", out.parameters, ctx()));
                }
            }
        }
    }
}
