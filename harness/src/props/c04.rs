//! C04 — substitution is function composition; dependent variables are recovered.

use crate::build::*;
use crate::exact::*;
use crate::gen::*;
use crate::model::*;
use crate::monitor::{fp_msg, fp_state, panic_site, probe, Fp, Monitor};
use crate::rng::Rng;
use crate::{Env, Property, Tier};
use num::{Signed, Zero};
use ommx::{v1, Evaluate};
use serde_json::json;
use std::collections::{BTreeMap, BTreeSet, HashMap};

pub struct C04;

/// number of digraphs (self-loops allowed) on 1, 2, 3 nodes: 2 + 16 + 512
const SMALL_GRAPHS: u64 = 2 + 16 + 512;

fn small_coef(rng: &mut Rng) -> f64 {
    let mut k = rng.range(-4, 4);
    if k == 0 {
        k = 2;
    }
    k as f64 / 2.0
}

/// replacement function of degree <= 2 with small dyadic coefficients, no duplicate positions
fn gen_replacement(rng: &mut Rng, ids: &[u64], regime: Regime) -> v1::Function {
    let c = |rng: &mut Rng| if regime == Regime::D { small_coef(rng) } else { coef(rng, Regime::R) };
    let nt = rng.usize_below(3);
    let mut lin_terms = vec![];
    let mut seen = BTreeSet::new();
    for _ in 0..nt {
        if ids.is_empty() {
            break;
        }
        let id = *rng.pick(ids);
        if seen.insert(id) {
            lin_terms.push((id, c(rng)));
        }
    }
    let constant = if rng.bool() { c(rng) } else { 0.0 };
    match rng.below(4) {
        0 => f_const(c(rng)),
        1 | 2 => f_linear(linear(lin_terms, constant)),
        _ => {
            let mut entries = vec![];
            let mut pos = BTreeSet::new();
            for _ in 0..rng.below(3) {
                if ids.is_empty() {
                    break;
                }
                let (r, cc) = (*rng.pick(ids), *rng.pick(ids));
                if pos.insert((r, cc)) {
                    entries.push((r, cc, c(rng)));
                }
            }
            f_quadratic(quadratic(entries, if rng.bool() { Some(linear(lin_terms, constant)) } else { None }))
        }
    }
}

fn abs_map_poly(m: &BTreeMap<u64, v1::Function>) -> BTreeMap<u64, Poly> {
    m.iter().map(|(k, f)| (*k, abs_stored_poly(f))).collect()
}

fn total(p: &Poly) -> Q {
    p.terms.values().map(|c| c.abs()).fold(Q::zero(), |a, b| a + b)
}

fn max_bits(f: &v1::Function) -> Option<u32> {
    let mut b = 0;
    for (_, c) in stored_terms(f) {
        b = b.max(dyadic_bits(c)?);
    }
    Some(b)
}

/// certificate that substituting `map` into `f` in f64 is exact
fn substitute_is_exact(f: &v1::Function, map: &BTreeMap<u64, v1::Function>) -> bool {
    let Some(bf) = max_bits(f) else { return false };
    let mut br = 0;
    for r in map.values() {
        match max_bits(r) {
            Some(b) => br = br.max(b),
            None => return false,
        }
    }
    let deg = stored_terms(f).iter().map(|t| t.0.len()).max().unwrap_or(0) as u32;
    let bits = bf + deg * br;
    let mag = total(&abs_stored_poly(f).substitute(&abs_map_poly(map)));
    bits <= 45 && mag * two_pow(bits as i32) < two_pow(52)
}

fn compare_substituted(f: &v1::Function, map: &BTreeMap<u64, v1::Function>, got: &v1::Function) -> (bool, Option<String>) {
    let pm: BTreeMap<u64, Poly> = map.iter().map(|(k, r)| (*k, canon_function(r))).collect();
    let expected = canon_function(f).substitute(&pm);
    let g = canon_function(got);
    let exact = substitute_is_exact(f, map);
    let abs_expected = abs_stored_poly(f).substitute(&abs_map_poly(map));
    // drop allowance: a coefficient <= EPSILON dropped inside any factor is amplified by the others
    let mut scale = total(&abs_stored_poly(f)) + qi(1);
    let deg = stored_terms(f).iter().map(|t| t.0.len()).max().unwrap_or(0);
    let mut rmax = qi(1);
    for r in map.values() {
        let t = total(&abs_stored_poly(r)) + qi(1);
        if t > rmax {
            rmax = t;
        }
    }
    for _ in 0..deg {
        scale *= &rmax;
    }
    let steps = 64 * (stored_terms(f).len() + 2) * (deg + 1);
    let mut keys: Vec<&Vec<u64>> = expected.terms.keys().chain(g.terms.keys()).collect();
    keys.sort();
    keys.dedup();
    let zero = Q::zero();
    for k in keys {
        let e = expected.terms.get(k).unwrap_or(&zero);
        let v = g.terms.get(k).unwrap_or(&zero);
        let ok = if exact {
            e == v
        } else {
            let a = abs_expected.terms.get(k).cloned().unwrap_or_else(Q::zero);
            (e - v).abs() <= gamma(steps) * a + Q::from_integer((steps as u64).into()) * eps() * &scale
        };
        if !ok {
            return (exact, Some(format!("coefficient of {k:?}: SDK {} ({:e}), exact composition {} ({:e}), judged {}", v, q_to_f64(v), e, q_to_f64(e), if exact { "exactly" } else { "within bound" })));
        }
    }
    (exact, None)
}

fn to_hash(m: &BTreeMap<u64, v1::Function>, rng: &mut Rng) -> HashMap<u64, v1::Function> {
    // a freshly built std HashMap has its own RandomState: every rebuild explores another order
    let mut keys: Vec<&u64> = m.keys().collect();
    rng.shuffle(&mut keys);
    let mut h = HashMap::new();
    for k in keys {
        h.insert(*k, m[k].clone());
    }
    h
}

impl C04 {
    fn function_case(&self, rng: &mut Rng, mon: &mut Monitor) {
        let regime = if rng.chance(4, 5) { Regime::D } else { Regime::R };
        let long = rng.chance(1, 30);
        let np = if long { 8 + rng.usize_below(30) } else { 2 + rng.usize_below(4) };
        let pool = id_pool(rng, np, true);
        let mut cfg = FnCfg::new(pool.clone(), regime);
        cfg.max_terms = if long { 100 } else { 5 };
        if long {
            cfg.max_degree = 2;
        }
        let f = gen_function(rng, &cfg);
        let vname = variant_name(&f);
        // 1..4 entries; occasionally the empty map (must return the function unchanged)
        let nrep = if rng.chance(1, 25) { 0 } else { 1 + rng.usize_below(4.min(pool.len())) };
        let mut map = BTreeMap::new();
        let mut keys = pool.clone();
        rng.shuffle(&mut keys);
        for k in keys.into_iter().take(nrep) {
            // replacements may mention replaced variables (they must stay un-substituted)
            map.insert(k, gen_replacement(rng, &pool, regime));
        }
        let h = to_hash(&map, rng);
        mon.eval();
        mon.facet(&format!("function/{vname}/{regime:?}/{}-replacements", map.len()));
        let touches = occurring_ids(&f).iter().any(|i| map.contains_key(i));
        if touches {
            let mut fp = Fp::new();
            fp.bytes(&prost::Message::encode_to_vec(&f));
            for (k, r) in &map {
                fp.u64(*k).bytes(&prost::Message::encode_to_vec(r));
            }
            mon.nontrivial(fp.finish());
        }
        let ctx = || format!("function={f:?}\nreplacements={map:?}");
        match probe(|| f.substitute(&h).map_err(|e| format!("{e:#}"))) {
            Err(p) => {
                if stored_terms(&f).is_empty() && f.function.is_none() {
                    mon.observe("substitute-on-unset-function-panics");
                    return;
                }
                mon.violation(format!("C04.panic:{}", panic_site(&p)), format!("Function::substitute panicked: {} at {}\n{}", p.message, p.location, ctx()))
            }
            Ok(Err(e)) => mon.violation(format!("C04.substitute-error:{vname}"), format!("Function::substitute failed: {e}\n{}", ctx())),
            Ok(Ok(g)) => {
                if mon.want_sample() && touches {
                    mon.sample(json!({"level": "function", "function": format!("{f:?}"), "replacements": format!("{map:?}"), "result": format!("{g:?}")}));
                }
                let (exact, d) = compare_substituted(&f, &map, &g);
                mon.facet(if exact { "function-judged:exact" } else { "function-judged:bounded" });
                if let Some(d) = d {
                    mon.violation(format!("C04.composition:{vname}"), format!("{d}\nresult={g:?}\n{}", ctx()));
                    return;
                }
                // pointwise: value at a random assignment equals the original with replaced variables
                // set to the value of their replacement at that assignment (D regime, certified only)
                if exact {
                    let mut ids: BTreeSet<u64> = occurring_ids(&f);
                    for r in map.values() {
                        ids.extend(occurring_ids(r));
                    }
                    ids.extend(occurring_ids(&g));
                    let st: BTreeMap<u64, f64> = ids.iter().map(|i| (*i, rng.range(-2, 2) as f64)).collect();
                    let xq = map_q(&st);
                    let mut ext = xq.clone();
                    for (k, r) in &map {
                        ext.insert(*k, canon_function(r).eval(&xq).expect("ids"));
                    }
                    let expected = canon_function(&f).eval(&ext).expect("ids");
                    mon.eval();
                    match probe(|| g.evaluate(&state(st.iter().map(|(k, v)| (*k, *v)))).map_err(|e| format!("{e:#}"))) {
                        Ok(Ok((v, _))) => {
                            let small = expected.abs() < two_pow(40);
                            if small && eval_is_exact(&stored_terms(&g), &st) && !f64_eq_q(v, &expected) {
                                mon.violation(format!("C04.pointwise:{vname}"), format!("result evaluates to {v:e} at {st:?}, composition gives {expected}\nresult={g:?}\n{}", ctx()));
                            }
                        }
                        Ok(Err(e)) => mon.violation(format!("C04.pointwise-error:{vname}"), format!("evaluating the substituted function failed: {e}\nresult={g:?}\n{}", ctx())),
                        Err(p) => mon.violation(format!("C04.panic:{}", panic_site(&p)), format!("evaluate panicked: {}\n{}", p.message, ctx())),
                    }
                }
            }
        }
    }

    fn instance_case(&self, rng: &mut Rng, mon: &mut Monitor) {
        // D regime with small magnitudes so that chains stay exact
        let mut cfg = InstCfg::new(Regime::D);
        cfg.max_vars = 6;
        cfg.max_degree = 3;
        cfg.dup_positions = false; // substitution is built on the arithmetic of C02 (schema rule)
        cfg.irrelevant = true;
        let g = gen_instance(rng, &cfg);
        let mut inst = g.instance;
        if inst.decision_variables.len() < 2 {
            mon.facet("instance/too-small");
            return;
        }
        let original = inst.clone();
        // history of 1..3 substitutions; replaced variables leave the "remaining" set
        let mut remaining: Vec<u64> = inst.decision_variables.iter().map(|v| v.id).collect();
        rng.shuffle(&mut remaining);
        let steps = 1 + rng.usize_below(3);
        let mut history: Vec<BTreeMap<u64, v1::Function>> = vec![];
        let mut tiny_used = false;
        for _ in 0..steps {
            if remaining.len() < 2 {
                break;
            }
            let nrep = 1 + rng.usize_below((remaining.len() - 1).min(3));
            let keys: Vec<u64> = remaining.drain(..nrep).collect();
            let mut map = BTreeMap::new();
            for k in keys {
                let mut r = gen_replacement(rng, &remaining, Regime::D);
                // one replacement in eight carries a term of weight 2^-22: its value is then a hair's breadth
                // (2e-7 .. 1e-6) away from where it would be without it, e.g. from an integer
                if rng.chance(1, 8) && !remaining.is_empty() {
                    let mut terms = stored_terms(&r);
                    terms.push((vec![*rng.pick(&remaining)], *rng.pick(&[2.384185791015625e-7, -2.384185791015625e-7, 4.76837158203125e-7])));
                    r = f_polynomial(polynomial(terms));
                    mon.facet("instance/replacement-with-2^-22-term");
                    tiny_used = true;
                }
                map.insert(k, r);
            }
            history.push(map);
        }
        mon.facet(&format!("instance/history-{}", history.len()));
        let ctx = |inst: &v1::Instance| format!("original={original:?}\nhistory={history:?}\nafter={inst:?}");
        for map in &history {
            let h = to_hash(map, rng);
            mon.eval();
            match probe(|| {
                let mut i2 = inst.clone();
                i2.substitute(h).map(|_| i2).map_err(|e| format!("{e:#}"))
            }) {
                Err(p) => {
                    mon.violation(format!("C04.panic:{}", panic_site(&p)), format!("Instance::substitute panicked: {} at {}\n{}", p.message, p.location, ctx(&inst)));
                    return;
                }
                Ok(Err(e)) => {
                    mon.violation("C04.instance-substitute-error", format!("Instance::substitute failed: {e}\n{}", ctx(&inst)));
                    return;
                }
                Ok(Ok(i2)) => inst = i2,
            }
        }
        let replaced: BTreeSet<u64> = history.iter().flat_map(|m| m.keys().cloned()).collect();
        // structure: nothing mentions a replaced variable; every replaced variable has a dependency entry
        let mut mentions = vec![];
        let mut all_fns: Vec<(String, v1::Function)> = vec![("objective".into(), opt_fn(&inst.objective))];
        for c in &inst.constraints {
            all_fns.push((format!("constraint {}", c.id), opt_fn(&c.function)));
        }
        for r in &inst.removed_constraints {
            let c = r.constraint.as_ref().unwrap();
            all_fns.push((format!("removed constraint {}", c.id), opt_fn(&c.function)));
        }
        for (k, f) in &inst.decision_variable_dependency {
            all_fns.push((format!("dependency of {k}"), f.clone()));
        }
        for (what, f) in &all_fns {
            let bad: Vec<u64> = occurring_ids(f).into_iter().filter(|i| replaced.contains(i)).collect();
            if !bad.is_empty() {
                mentions.push(format!("{what} mentions {bad:?}"));
            }
        }
        if !mentions.is_empty() {
            let which = if mentions.iter().any(|m| m.starts_with("removed")) {
                "removed-constraint"
            } else if mentions.iter().any(|m| m.starts_with("dependency")) {
                "dependency"
            } else {
                "active"
            };
            mon.violation(format!("C04.instance-replaced-variable-remains:{which}"), format!("{}\n{}", mentions.join("; "), ctx(&inst)));
        }
        for k in &replaced {
            if !inst.decision_variable_dependency.contains_key(k) {
                mon.violation("C04.instance-dependency-missing", format!("replaced variable {k} has no dependency entry\n{}", ctx(&inst)));
            }
        }
        // evaluate at a state over the remaining variables
        let remaining_set: BTreeSet<u64> = remaining.iter().cloned().collect();
        let st = sorted_state(&gen_state_in_bounds(rng, &original, Some(&remaining_set), Regime::D));
        // keep values small so that chains stay within the exactness certificate
        let st: BTreeMap<u64, f64> = st.into_iter().map(|(k, v)| (k, if v.abs() > 4.0 { v.signum() * 2.0 } else { v })).collect();
        let st: BTreeMap<u64, f64> = st
            .into_iter()
            .map(|(k, v)| {
                let var = original.decision_variables.iter().find(|d| d.id == k).unwrap();
                let (l, u) = effective_bound(var);
                (k, if v < l || v > u { crate::model::nearest_to_zero(l, u).max(l).min(u) } else { v })
            })
            .collect();
        let mut fp = Fp::new();
        fp.u64(fp_msg(&original));
        for m in &history {
            for (k, r) in m {
                fp.u64(*k).bytes(&prost::Message::encode_to_vec(r));
            }
        }
        fp.u64(fp_state(&state(st.iter().map(|(k, v)| (*k, *v)))));
        if !replaced.is_empty() {
            mon.nontrivial(fp.finish());
        }
        // reference: chain values, earliest history first is NOT the order — later replacements feed earlier ones
        let mut ext: BTreeMap<u64, Q> = map_q(&st);
        let mut chain_exact = true;
        let mut shadow = st.clone();
        // magnitudes without cancellation: |x| for given variables, sum |c| prod M for replaced ones; a value
        // computed in floating point carries an error proportional to this, not to the (possibly cancelled) result
        let mut mags: BTreeMap<u64, Q> = st.iter().map(|(k, v)| (*k, q(v.abs()))).collect();
        for map in history.iter().rev() {
            let mut add = vec![];
            for (k, r) in map {
                let v = canon_function(r).eval(&ext);
                let Some(v) = v else {
                    panic!("harness: replacement of {k} mentions a variable without value");
                };
                chain_exact &= eval_is_exact(&stored_terms(r), &shadow);
                let m = abs_stored_poly(r).eval(&mags).expect("magnitudes cover the same ids");
                add.push((*k, v, m));
            }
            for (k, v, m) in add {
                let vf = q_to_f64(&v);
                chain_exact &= f64_eq_q(vf, &v);
                shadow.insert(k, vf);
                ext.insert(k, v);
                mags.insert(k, m);
            }
        }
        let st_mags: BTreeMap<u64, Q> = st.iter().map(|(k, v)| (*k, q(v.abs()))).collect();
        let sdk_state = state(st.iter().map(|(k, v)| (*k, *v)));
        mon.eval();
        match probe(|| inst.evaluate(&sdk_state).map_err(|e| format!("{e:#}"))) {
            Err(p) => {
                if let Some(site) = p.budget_site {
                    mon.violation(format!("C04.progress-budget:{site}"), format!("dependency evaluation exceeded its step budget\n{}", ctx(&inst)));
                } else {
                    mon.violation(format!("C04.panic:{}", panic_site(&p)), format!("evaluate after substitute panicked: {} at {}\nstate={st:?}\n{}", p.message, p.location, ctx(&inst)));
                }
            }
            Ok(Err(e)) => {
                // out-of-bound values of REMAINING variables are never generated; a bound violation of a
                // dependent variable is not checked by evaluate (it checks the given state only)
                mon.violation("C04.instance-evaluate-error", format!("evaluate after substitute failed: {e}\nstate={st:?}\n{}", ctx(&inst)));
            }
            Ok(Ok((sol, _))) => {
                if mon.want_sample() && !replaced.is_empty() {
                    mon.sample(json!({"level": "instance", "history": format!("{history:?}"), "state": format!("{st:?}"), "reported_state": format!("{:?}", sol.state.as_ref().map(sorted_state))}));
                }
                // values of objective / constraints: original functions at the extended assignment
                // coefficients of size 2^-22 raised to a power fall below f64::EPSILON and are dropped by the
                // documented normalisation; multiplied by state values of size 2^30 .. 2^52 (variables with huge
                // bounds) what is dropped is no longer small. Function values are judged only where it is.
                let dropping_matters = tiny_used && st.values().any(|v| v.abs() > 8.0);
                if dropping_matters {
                    mon.facet("instance-value-not-judged:below-epsilon-coefficients-times-huge-values");
                }
                let check = |what: &str, sig: &str, orig: &v1::Function, after: &v1::Function, got: f64, mon: &mut Monitor| {
                    if dropping_matters {
                        return;
                    }
                    let expected = canon_function(orig).eval(&ext).expect("extended assignment is total");
                    let after_exact = eval_is_exact(&stored_terms(after), &st);
                    // the substituted function must itself be an exact composition for a bit-exact verdict
                    // (powers of a 23-bit coefficient outgrow the certificate's bit budget: those cases are judged
                    // by the bound; the replaced variable's own value below stays an exact comparison)
                    let certified = !tiny_used && chain_exact && after_exact && history.iter().all(|m| substitute_is_exact(orig, m)) && expected.abs() < two_pow(40);
                    let ok = if certified {
                        f64_eq_q(got, &expected)
                    } else {
                        // relative to the result, plus the rounding of the terms the SDK actually adds up (the
                        // substituted function may consist of huge terms that cancel)
                        let mag = abs_stored_poly(after).eval(&st_mags).unwrap_or_else(|| qi(0));
                        (q(got) - &expected).abs() <= (expected.abs() + qi(1)) * q(1e-9) + mag * q(1e-12)
                    };
                    mon.facet(if certified { "instance-value-judged:exact" } else { "instance-value-judged:relative-1e-9+1e-12*magnitude" });
                    if !ok {
                        mon.violation(format!("C04.instance-value:{sig}"), format!("{what}: evaluated {got:e}, original at the extended assignment {expected} ({:e})\nstate={st:?}\n{}", q_to_f64(&expected), ctx(&inst)));
                    }
                };
                check("objective", "objective", &opt_fn(&original.objective), &opt_fn(&inst.objective), sol.objective, mon);
                let (Some(act), Some(rem)) = (pair_by_id(&original.constraints, &inst.constraints), pair_removed_by_id(&original.removed_constraints, &inst.removed_constraints)) else {
                    mon.violation("C04.instance-constraint-set-changed", format!("substitute changed the set of (removed) constraint ids\n{}", ctx(&inst)));
                    return;
                };
                for (co, ca) in act {
                    if let Some(e) = sol.evaluated_constraints.iter().find(|e| e.id == co.id) {
                        check(&format!("constraint {}", co.id), "active", &opt_fn(&co.function), &opt_fn(&ca.function), e.evaluated_value, mon);
                    } else {
                        mon.violation("C04.instance-constraint-missing", format!("constraint {} not evaluated\n{}", co.id, ctx(&inst)));
                    }
                }
                for (ro, ra) in rem {
                    let (co, ca) = (ro.constraint.as_ref().unwrap(), ra.constraint.as_ref().unwrap());
                    if let Some(e) = sol.evaluated_constraints.iter().find(|e| e.id == co.id) {
                        check(&format!("removed constraint {}", co.id), "removed", &opt_fn(&co.function), &opt_fn(&ca.function), e.evaluated_value, mon);
                    } else {
                        mon.violation("C04.instance-constraint-missing", format!("removed constraint {} not evaluated\n{}", co.id, ctx(&inst)));
                    }
                }
                // reported state: every replaced variable with the value of its replacement
                let rep = sol.state.as_ref().map(sorted_state).unwrap_or_default();
                for k in &replaced {
                    let expected = &ext[k];
                    match rep.get(k) {
                        None => mon.violation("C04.instance-dependent-not-reported", format!("replaced variable {k} is absent from the reported state\nstate={st:?}\n{}", ctx(&inst))),
                        Some(_) if dropping_matters => {}
                        Some(v) => {
                            // exact verdict only if the function the SDK itself evaluates for k (its stored dependency,
                            // possibly the composition of several replacements) is exact at this state as well
                            let stored_exact = inst.decision_variable_dependency.get(k).map_or(false, |f| eval_is_exact(&stored_terms(f), &shadow));
                            let ok = if chain_exact && stored_exact { f64_eq_q(*v, expected) } else { (q(*v) - expected).abs() <= (expected.abs() + qi(1)) * q(1e-9) + mags.get(k).cloned().unwrap_or_else(|| qi(0)) * q(1e-12) };
                            if !ok {
                                mon.violation("C04.instance-dependent-value", format!("replaced variable {k} reported as {v:e}; its replacement evaluates to {expected} ({:e})\nstate={st:?}\n{}", q_to_f64(expected), ctx(&inst)));
                            }
                        }
                    }
                }
                for (k, v) in &st {
                    if rep.get(k) != Some(v) {
                        mon.violation("C04.instance-given-value-changed", format!("given variable {k}={v:e} reported as {:?}\n{}", rep.get(k), ctx(&inst)));
                    }
                }
            }
        }
    }

    /// dependency maps written directly: every digraph on <= 3 dependent variables, random ones on 4-5
    fn graph_case(&self, g: u64, rng: &mut Rng, env: &Env, mon: &mut Monitor) {
        let repeats = match env.tier {
            Tier::Quick => 20,
            Tier::Thorough => 400,
        };
        let (n, edges): (usize, Vec<(usize, usize)>) = if g < SMALL_GRAPHS * repeats {
            let idx = g % SMALL_GRAPHS;
            let (n, code) = if idx < 2 {
                (1usize, idx)
            } else if idx < 18 {
                (2usize, idx - 2)
            } else {
                (3usize, idx - 18)
            };
            let mut e = vec![];
            for i in 0..n {
                for j in 0..n {
                    if (code >> (i * n + j)) & 1 == 1 {
                        e.push((i, j)); // i depends on j
                    }
                }
            }
            (n, e)
        } else if rng.chance(1, 40) {
            // a long chain (depth 33..160) in a random order: needs many retry passes
            let n = 33 + rng.usize_below(128);
            let mut perm: Vec<usize> = (0..n).collect();
            rng.shuffle(&mut perm);
            let mut e = vec![];
            for w in perm.windows(2) {
                e.push((w[0], w[1]));
            }
            if rng.chance(1, 6) {
                e.push((perm[n - 1], perm[rng.usize_below(n - 1)])); // closed: must be rejected
            }
            (n, e)
        } else {
            let n = 4 + rng.usize_below(if env.tier == Tier::Thorough { 4 } else { 2 });
            let mut e = vec![];
            let shape = rng.below(5);
            let mut perm: Vec<usize> = (0..n).collect();
            rng.shuffle(&mut perm);
            match shape {
                0 => {
                    // chain in a random order
                    for w in perm.windows(2) {
                        e.push((w[0], w[1]));
                    }
                }
                1 => {
                    // random DAG along the permutation
                    for a in 0..n {
                        for b in (a + 1)..n {
                            if rng.chance(2, 5) {
                                e.push((perm[a], perm[b]));
                            }
                        }
                    }
                }
                2 => {
                    // chain closed into a cycle
                    for w in perm.windows(2) {
                        e.push((w[0], w[1]));
                    }
                    e.push((perm[n - 1], perm[rng.usize_below(n - 1)]));
                }
                _ => {
                    for a in 0..n {
                        for b in 0..n {
                            if rng.chance(1, 5) {
                                e.push((a, b));
                            }
                        }
                    }
                }
            }
            (n, e)
        };
        // ids: independent variables 0..3 (in the state), dependent variables 10.., optional dangling reference
        let indep: Vec<u64> = vec![0, 1, 2];
        let dep_id = |i: usize| 10 + i as u64;
        let dangling = rng.chance(1, 8);
        let dangling_kind = rng.below(2); // 0: undefined id, 1: defined variable that has no value
        let mut deps: BTreeMap<u64, v1::Function> = BTreeMap::new();
        let product_mode = rng.chance(1, 4);
        if product_mode {
            mon.facet("graph/references-inside-products");
        }
        for i in 0..n {
            let mut terms = vec![];
            for id in &indep {
                if rng.bool() {
                    terms.push((*id, small_coef(rng)));
                }
            }
            // a previously fixed variable (substituted_value, not in the state) may feed a dependency
            if rng.chance(1, 3) {
                terms.push((3, small_coef(rng)));
            }
            // in a quarter of the graphs a reference to another dependent (or to the dangling id) may sit
            // inside a product with an independent variable, whose value may well be 0: the reference is
            // a reference all the same, so cycles and dangling ids must still be refused
            let mut products: Vec<(u64, u64, f64)> = vec![];
            for (a, b) in &edges {
                if *a == i {
                    let c = if n > 8 { *rng.pick(&[1.0, -1.0]) } else { small_coef(rng) };
                    if product_mode && rng.bool() {
                        products.push((*rng.pick(&indep), dep_id(*b), c));
                    } else {
                        terms.push((dep_id(*b), c));
                    }
                }
            }
            if dangling && i == 0 {
                let d = if dangling_kind == 0 { 777_777 } else { 50_000 };
                if product_mode && rng.bool() {
                    products.push((*rng.pick(&indep), d, 1.0));
                } else {
                    terms.push((d, 1.0));
                }
            }
            rng.shuffle(&mut terms);
            let f = if !products.is_empty() {
                if rng.bool() {
                    let entries: Vec<(u64, u64, f64)> = products.iter().map(|(a, b, c)| if rng.bool() { (*a, *b, *c) } else { (*b, *a, *c) }).collect();
                    f_quadratic(quadratic(entries, Some(linear(terms, small_coef(rng)))))
                } else {
                    let mut mono: Vec<(Vec<u64>, f64)> = terms.iter().map(|(i, c)| (vec![*i], *c)).collect();
                    for (a, b, c) in &products {
                        mono.push((if rng.bool() { vec![*a, *b] } else { vec![*b, *a] }, *c));
                    }
                    mono.push((vec![], 0.5));
                    rng.shuffle(&mut mono);
                    f_polynomial(polynomial(mono))
                }
            } else if rng.chance(1, 4) && terms.len() >= 2 {
                // same function as a polynomial / quadratic message
                f_polynomial(polynomial(terms.iter().map(|(i, c)| (vec![*i], *c)).chain(std::iter::once((vec![], 0.5))).collect()))
            } else {
                f_linear(linear(terms, small_coef(rng)))
            };
            deps.insert(dep_id(i), f);
        }
        let mut inst = v1::Instance::default();
        for id in &indep {
            inst.decision_variables.push(dvar(*id, KIND_INTEGER, Some((-3.0, 3.0))));
        }
        for i in 0..n {
            inst.decision_variables.push(dvar(dep_id(i), KIND_CONTINUOUS, None));
        }
        let mut fixed = dvar(3, KIND_INTEGER, Some((-3.0, 3.0)));
        let fixed_value = rng.range(-3, 3) as f64;
        fixed.substituted_value = Some(fixed_value);
        inst.decision_variables.push(fixed);
        inst.decision_variables.push(dvar(50_000, KIND_CONTINUOUS, Some((1.0, 2.0)))); // never given a value
        inst.objective = Some(f_linear(linear(vec![(0, 1.0)], 0.0)));
        inst.sense = SENSE_MIN;
        let st: BTreeMap<u64, f64> = indep.iter().map(|i| (*i, rng.range(-3, 3) as f64)).collect();
        let mut with_fixed = st.clone();
        with_fixed.insert(3, fixed_value);
        let reference = ref_dependencies(&deps, &with_fixed);
        let acyclic = reference.is_ok();
        mon.facet(&format!("graph/n={n}/{}", if acyclic { "acyclic" } else if dangling { "dangling-or-cyclic" } else { "cyclic" }));
        let mut fp = Fp::new();
        fp.u64(n as u64);
        for (a, b) in &edges {
            fp.u64((*a * 8 + *b) as u64);
        }
        fp.u64(dangling as u64);
        mon.nontrivial(fp.finish());
        mon.distinct(&format!("dependency-graphs-n{n}"), fp.finish());
        // several rebuilds of the map: the std HashMap gives each its own iteration order
        let rebuilds = if g < SMALL_GRAPHS * repeats { 1 } else { 6 };
        for _ in 0..rebuilds {
            let mut i2 = inst.clone();
            i2.decision_variable_dependency = to_hash(&deps, rng);
            // order as seen from outside
            let outside: Vec<u64> = i2.decision_variable_dependency.keys().cloned().collect();
            let mut ofp = Fp::new();
            for k in &outside {
                ofp.u64(*k);
            }
            mon.distinct(&format!("iteration-orders-n{n}"), ofp.finish());
            let sdk_state = state(st.iter().map(|(k, v)| (*k, *v)));
            let nn = n as u64;
            ommx::verif::start();
            // generous multiples of what a straightforward fixed-point iteration needs (n+1 passes,
            // n(n+1)/2+n visits): the budget is there to turn a hang into a verdict, not to prescribe
            // the algorithm
            ommx::verif::set_budget("deps.pass", 4 * nn + 8);
            ommx::verif::set_budget("deps.visit", 4 * nn * (nn + 1) + 16);
            mon.eval();
            let r = probe(|| i2.evaluate(&sdk_state).map_err(|e| format!("{e:#}")));
            let events = ommx::verif::drain();
            mon.hook_events += events.len() as u64;
            let visits: Vec<(u64, u64)> = events.iter().filter(|e| e.site == "deps.visit").map(|e| (e.a, e.b)).collect();
            if !visits.is_empty() {
                let mut vfp = Fp::new();
                for (id, _) in visits.iter().take(n) {
                    vfp.u64(*id);
                }
                mon.distinct(&format!("first-pass-visit-orders-n{n}"), vfp.finish());
            } else if r.is_ok() {
                mon.observe("no-hook-events-seen(hooked-loop-absent?)");
            }
            let ctx = || format!("dependencies={deps:?}\nstate={st:?}\nmap order={outside:?}\nvisits={visits:?}");
            match r {
                Err(p) => {
                    if let Some(site) = p.budget_site {
                        mon.violation(format!("C04.progress-budget:{site}"), format!("dependency evaluation exceeded its step budget ({}) — no bounded progress\n{}", p.message, ctx()));
                    } else {
                        mon.violation(format!("C04.panic:{}", panic_site(&p)), format!("evaluate panicked: {} at {}\n{}", p.message, p.location, ctx()));
                    }
                }
                Ok(Ok((sol, _))) => match &reference {
                    Err(_) => mon.violation(format!("C04.bad-dependencies-accepted:{}", if dangling { "dangling" } else { "cyclic" }), format!("evaluate returned a Solution although the dependencies are cyclic or refer to variables without value\nreported state={:?}\n{}", sol.state.as_ref().map(sorted_state), ctx())),
                    Ok(values) => {
                        let rep = sol.state.as_ref().map(sorted_state).unwrap_or_default();
                        for (id, (v, cert, mag)) in values {
                            match rep.get(id) {
                                None => mon.violation("C04.dependent-not-reported", format!("dependent variable {id} absent from the reported state\n{}", ctx())),
                                Some(x) => {
                                    let ok = if *cert { f64_eq_q(*x, v) } else { (q(*x) - v).abs() <= (mag + v.abs() + qi(1)) * q(1e-9) };
                                    if !ok {
                                        mon.violation("C04.dependent-value", format!("dependent variable {id} reported {x:e}, exact {v} ({:e})\n{}", q_to_f64(v), ctx()));
                                    }
                                }
                            }
                        }
                    }
                },
                Ok(Err(e)) => {
                    if acyclic {
                        mon.violation("C04.good-dependencies-rejected", format!("evaluate failed ({e}) although the dependencies are acyclic and every referenced variable has a value\n{}", ctx()));
                    } else {
                        mon.facet("bad-dependencies-rejected-cleanly");
                    }
                }
            }
        }
    }
}

impl Property for C04 {
    fn id(&self) -> &'static str {
        "C04"
    }
    fn cases(&self, tier: Tier) -> u64 {
        match tier {
            Tier::Quick => 3 * (SMALL_GRAPHS * 20 + 25_000),
            Tier::Thorough => 3 * (SMALL_GRAPHS * 400 + 2_500_000),
        }
    }
    fn min_nontrivial(&self, tier: Tier) -> u64 {
        match tier {
            Tier::Quick => 20_000,
            Tier::Thorough => 1_000_000,
        }
    }
    fn rule(&self) -> &'static str {
        "case k mod 3: (0) Function::substitute of a hostile function with a 1-4 entry replacement map of degree<=2 (replacements may mention replaced variables), result compared coefficient-wise with exact simultaneous substitution and pointwise at a random assignment; (1) a history of 1-3 Instance::substitute calls (replacements over remaining variables only) followed by evaluate at a state over the remaining variables: objective / active / removed constraint values against the original functions at the assignment extended by the reference chain, every replaced variable reported with its replacement's value; (2) dependency maps written directly: every digraph (self-loops included) on 1-3 dependent variables, each 20x (quick) / 400x (thorough) with freshly built hash maps, then random graphs on 4-5 variables (chains, DAGs, closed chains, random) each rebuilt 6 times, optional dangling references, in a quarter of the graphs references sit inside products with independent variables (whose values include 0); evaluate must return the reference values or fail, inside a generous hook budget (4n+8 passes, 4n(n+1)+16 visits: a hang becomes a verdict, the algorithm is not prescribed). Non-trivial = a replaced variable occurs / a graph case; distinct = fingerprint of inputs (graphs: of the edge set)."
    }
    fn assumptions(&self) -> Vec<&'static str> {
        vec![
            "replacement functions and functions of instances that undergo substitution have no duplicated (row,column) position (schema rule; substitution is built on the arithmetic of C02)",
            "instance-level values are bit-exact when every step is covered by the dyadic certificate, else compared with relative 1e-9 (counted in facets)",
            "iteration orders are explored by rebuilding the std HashMap (fresh RandomState each time); orders actually seen are counted in distinct_sets",
        ]
    }
    fn exhaustive(&self, _tier: Tier) -> bool {
        false
    }
    fn run_case(&self, k: u64, rng: &mut Rng, env: &Env, mon: &mut Monitor) {
        match k % 3 {
            0 => self.function_case(rng, mon),
            1 => self.instance_case(rng, mon),
            _ => self.graph_case(k / 3, rng, env, mon),
        }
    }
}
