//! C07 — the wire format matches the published schema and round-trips.
//!
//! The only hand-written coupling between the schema and the SDK is the pair of tables below
//! (proto full name ↔ Rust type); everything else is derived at run time from the `.proto`
//! files of the tree under test by `wire.rs`, which shares no code with prost.

use crate::monitor::{probe, Fp, Monitor, PanicInfo};
use crate::rng::Rng;
use crate::wire::{self, Label, Schema, Ty, WMsg};
use crate::{Env, Property, Tier};
use ommx::v1;
use serde_json::json;
use std::collections::{BTreeMap, BTreeSet};
use std::sync::OnceLock;

pub struct C07;

// ---------------------------------------------------------------------------------------------
// binding tables

pub enum Again {
    Panic(PanicInfo),
    Rejected(String),
    Done { equal: bool, enc2: Vec<u8> },
}

pub enum Run {
    DecodePanic(PanicInfo),
    Rejected(String),
    EncodePanic(PanicInfo),
    Done { enc: Vec<u8>, len_ok: bool, dbg: String, again: Again },
}

fn run_t<T: prost::Message + Default + PartialEq>(b: &[u8]) -> Run {
    let m = match probe(|| T::decode(b)) {
        Err(p) => return Run::DecodePanic(p),
        Ok(Err(e)) => return Run::Rejected(e.to_string()),
        Ok(Ok(m)) => m,
    };
    let (enc, len, dbg) = match probe(|| (m.encode_to_vec(), m.encoded_len(), format!("{m:?}"))) {
        Err(p) => return Run::EncodePanic(p),
        Ok(x) => x,
    };
    let len_ok = len == enc.len();
    let again = match probe(|| T::decode(&enc[..])) {
        Err(p) => Again::Panic(p),
        Ok(Err(e)) => Again::Rejected(e.to_string()),
        Ok(Ok(m2)) => match probe(|| (m2 == m, m2.encode_to_vec())) {
            Err(p) => Again::Panic(p),
            Ok((equal, enc2)) => Again::Done { equal, enc2 },
        },
    };
    Run::Done { enc, len_ok, dbg, again }
}

fn hostile_t<T: prost::Message + Default>(b: &[u8]) -> Result<Result<usize, String>, PanicInfo> {
    probe(|| T::decode(b).map(|m| m.encode_to_vec().len()).map_err(|e| e.to_string()))
}

fn debug_t<T: prost::Message + Default>() -> String {
    format!("{:?}", T::default())
}

pub struct MsgEntry {
    pub proto: &'static str,
    pub rust: &'static str,
    pub run: fn(&[u8]) -> Run,
    pub hostile: fn(&[u8]) -> Result<Result<usize, String>, PanicInfo>,
    pub debug_default: fn() -> String,
}

macro_rules! msg_table {
    ($( $proto:literal => $t:ty ),* $(,)?) => {
        &[ $( MsgEntry {
            proto: concat!("ommx.v1.", $proto),
            rust: stringify!($t),
            run: run_t::<$t>,
            hostile: hostile_t::<$t>,
            debug_default: debug_t::<$t>,
        } ),* ]
    };
}

pub static MESSAGES: &[MsgEntry] = msg_table! {
    "Linear" => v1::Linear,
    "Linear.Term" => v1::linear::Term,
    "Monomial" => v1::Monomial,
    "Polynomial" => v1::Polynomial,
    "Quadratic" => v1::Quadratic,
    "Function" => v1::Function,
    "Constraint" => v1::Constraint,
    "EvaluatedConstraint" => v1::EvaluatedConstraint,
    "RemovedConstraint" => v1::RemovedConstraint,
    "OneHot" => v1::OneHot,
    "SOS1" => v1::Sos1,
    "ConstraintHints" => v1::ConstraintHints,
    "Bound" => v1::Bound,
    "DecisionVariable" => v1::DecisionVariable,
    "Parameters" => v1::Parameters,
    "Instance" => v1::Instance,
    "Instance.Description" => v1::instance::Description,
    "Parameter" => v1::Parameter,
    "ParametricInstance" => v1::ParametricInstance,
    "State" => v1::State,
    "Solution" => v1::Solution,
    "Infeasible" => v1::Infeasible,
    "Unbounded" => v1::Unbounded,
    "Result" => v1::Result,
    "Samples" => v1::Samples,
    "Samples.SamplesEntry" => v1::samples::SamplesEntry,
    "SampledValues" => v1::SampledValues,
    "SampledValues.SampledValuesEntry" => v1::sampled_values::SampledValuesEntry,
    "SampledDecisionVariable" => v1::SampledDecisionVariable,
    "SampledConstraint" => v1::SampledConstraint,
    "SampleSet" => v1::SampleSet,
};

pub struct EnumEntry {
    pub proto: &'static str,
    pub rust: &'static str,
    pub name_of: fn(i32) -> Option<&'static str>,
    pub number_of: fn(&str) -> Option<i32>,
}

macro_rules! enum_table {
    ($( $proto:literal => $t:ty ),* $(,)?) => {
        &[ $( EnumEntry {
            proto: concat!("ommx.v1.", $proto),
            rust: stringify!($t),
            name_of: |n| <$t>::try_from(n).ok().map(|e| e.as_str_name()),
            number_of: |s| <$t>::from_str_name(s).map(|e| e as i32),
        } ),* ]
    };
}

pub static ENUMS: &[EnumEntry] = enum_table! {
    "Equality" => v1::Equality,
    "DecisionVariable.Kind" => v1::decision_variable::Kind,
    "Instance.Sense" => v1::instance::Sense,
    "Optimality" => v1::Optimality,
    "Relaxation" => v1::Relaxation,
};

// ---------------------------------------------------------------------------------------------

static SCHEMA: OnceLock<Result<Schema, String>> = OnceLock::new();

fn schema(env: &Env) -> &'static Result<Schema, String> {
    hand_written_debug(&env.repo);
    SCHEMA.get_or_init(|| Schema::from_proto_dir(&env.repo.join("proto")))
}

fn short(full: &str) -> &str {
    full.strip_prefix("ommx.v1.").unwrap_or(full)
}

/// names of the top-level fields printed by a derived-style `Debug` of a struct
pub fn debug_field_names(s: &str) -> Vec<String> {
    let c: Vec<char> = s.chars().collect();
    let mut out = vec![];
    let mut depth = 0i32;
    let mut i = 0;
    let mut expect_name = false;
    while i < c.len() {
        let ch = c[i];
        match ch {
            '"' => {
                i += 1;
                while i < c.len() && c[i] != '"' {
                    if c[i] == '\\' {
                        i += 1;
                    }
                    i += 1;
                }
            }
            '{' | '[' | '(' => {
                depth += 1;
                expect_name = depth == 1 && ch == '{';
            }
            '}' | ']' | ')' => {
                depth -= 1;
                expect_name = false;
            }
            ',' => expect_name = depth == 1,
            _ if expect_name && (ch.is_ascii_alphabetic() || ch == '_') => {
                let mut j = i;
                let mut name = String::new();
                while j < c.len() && (c[j].is_ascii_alphanumeric() || c[j] == '_' || c[j] == '#') {
                    name.push(c[j]);
                    j += 1;
                }
                if j < c.len() && c[j] == ':' {
                    out.push(name.trim_start_matches("r#").to_string());
                }
                expect_name = false;
                i = j;
                continue;
            }
            _ if ch.is_whitespace() => {}
            _ => expect_name = false,
        }
        i += 1;
    }
    out
}

/// innermost `Message.field` named by a prost DecodeError ("failed to decode Protobuf message:
/// Inner.field: Outer.field: description")
fn prost_error_site(e: &str) -> Option<String> {
    let rest = e.strip_prefix("failed to decode Protobuf message: ")?;
    let first = rest.split(": ").next()?;
    let ok = first.contains('.') && first.chars().all(|c| c.is_ascii_alphanumeric() || c == '_' || c == '.');
    if ok && rest.len() > first.len() {
        Some(first.to_string())
    } else {
        None
    }
}

const N_STATIC: u64 = 8;

impl Property for C07 {
    fn id(&self) -> &'static str {
        "C07"
    }
    fn cases(&self, tier: Tier) -> u64 {
        match tier {
            Tier::Quick => 100_000,
            Tier::Thorough => 10_000_000,
        }
    }
    fn min_nontrivial(&self, tier: Tier) -> u64 {
        match tier {
            Tier::Quick => 50_000,
            Tier::Thorough => 5_000_000,
        }
    }
    fn rule(&self) -> &'static str {
        "cases 0..7 are the finite inventory checks, each run exactly once per run and exhaustive over its finite set (facets static:*): binding tables cover exactly the messages/enums of the parsed .proto files; every enum value (try_from / as_str_name / from_str_name, and rejection of numbers outside the schema); field names in Debug(T::default()) for every message; data/*.ommx opens, decodes, validates and re-encodes to the same content; the FileDescriptorProto embedded in every python/ommx/ommx/v1/*_pb2.py equals the parsed .proto field by field (THIS IS A STATIC COMPARISON OF THE GENERATED PYTHON BINDINGS, NOT AN EXECUTION: no protobuf runtime for Python exists in the sandbox); protoc --descriptor_set_out cross-check of the harness's own .proto parser; and the tree's schema against the schema published at the pinned release, frozen in harness/src/schema_lock.tsv (every published field keeps name, number, type and label, every enum value its number; additions are counted, not judged). Every other case takes one message type (round-robin over all types), generates a random value tree from the parsed schema (depth<=4, interesting scalars), encodes it with the independent hostile encoder (random field order, packed/unpacked/mixed/chunked repeated scalars, explicit defaults, explicit presence, any oneof arm or none, map entries in any order with optional default omission, unknown fields of every wire type incl. groups, split singular messages, overwritten scalars), pushes the bytes through T::decode -> encode_to_vec -> T::decode -> encode_to_vec and decodes both prost encodings with the independent decoder; plus 3 hostile byte strings per case (must give Ok or Err, never a panic or crash); for Instance, ParametricInstance, State and SampleSet every fourth encoding is also stored as a layer of an OMMX artifact built through ocipkg and read back with the typed getter, which must give what a plain decode of the same bytes gives. Non-trivial = the normal form of the generated tree has at least one non-default field; distinct = fingerprint of (type name, generated bytes)."
    }
    fn assumptions(&self) -> Vec<&'static str> {
        vec![
            "reference: the .proto files below <repo>/proto parsed by the harness's own proto3 parser (cross-checked against protoc when /usr/bin/protoc exists); proto3 semantics of the normal form: default-valued singular scalars are indistinguishable from absent, optional/message/oneof members keep presence, unknown fields are dropped, repeated order is kept, maps are sets of entries",
            "-0.0 in a singular double or a map value is treated as the proto3 default: prost elides it on re-encoding (value != 0.0) and its PartialEq agrees; counted under observations, not judged. NaN payloads are compared bit-wise on the wire and excluded from the PartialEq round-trip oracle only",
            "generated trees never contain duplicate map keys or two arms of one oneof; enum fields also carry numbers outside the schema (open enums must survive as numbers)",
            "Python bindings are compared statically through their embedded serialized descriptors; they are not executed",
            "hostile byte strings: only absence of panics/crashes is judged, not which of Ok/Err is returned",
        ]
    }

    fn run_case(&self, k: u64, rng: &mut Rng, env: &Env, mon: &mut Monitor) {
        let schema = match schema(env) {
            Ok(s) => s,
            Err(e) => {
                mon.violation("HARNESS-ERROR", format!("the .proto files of the tree do not parse with the harness parser: {e}"));
                return;
            }
        };
        match k {
            0 => check_inventory(schema, mon),
            1 => check_enums(schema, mon),
            2 => check_debug_fields(schema, mon),
            3 => check_archives(schema, env, mon),
            4 => check_python(schema, env, mon),
            5 => check_protoc(schema, env, mon),
            6 => check_canonical_defaults(schema, mon),
            7 => check_published_lock(schema, mon),
            _ => dynamic_case(schema, k, rng, env, mon),
        }
    }
}

// ---------------------------------------------------------------------------------------------
// static checks

fn check_inventory(schema: &Schema, mon: &mut Monitor) {
    mon.facet("static:inventory");
    let mut seen = BTreeSet::new();
    for e in MESSAGES {
        if !seen.insert(e.proto) {
            mon.violation("HARNESS-ERROR", format!("binding table lists {} twice", e.proto));
        }
        if !schema.messages.contains_key(e.proto) {
            mon.violation(format!("C07.inventory:binding-without-schema-message:{}", short(e.proto)), format!("Rust type {} is bound to {}, which no .proto file defines", e.rust, e.proto));
        }
    }
    for name in schema.messages.keys() {
        if !seen.contains(name.as_str()) {
            mon.violation(format!("C07.inventory:schema-message-without-binding:{}", short(name)), format!("message {name} of the schema has no entry in the harness binding table (new message, or a binding that was removed)"));
        }
    }
    let mut seen = BTreeSet::new();
    for e in ENUMS {
        seen.insert(e.proto);
        if !schema.enums.contains_key(e.proto) {
            mon.violation(format!("C07.inventory:binding-without-schema-enum:{}", short(e.proto)), format!("Rust enum {} is bound to {}, which no .proto file defines", e.rust, e.proto));
        }
    }
    for name in schema.enums.keys() {
        if !seen.contains(name.as_str()) {
            mon.violation(format!("C07.inventory:schema-enum-without-binding:{}", short(name)), format!("enum {name} of the schema has no entry in the harness binding table"));
        }
    }
    mon.facet_n("inventory:schema-messages", schema.messages.len() as u64);
    mon.facet_n("inventory:schema-enums", schema.enums.len() as u64);
    mon.facet_n("inventory:schema-files", schema.files.len() as u64);
}

fn check_enums(schema: &Schema, mon: &mut Monitor) {
    mon.facet("static:enums");
    for e in ENUMS {
        let Some(def) = schema.enums.get(e.proto) else { continue };
        let known: BTreeSet<i32> = def.values.iter().map(|v| v.1).collect();
        for (name, num) in &def.values {
            mon.evals(2);
            mon.facet("enum-values-checked");
            match probe(|| ((e.name_of)(*num), (e.number_of)(name))) {
                Err(p) => mon.violation(format!("C07.enum-panic:{}", short(e.proto)), format!("{}::try_from({num}) panicked: {}", e.rust, p.message)),
                Ok((n, back)) => {
                    if n != Some(name.as_str()) {
                        mon.violation(
                            format!("C07.enum:{}.{}", short(e.proto), name),
                            format!("schema: {} = {num}; {}::try_from({num}).as_str_name() = {n:?}", name, e.rust),
                        );
                    }
                    if back != Some(*num) {
                        mon.violation(
                            format!("C07.enum:{}.{}", short(e.proto), name),
                            format!("schema: {} = {num}; {}::from_str_name({name:?}) as i32 = {back:?}", name, e.rust),
                        );
                    }
                }
            }
        }
        let max = known.iter().max().cloned().unwrap_or(0);
        let mut probes: Vec<i32> = (-3..=max + 6).collect();
        probes.extend([100, 1000, i32::MAX, i32::MIN]);
        for n in probes {
            if known.contains(&n) {
                continue;
            }
            mon.eval();
            mon.facet("enum-numbers-outside-schema-checked");
            if let Ok(Some(name)) = probe(|| (e.name_of)(n)) {
                mon.violation(
                    format!("C07.enum:{}.{}", short(e.proto), name),
                    format!("{}::try_from({n}) = {name}, but the schema's {} has no value with number {n}", e.rust, e.proto),
                );
            }
        }
    }
}

fn expected_rust_fields(def: &wire::MessageDef) -> BTreeSet<String> {
    def.fields
        .iter()
        .map(|f| match &f.label {
            Label::Oneof(o) => o.clone(),
            _ => f.name.clone(),
        })
        .collect()
}

fn check_debug_fields(schema: &Schema, mon: &mut Monitor) {
    mon.facet("static:debug-fields");
    for e in MESSAGES {
        let Some(def) = schema.messages.get(e.proto) else { continue };
        if is_hand_written_debug(e.proto) {
            mon.facet(&format!("debug-is-hand-written:{}:not-read", short(e.proto)));
            continue;
        }
        mon.eval();
        mon.facet("messages-debug-checked");
        let dbg = match probe(|| (e.debug_default)()) {
            Ok(s) => s,
            Err(p) => {
                mon.violation(format!("C07.debug-panic:{}", short(e.proto)), format!("Debug of {}::default() panicked: {}", e.rust, p.message));
                continue;
            }
        };
        let got: BTreeSet<String> = debug_field_names(&dbg).into_iter().collect();
        let want = expected_rust_fields(def);
        if got != want {
            let missing: Vec<&String> = want.difference(&got).collect();
            let extra: Vec<&String> = got.difference(&want).collect();
            mon.violation(
                format!("C07.debug-fields:{}", short(e.proto)),
                format!("fields of {} by the schema: {want:?}\nfields printed by Debug({}::default()): {got:?}\nin schema only: {missing:?}; in binding only: {extra:?}\nDebug: {}", e.proto, e.rust, wire::clip(&dbg, 600)),
            );
        }
        if mon.want_sample() && e.proto == "ommx.v1.Function" {
            mon.sample(json!({"check": "debug-fields", "type": e.proto, "debug_of_default": dbg, "fields_seen": got}));
        }
    }
}

/// every table type, canonical encoding of the empty message and of an all-explicit-default
/// message must come back empty: catches a binding that stopped eliding defaults
fn check_canonical_defaults(schema: &Schema, mon: &mut Monitor) {
    mon.facet("static:explicit-defaults");
    for e in MESSAGES {
        let Some(def) = schema.messages.get(e.proto) else { continue };
        let mut m = WMsg::default();
        for f in &def.fields {
            if f.label == Label::Singular && !f.ty.is_message() {
                m.fields.insert(f.number, wire::WField::One(wire::default_val(&f.ty)));
            }
        }
        let mut rng = Rng::new(7);
        let bytes = wire::Encoder::new(schema, false).encode(e.proto, &m, &mut rng);
        mon.evals(2);
        match (e.run)(&bytes) {
            Run::Done { enc, .. } => {
                if !enc.is_empty() {
                    let tree = wire::decode(schema, e.proto, &enc).map(|t| wire::render(schema, e.proto, &t)).unwrap_or_else(|x| x);
                    mon.violation(
                        format!("C07.default-not-elided:{}", short(e.proto)),
                        format!("all singular scalars of {} sent with their explicit proto3 default ({}); prost re-encoded {} bytes instead of none: {} = {tree}", e.proto, wire::hex(&bytes), enc.len(), wire::hex(&enc)),
                    );
                }
            }
            Run::Rejected(err) => mon.violation(format!("C07.decode-rejected:{}", prost_error_site(&err).unwrap_or_else(|| short(e.proto).to_string())), format!("explicit defaults for {} rejected: {err}; bytes {}", e.proto, wire::hex(&bytes))),
            Run::DecodePanic(p) | Run::EncodePanic(p) => mon.violation(format!("C07.decode-panic:{}", short(e.proto)), format!("explicit defaults for {}: panic {} at {}", e.proto, p.message, p.location)),
        }
    }
}

fn check_archives(schema: &Schema, env: &Env, mon: &mut Monitor) {
    mon.facet("static:archives");
    let dir = env.repo.join("data");
    let mut files = vec![];
    if let Err(e) = wire::collect_files(&dir, &dir, ".ommx", &mut files) {
        mon.violation("C07.archive:data-directory", format!("cannot list {}: {e}", dir.display()));
        return;
    }
    files.sort();
    if !files.iter().any(|f| f.0 == "random_lp_instance.ommx") {
        mon.violation("C07.archive:missing", format!("{}/random_lp_instance.ommx (written by an earlier release) is not there", dir.display()));
    }
    for (rel, path) in files {
        mon.facet("archives-opened");
        type Out = Result<(Vec<(String, Vec<u8>)>, usize, usize), String>;
        let r = probe(|| -> Out {
            let mut a = ommx::artifact::Artifact::from_oci_archive(&path).map_err(|e| format!("open: {e:#}"))?;
            let layers = a.get_layers().map_err(|e| format!("get_layers: {e:#}"))?;
            let layers: Vec<(String, Vec<u8>)> = layers.into_iter().map(|(d, b)| (format!("{}", d.media_type()), b)).collect();
            let inst = a.get_instances().map_err(|e| format!("get_instances: {e:#}"))?;
            let sols = a.get_solutions().map_err(|e| format!("get_solutions: {e:#}"))?;
            for (_, i) in &inst {
                i.validate().map_err(|e| format!("Instance::validate: {e:#}"))?;
            }
            Ok((layers, inst.len(), sols.len()))
        });
        mon.evals(3);
        let (layers, n_inst, n_sol) = match r {
            Err(p) => {
                mon.violation("C07.archive:panic", format!("{rel}: panic {} at {}", p.message, p.location));
                continue;
            }
            Ok(Err(e)) => {
                let stage = e.split(':').next().unwrap_or("open").to_string();
                mon.violation(format!("C07.archive:{stage}"), format!("{rel}: {e}"));
                continue;
            }
            Ok(Ok(x)) => x,
        };
        mon.facet_n("archive-instance-layers", n_inst as u64);
        mon.facet_n("archive-solution-layers", n_sol as u64);
        if rel == "random_lp_instance.ommx" && n_inst == 0 {
            mon.violation("C07.archive:no-instance", format!("{rel}: no instance layer found; layer media types: {:?}", layers.iter().map(|l| &l.0).collect::<Vec<_>>()));
        }
        // the stored bytes, read by the independent decoder, against what prost makes of them
        for (mt, blob) in &layers {
            let proto = match mt.as_str() {
                "application/org.ommx.v1.instance" => "ommx.v1.Instance",
                "application/org.ommx.v1.parametric-instance" => "ommx.v1.ParametricInstance",
                "application/org.ommx.v1.sample-set" => "ommx.v1.SampleSet",
                _ => {
                    mon.observe(&format!("archive layer of media type {mt}: not compared"));
                    continue;
                }
            };
            let Some(entry) = MESSAGES.iter().find(|e| e.proto == proto) else { continue };
            if !schema.messages.contains_key(proto) {
                continue;
            }
            let stored = match wire::decode(schema, proto, blob) {
                Ok(t) => t,
                Err(e) => {
                    mon.violation(format!("C07.archive:layer-not-schema-conformant:{}", short(proto)), format!("{rel}: layer {mt} does not parse as {proto} under the current schema: {e}"));
                    continue;
                }
            };
            fn unknowns(m: &WMsg) -> usize {
                m.unknown.len()
                    + m.fields
                        .values()
                        .map(|f| match f {
                            wire::WField::One(wire::WVal::Msg(s)) => unknowns(s),
                            wire::WField::Rep(v) => v.iter().map(|x| if let wire::WVal::Msg(s) = x { unknowns(s) } else { 0 }).sum(),
                            wire::WField::Map(v) => v.iter().map(|x| if let wire::WVal::Msg(s) = &x.1 { unknowns(s) } else { 0 }).sum(),
                            _ => 0,
                        })
                        .sum::<usize>()
            }
            if unknowns(&stored) > 0 {
                mon.observe("archive layer carries fields unknown to the current schema (dropped on read)");
            }
            let mut nz = 0;
            let want = wire::normalize(schema, proto, &stored, &mut nz, false);
            mon.evals(2);
            match (entry.run)(blob) {
                Run::Done { enc, .. } => match wire::decode(schema, proto, &enc) {
                    Ok(t) => {
                        let got = wire::normalize(schema, proto, &t, &mut nz, true);
                        if got != want {
                            let d = wire::first_diff(schema, proto, &want, &got);
                            let (o, f, w) = d.map(|d| (d.owner, d.field, d.what)).unwrap_or_default();
                            mon.violation(format!("C07.archive:content:{}.{}", short(&o), f), format!("{rel}: layer {mt}: stored content and prost's reading differ at {o}.{f}: {w}"));
                        } else {
                            mon.facet("archive-layers-content-compared");
                            if mon.want_sample() {
                                mon.sample(json!({"check": "archive", "file": rel, "layer": mt, "bytes": blob.len(), "tree": wire::clip(&wire::render(schema, proto, &want), 400)}));
                            }
                        }
                    }
                    Err(e) => mon.violation(format!("C07.reencode-malformed:{}", short(proto)), format!("{rel}: re-encoding of layer {mt} does not parse: {e}")),
                },
                Run::Rejected(e) => mon.violation("C07.archive:layer-rejected", format!("{rel}: layer {mt}: {e}")),
                Run::DecodePanic(p) | Run::EncodePanic(p) => mon.violation("C07.archive:panic", format!("{rel}: layer {mt}: panic {}", p.message)),
            }
        }
    }
}

fn check_python(schema: &Schema, env: &Env, mon: &mut Monitor) {
    mon.facet("static:python-descriptors (static comparison of *_pb2.py, not an execution)");
    let dir = env.repo.join("python/ommx/ommx/v1");
    let mut files = vec![];
    if let Err(e) = wire::collect_files(&dir, &dir, "_pb2.py", &mut files) {
        mon.violation("C07.python-descriptor:directory", format!("cannot list {}: {e}", dir.display()));
        return;
    }
    files.sort();
    let mut covered: BTreeSet<String> = BTreeSet::new();
    for (rel, path) in &files {
        let text = match std::fs::read_to_string(path) {
            Ok(t) => t,
            Err(e) => {
                mon.violation(format!("C07.python-descriptor:{rel}:unreadable"), format!("{e}"));
                continue;
            }
        };
        let bytes = match wire::extract_pb2_descriptor(&text) {
            Ok(b) => b,
            Err(e) => {
                mon.violation(format!("C07.python-descriptor:{rel}:no-descriptor"), format!("cannot extract the serialized descriptor: {e}"));
                continue;
            }
        };
        let mut py = Schema::default();
        let fname = match py.add_file_descriptor(&bytes) {
            Ok(n) => n,
            Err(e) => {
                mon.violation(format!("C07.python-descriptor:{rel}:malformed"), format!("embedded descriptor ({} bytes) is not a well-formed FileDescriptorProto: {e}", bytes.len()));
                continue;
            }
        };
        mon.eval();
        mon.facet("python-files-compared");
        mon.facet_n("python-descriptor-bytes", bytes.len() as u64);
        let stem = rel.trim_end_matches("_pb2.py");
        if !fname.ends_with(&format!("/{stem}.proto")) {
            mon.violation(format!("C07.python-descriptor:{rel}:source-name"), format!("{rel} embeds the descriptor of {fname}"));
        }
        covered.insert(fname.clone());
        if !schema.files.contains_key(&fname) {
            mon.violation(format!("C07.python-descriptor:{rel}:stale-module"), format!("{rel} was generated from {fname}, which does not exist below proto/"));
            continue;
        }
        let (nf, ne) = wire::schema_size(schema, Some(&fname));
        mon.facet_n("python-fields-compared", nf);
        mon.facet_n("python-enum-values-compared", ne);
        let diffs = wire::diff_schema(schema, &py, Some(&fname));
        for (key, text) in diffs {
            mon.violation(format!("C07.python-descriptor:{rel}:{key}"), format!("{fname} (parsed .proto, reference) vs descriptor embedded in {rel}: {text}"));
        }
        if mon.want_sample() && stem == "linear" {
            mon.sample(json!({"check": "python-descriptor (static)", "module": rel, "descriptor_bytes": bytes.len(), "descriptor_hex": wire::clip(&wire::hex(&bytes), 120), "decoded": format!("{:?}", py.messages.get("ommx.v1.Linear"))}));
        }
    }
    for f in schema.files.keys() {
        if !covered.contains(f) {
            mon.violation(format!("C07.python-descriptor:{f}:no-python-module"), format!("no *_pb2.py below {} embeds the descriptor of {f}", dir.display()));
        }
    }
}

/// The schema published with the pinned release, frozen when this machinery was built
/// (`ommx-verif schema-lock --repo <pinned tree>`). The tree's .proto files, the Rust bindings and the
/// Python descriptors are compared with each other elsewhere; a *consistent* edit of all three (a
/// renumbered or retyped field) passes those comparisons and still breaks every artifact and
/// adapter that speaks the published numbers, so the tree's schema is also compared with this text.
/// New messages, fields and enum values are additions (counted, not judged).
const PUBLISHED_LOCK: &str = include_str!("../schema_lock.tsv");

fn check_published_lock(schema: &Schema, mon: &mut Monitor) {
    mon.facet("static:published-schema-lock");
    let (diffs, checked, additions) = wire::diff_lock(PUBLISHED_LOCK, schema);
    mon.evals(checked);
    mon.facet_n("published-lock-entries-checked", checked);
    mon.facet_n("published-lock-additions-in-tree", additions);
    for (key, text) in diffs {
        mon.violation(format!("C07.published-schema:{key}"), format!("{key}: {text} (published schema frozen in harness/src/schema_lock.tsv)"));
    }
}

fn check_protoc(schema: &Schema, env: &Env, mon: &mut Monitor) {
    let protoc = std::path::Path::new("/usr/bin/protoc");
    if !protoc.exists() {
        mon.facet("static:protoc-crosscheck:skipped (no /usr/bin/protoc)");
        return;
    }
    let _ = std::fs::create_dir_all(&env.scratch);
    let out = env.scratch.join("c07-protoc-set.desc");
    let root = env.repo.join("proto");
    let mut cmd = std::process::Command::new(protoc);
    cmd.arg(format!("--proto_path={}", root.display())).arg(format!("--descriptor_set_out={}", out.display()));
    for f in schema.files.keys() {
        cmd.arg(f);
    }
    let res = cmd.output();
    let bytes = match res {
        Ok(o) if o.status.success() => std::fs::read(&out),
        Ok(o) => {
            mon.violation("HARNESS-ERROR", format!("protoc rejects the .proto files that the harness parser accepted: {}", String::from_utf8_lossy(&o.stderr)));
            return;
        }
        Err(e) => {
            mon.facet("static:protoc-crosscheck:skipped (protoc cannot be started)");
            mon.observe(&format!("protoc could not be started: {e}"));
            return;
        }
    };
    let _ = std::fs::remove_file(&out);
    let set = match bytes.map_err(|e| e.to_string()).and_then(|b| Schema::from_descriptor_set(&b)) {
        Ok(s) => s,
        Err(e) => {
            mon.violation("HARNESS-ERROR", format!("cannot decode protoc's descriptor set: {e}"));
            return;
        }
    };
    let diffs = wire::diff_schema(&set, schema, None);
    if diffs.is_empty() {
        mon.facet("static:protoc-crosscheck:parser-agrees-with-protoc");
        let (nf, ne) = wire::schema_size(schema, None);
        mon.facet_n("protoc-crosscheck-fields", nf);
        mon.facet_n("protoc-crosscheck-enum-values", ne);
    } else {
        let text: Vec<String> = diffs.iter().take(10).map(|d| format!("{}: {}", d.0, d.1)).collect();
        mon.violation("HARNESS-ERROR", format!("the harness .proto parser disagrees with protoc (reference protoc): {}", text.join("; ")));
    }
}

// ---------------------------------------------------------------------------------------------
// hostile bytes as an artifact layer

fn layer_case(proto: &str, bytes: &[u8], env: &Env, k: u64, mon: &mut Monitor) {
    use ommx::artifact::Artifact;
    use ommx::ocipkg::image::{OciArchiveBuilder, OciArtifactBuilder};
    use ommx::ocipkg::oci_spec::image::MediaType;
    use ommx::ocipkg::Digest;
    use prost::Message;
    use sha2::{Digest as _, Sha256};
    let media = match proto {
        "ommx.v1.Instance" => "application/org.ommx.v1.instance",
        "ommx.v1.ParametricInstance" => "application/org.ommx.v1.parametric-instance",
        "ommx.v1.State" => "application/org.ommx.v1.solution",
        "ommx.v1.SampleSet" => "application/org.ommx.v1.sample-set",
        _ => return,
    };
    let _ = std::fs::create_dir_all(&env.scratch);
    let path = env.scratch.join(format!("c07-layer-{k}.ommx"));
    let _ = std::fs::remove_file(&path);
    // building is harness-side work with a third-party crate: a failure here is not a verdict
    let built = probe(|| -> Result<(), String> {
        let archive = OciArchiveBuilder::new_unnamed(path.clone()).map_err(|e| format!("{e:#}"))?;
        let mut b = OciArtifactBuilder::new(archive, MediaType::Other("application/org.ommx.v1.artifact".into())).map_err(|e| format!("{e:#}"))?;
        b.add_layer(MediaType::Other(media.into()), bytes, std::collections::HashMap::new()).map_err(|e| format!("{e:#}"))?;
        b.build().map(drop).map_err(|e| format!("{e:#}"))
    });
    if !matches!(built, Ok(Ok(()))) {
        mon.observe("artifact with a hostile layer could not be built through ocipkg (no verdict)");
        let _ = std::fs::remove_file(&path);
        return;
    }
    let mut hex = String::from("sha256:");
    for b in Sha256::digest(bytes) {
        hex.push_str(&format!("{b:02x}"));
    }
    // what a plain decode of the same bytes gives, as Debug text (NaN payloads make PartialEq useless)
    let r = probe(|| -> Result<(String, String), String> {
        let dg = Digest::new(&hex).map_err(|e| format!("Digest::new: {e:#}"))?;
        let mut art = Artifact::from_oci_archive(&path).map_err(|e| format!("from_oci_archive: {e:#}"))?;
        Ok(match proto {
            "ommx.v1.Instance" => (format!("{:?}", v1::Instance::decode(bytes)), format!("{:?}", art.get_instance(&dg).map(|x| x.0).map_err(|e| format!("{e:#}")))),
            "ommx.v1.ParametricInstance" => (format!("{:?}", v1::ParametricInstance::decode(bytes)), format!("{:?}", art.get_parametric_instance(&dg).map(|x| x.0).map_err(|e| format!("{e:#}")))),
            "ommx.v1.State" => (format!("{:?}", v1::State::decode(bytes)), format!("{:?}", art.get_solution(&dg).map(|x| x.0).map_err(|e| format!("{e:#}")))),
            _ => (format!("{:?}", v1::SampleSet::decode(bytes)), format!("{:?}", art.get_sample_set(&dg).map(|x| x.0).map_err(|e| format!("{e:#}")))),
        })
    });
    let _ = std::fs::remove_file(&path);
    mon.eval();
    mon.facet(&format!("hostile-bytes-as-artifact-layer:{}", short(proto)));
    match r {
        Err(p) => mon.violation(format!("C07.artifact-layer-panic:{}", short(proto)), format!("reading a layer panicked: {} at {}\nlayer bytes {}", p.message, p.location, wire::hex(bytes))),
        Ok(Err(e)) => mon.violation(format!("C07.artifact-layer:{}", short(proto)), format!("{e}\nlayer bytes {}", wire::hex(bytes))),
        Ok(Ok((plain, layer))) => {
            // maps print in hash order: the two texts are compared as multisets of characters
            if plain.starts_with("Ok(") && !layer.starts_with("Ok(") {
                mon.violation(format!("C07.artifact-layer-rejected:{}", short(proto)), format!("decode of the bytes succeeds, the typed getter of the artifact fails: {layer}\nlayer bytes {}", wire::hex(bytes)));
            } else if plain.starts_with("Ok(") && {
                let sorted = |t: &str| {
                    let mut v: Vec<char> = t.chars().collect();
                    v.sort_unstable();
                    v
                };
                sorted(&plain) != sorted(&layer)
            } {
                mon.violation(format!("C07.artifact-layer-content:{}", short(proto)), format!("plain decode: {plain}\nthrough the artifact: {layer}\nlayer bytes {}", wire::hex(bytes)));
            }
        }
    }
}

// ---------------------------------------------------------------------------------------------
// dynamic cases

fn hostile_variant(schema: &Schema, proto: &str, valid: &[u8], rng: &mut Rng) -> (&'static str, Vec<u8>) {
    let def = schema.msg(proto);
    let field_with = |rng: &mut Rng, pred: &dyn Fn(&wire::FieldDef) -> bool| -> Option<wire::FieldDef> {
        let v: Vec<&wire::FieldDef> = def.fields.iter().filter(|f| pred(f)).collect();
        if v.is_empty() {
            None
        } else {
            Some((*rng.pick(&v)).clone())
        }
    };
    let mut out = vec![];
    match rng.below(11) {
        0 if !valid.is_empty() => {
            let cut = rng.usize_below(valid.len());
            ("truncated", valid[..cut].to_vec())
        }
        1 => {
            // a known field with a wire type it cannot have, well-framed
            let Some(f) = field_with(rng, &|_| true) else { return ("field-number-zero", vec![0, 0]) };
            let natural = if matches!(f.label, Label::Map(_)) { 2 } else { f.ty.wire_type() };
            let wrong: Vec<u8> = [0u8, 1, 2, 5].into_iter().filter(|w| *w != natural && !(*w == 2 && f.label == Label::Repeated && f.ty.packable())).collect();
            let wt = *rng.pick(&wrong);
            wire::put_tag(&mut out, f.number, wt);
            match wt {
                0 => wire::put_varint(&mut out, rng.next_u64()),
                1 => out.extend_from_slice(&rng.next_u64().to_le_bytes()),
                5 => out.extend_from_slice(&(rng.next_u64() as u32).to_le_bytes()),
                _ => {
                    wire::put_varint(&mut out, 3);
                    out.extend_from_slice(&[1, 2, 3]);
                }
            }
            if rng.bool() {
                out.extend_from_slice(valid);
            }
            ("wrong-wire-type", out)
        }
        2 => {
            let num = field_with(rng, &|f| f.ty.wire_type() == 0 && !matches!(f.label, Label::Map(_))).map(|f| f.number).unwrap_or(15);
            wire::put_tag(&mut out, num, 0);
            match rng.below(3) {
                0 => out.extend_from_slice(&[0xff; 11]),
                1 => {
                    out.extend_from_slice(&[0xff; 9]);
                    out.push(0x7f);
                }
                _ => out.extend_from_slice(&[0x80; 10]),
            }
            ("over-long-varint", out)
        }
        3 => {
            let num = field_with(rng, &|f| f.ty.wire_type() == 0 && !matches!(f.label, Label::Map(_))).map(|f| f.number).unwrap_or(15);
            wire::put_tag(&mut out, num, 0);
            out.extend_from_slice(&[0x81, 0x80, 0x80, 0x00]);
            out.extend_from_slice(valid);
            ("non-canonical-varint", out)
        }
        4 => {
            let num = field_with(rng, &|f| f.ty.wire_type() == 2 || f.label == Label::Repeated || matches!(f.label, Label::Map(_))).map(|f| f.number).unwrap_or(15);
            wire::put_tag(&mut out, num, 2);
            wire::put_varint(&mut out, *rng.pick(&[1u64 << 31, (1 << 32) + 5, 1 << 62, u64::MAX, 0x7fff_ffff, 1000]));
            for _ in 0..rng.below(6) {
                out.push(rng.next_u64() as u8);
            }
            ("huge-length-prefix", out)
        }
        5 if !valid.is_empty() => {
            let mut v = valid.to_vec();
            for _ in 0..1 + rng.below(3) {
                let i = rng.usize_below(v.len());
                v[i] ^= 1 << rng.below(8);
            }
            ("bit-flips", v)
        }
        6 => {
            let Some(f) = field_with(rng, &|f| f.ty == Ty::String && !matches!(f.label, Label::Map(_))) else {
                return ("field-number-zero", vec![0, 0]);
            };
            wire::put_tag(&mut out, f.number, 2);
            wire::put_varint(&mut out, 3);
            out.extend_from_slice(&[0x61, 0xff, 0xc0]);
            ("invalid-utf8", out)
        }
        7 => {
            let depth = *rng.pick(&[90usize, 101, 200, 5000]);
            for _ in 0..depth {
                wire::put_tag(&mut out, 30, 3);
            }
            if rng.bool() {
                for _ in 0..depth {
                    wire::put_tag(&mut out, 30, 4);
                }
            }
            ("deep-unknown-groups", out)
        }
        8 => {
            let mut v = valid.to_vec();
            for _ in 0..1 + rng.below(4) {
                v.push(rng.next_u64() as u8);
            }
            ("trailing-garbage", v)
        }
        9 => {
            // stray end-group / reserved wire types 6 and 7
            wire::put_tag(&mut out, 1 + rng.below(12) as u32, *rng.pick(&[4u8, 6, 7]));
            out.extend_from_slice(valid);
            ("invalid-wire-type", out)
        }
        _ => ("field-number-zero", vec![rng.below(8) as u8, 0]),
    }
}

fn dynamic_case(schema: &Schema, k: u64, rng: &mut Rng, env: &Env, mon: &mut Monitor) {
    let e = &MESSAGES[((k - N_STATIC) % MESSAGES.len() as u64) as usize];
    if !schema.messages.contains_key(e.proto) {
        return; // reported by the inventory check
    }
    let sname = short(e.proto);
    let v = wire::gen_value(schema, e.proto, rng, 0);
    let hostile = !rng.chance(1, 8);
    let mut enc = wire::Encoder::new(schema, hostile);
    let bytes = enc.encode(e.proto, &v, rng);
    let stats: BTreeMap<&'static str, u64> = std::mem::take(&mut enc.stats);
    let mut negzero = 0u64;
    let want = wire::normalize(schema, e.proto, &v, &mut negzero, false);

    // the harness's own codec must agree with itself before prost is judged
    let back = match wire::decode(schema, e.proto, &bytes) {
        Err(err) => {
            mon.violation("HARNESS-ERROR", format!("wire.rs cannot decode its own encoding of {}: {err}; bytes {}", e.proto, wire::hex(&bytes)));
            return;
        }
        Ok(back) => {
            let mut nz = 0;
            if wire::normalize(schema, e.proto, &back, &mut nz, false) != want {
                mon.violation("HARNESS-ERROR", format!("wire.rs encode/decode self-check failed for {}: bytes {}\nsent {}\nread {}", e.proto, wire::hex(&bytes), wire::render(schema, e.proto, &v), wire::render(schema, e.proto, &back)));
                return;
            }
            back
        }
    };

    mon.facet(&format!("type:{sname}"));
    mon.facet(if hostile { "encoding:hostile" } else { "encoding:canonical" });
    for (s, n) in &stats {
        mon.facet_n(&format!("enc:{s}"), *n);
    }
    if negzero > 0 {
        mon.observe("-0.0 in a singular double / map value: compared as the proto3 default (prost elides it on re-encoding)");
    }
    let nontrivial = !want.fields.is_empty();
    if nontrivial {
        let mut fp = Fp::new();
        fp.str(e.proto).bytes(&bytes);
        mon.nontrivial(fp.finish());
    } else {
        mon.facet("trivial:all-default-tree");
    }
    let has_nan = wire::contains_nan(&want);
    let context = |schema: &Schema| format!("bytes sent ({}): {}\ntree sent: {}", bytes.len(), wire::clip(&wire::hex(&bytes), 1500), wire::clip(&wire::render(schema, e.proto, &want), 1500));

    mon.eval();
    // the four message kinds that travel as artifact layers: every fourth time, the very bytes of the
    // independent encoder (unknown fields, explicit defaults, any field order) are stored as a layer of an
    // OMMX artifact built through ocipkg and must be read by the typed getter like by a plain decode
    if (k / MESSAGES.len() as u64) % 4 == 0 {
        layer_case(e.proto, &bytes, env, k, mon);
    }
    match (e.run)(&bytes) {
        Run::DecodePanic(p) => mon.violation(format!("C07.decode-panic:{sname}"), format!("{}::decode panicked on a valid encoding: {} at {}\n{}", e.rust, p.message, p.location, context(schema))),
        Run::Rejected(err) => mon.violation(
            format!("C07.decode-rejected:{}", prost_error_site(&err).unwrap_or_else(|| sname.to_string())),
            format!("{}::decode rejected a valid encoding of {}: {err}\n{}", e.rust, e.proto, context(schema)),
        ),
        Run::EncodePanic(p) => mon.violation(format!("C07.encode-panic:{sname}"), format!("{}::encode_to_vec panicked: {} at {}\n{}", e.rust, p.message, p.location, context(schema))),
        Run::Done { enc, len_ok, dbg, again } => {
            mon.eval();
            // the decoded values themselves, seen through Debug of the decoded struct
            match parse_debug(&dbg) {
                Err(err) => mon.violation("HARNESS-ERROR", format!("cannot parse Debug of the decoded {}: {err}\n{}", e.rust, wire::clip(&dbg, 1500))),
                Ok(d) => {
                    mon.facet("decoded-values-compared");
                    if let Some(x) = cmp_decoded(schema, e.proto, &back, &d) {
                        mon.violation(
                            format!("C07.decoded-value:{}.{}", short(&x.owner), x.field),
                            format!(
                                "{}::decode: {}.{}: {}\n{}\ntree on the wire (independent decoder): {}\ndecoded struct: {}",
                                e.rust,
                                x.owner,
                                x.field,
                                x.what,
                                context(schema),
                                wire::clip(&wire::render(schema, e.proto, &back), 1500),
                                wire::clip(&dbg, 1500)
                            ),
                        );
                    }
                }
            }
            if !len_ok {
                mon.violation(format!("C07.encoded-len:{sname}"), format!("encoded_len() differs from encode_to_vec().len() = {}\n{}", enc.len(), context(schema)));
            }
            let compare = |mon: &mut Monitor, which: &str, sig: &str, out: &[u8]| -> bool {
                match wire::decode(schema, e.proto, out) {
                Err(err) => { mon.violation(format!("C07.reencode-malformed:{sname}"), format!("{which} of {} is not a valid encoding under the schema: {err}\nprost bytes: {}\n{}", e.rust, wire::clip(&wire::hex(out), 1500), context(schema))); false }
                Ok(t) => {
                    let mut nz = 0;
                    let got = wire::normalize(schema, e.proto, &t, &mut nz, true);
                    if got != want {
                        let (o, f, w) = wire::first_diff(schema, e.proto, &want, &got).map(|d| (d.owner, d.field, d.what)).unwrap_or_else(|| (e.proto.to_string(), "?".into(), "trees differ".into()));
                        mon.violation(
                            format!("{sig}:{}.{}", short(&o), f),
                            format!("{which} through {}: {o}.{f}: {w}\n{}\nprost bytes ({}): {}\ntree read back: {}", e.rust, context(schema), out.len(), wire::clip(&wire::hex(out), 1500), wire::clip(&wire::render(schema, e.proto, &got), 1500)),
                        );
                        false
                    } else {
                        true
                    }
                }
                }
            };
            let first_ok = compare(mon, "decode -> encode_to_vec", "C07.roundtrip", &enc);
            match again {
                Again::Panic(p) => mon.violation(format!("C07.decode-panic:{sname}"), format!("{}::decode panicked on prost's own encoding: {} at {}\n{}", e.rust, p.message, p.location, context(schema))),
                Again::Rejected(err) => mon.violation(format!("C07.prost-roundtrip-rejected:{sname}"), format!("{}::decode rejects {}::encode_to_vec: {err}\n{}", e.rust, e.rust, context(schema))),
                Again::Done { equal, enc2 } => {
                    mon.evals(2);
                    if has_nan {
                        mon.facet("prost-eq-oracle:skipped (tree contains NaN)");
                    } else {
                        mon.facet("prost-eq-oracle:checked");
                        if !equal {
                            mon.violation(format!("C07.prost-roundtrip:{sname}"), format!("decode(encode_to_vec(m)) != m for {}\n{}", e.rust, context(schema)));
                        }
                    }
                    // a second-generation difference is only news when the first generation agreed
                    if first_ok {
                        compare(mon, "second generation (decode -> encode -> decode -> encode)", "C07.roundtrip2", &enc2);
                    }
                }
            }
            if mon.want_sample() && nontrivial && bytes.len() > 12 && bytes.len() < 200 {
                mon.sample(json!({"type": e.proto, "rust": e.rust, "bytes_hex": wire::hex(&bytes), "tree": wire::render(schema, e.proto, &want), "encoder": stats.keys().collect::<Vec<_>>(), "prost_reencoded_hex": wire::hex(&enc)}));
            }
        }
    }

    // hostile byte strings: Ok or Err, never a panic
    for _ in 0..3 {
        let (kind, h) = hostile_variant(schema, e.proto, &bytes, rng);
        mon.eval();
        match (e.hostile)(&h) {
            Err(p) => mon.violation(format!("C07.decode-panic:{sname}"), format!("{}::decode panicked on a malformed input ({kind}): {} at {}\nbytes: {}", e.rust, p.message, p.location, wire::clip(&wire::hex(&h), 2000))),
            Ok(Ok(_)) => mon.facet(&format!("hostile:{kind}:accepted")),
            Ok(Err(_)) => mon.facet(&format!("hostile:{kind}:rejected")),
        }
    }
}

// ---------------------------------------------------------------------------------------------
// observation of the decoded values
//
// A decode/re-encode differential cannot see a value-level reinterpretation that is its own
// inverse on the wire (int64 read as sint64 and written back as sint64, uint64 as int64, fixed64
// as double ...). The decoded struct is therefore observed through its `Debug` rendering, which
// is parsed generically and compared with what the independent decoder reads from the same
// bytes. (The types are #[non_exhaustive] generated code; Debug is the one generic window.)

#[derive(Clone, Debug, PartialEq)]
pub enum Dbg {
    Num(String),
    Str(String),
    Ident(String),
    Tuple(String, Vec<Dbg>),
    Struct(String, Vec<(String, Dbg)>),
    List(Vec<Dbg>),
    Map(Vec<(Dbg, Dbg)>),
}

struct DbgParser {
    c: Vec<char>,
    p: usize,
}

impl DbgParser {
    fn ws(&mut self) {
        while self.p < self.c.len() && self.c[self.p].is_whitespace() {
            self.p += 1;
        }
    }
    fn peek(&mut self) -> Option<char> {
        self.ws();
        self.c.get(self.p).cloned()
    }
    fn eat(&mut self, ch: char) -> Result<(), String> {
        if self.peek() == Some(ch) {
            self.p += 1;
            Ok(())
        } else {
            Err(format!("expected {ch:?} at offset {}", self.p))
        }
    }
    fn string(&mut self) -> Result<String, String> {
        self.eat('"')?;
        let mut s = String::new();
        loop {
            let ch = *self.c.get(self.p).ok_or("unterminated string")?;
            self.p += 1;
            match ch {
                '"' => return Ok(s),
                '\\' => {
                    let e = *self.c.get(self.p).ok_or("dangling escape")?;
                    self.p += 1;
                    match e {
                        'n' => s.push('\n'),
                        'r' => s.push('\r'),
                        't' => s.push('\t'),
                        '0' => s.push('\0'),
                        '\\' => s.push('\\'),
                        '"' => s.push('"'),
                        '\'' => s.push('\''),
                        'u' => {
                            if self.c.get(self.p) != Some(&'{') {
                                return Err("bad \\u escape".into());
                            }
                            self.p += 1;
                            let mut h = String::new();
                            while let Some(&x) = self.c.get(self.p) {
                                self.p += 1;
                                if x == '}' {
                                    break;
                                }
                                h.push(x);
                            }
                            let v = u32::from_str_radix(&h, 16).map_err(|_| "bad \\u escape")?;
                            s.push(char::from_u32(v).ok_or("bad scalar value")?);
                        }
                        other => return Err(format!("unknown escape \\{other}")),
                    }
                }
                other => s.push(other),
            }
        }
    }
    fn list(&mut self, close: char) -> Result<Vec<Dbg>, String> {
        let mut v = vec![];
        loop {
            if self.peek() == Some(close) {
                self.p += 1;
                return Ok(v);
            }
            v.push(self.value()?);
            if self.peek() == Some(',') {
                self.p += 1;
            }
        }
    }
    fn value(&mut self) -> Result<Dbg, String> {
        match self.peek().ok_or("unexpected end")? {
            '"' => Ok(Dbg::Str(self.string()?)),
            '[' => {
                self.p += 1;
                Ok(Dbg::List(self.list(']')?))
            }
            '{' => {
                self.p += 1;
                let mut v = vec![];
                loop {
                    if self.peek() == Some('}') {
                        self.p += 1;
                        return Ok(Dbg::Map(v));
                    }
                    let k = self.value()?;
                    self.eat(':')?;
                    let x = self.value()?;
                    v.push((k, x));
                    if self.peek() == Some(',') {
                        self.p += 1;
                    }
                }
            }
            ch if ch.is_ascii_alphanumeric() || ch == '_' || ch == '-' => {
                let mut w = String::new();
                while let Some(&x) = self.c.get(self.p) {
                    if x.is_ascii_alphanumeric() || x == '_' || x == '.' || x == '-' || x == '+' {
                        w.push(x);
                        self.p += 1;
                    } else {
                        break;
                    }
                }
                let first = w.chars().next().unwrap();
                if first.is_ascii_digit() || first == '-' || w == "inf" || w == "NaN" {
                    return Ok(Dbg::Num(w));
                }
                match self.peek() {
                    Some('(') => {
                        self.p += 1;
                        Ok(Dbg::Tuple(w, self.list(')')?))
                    }
                    Some('{') => {
                        self.p += 1;
                        let mut v = vec![];
                        loop {
                            if self.peek() == Some('}') {
                                self.p += 1;
                                return Ok(Dbg::Struct(w, v));
                            }
                            let mut name = String::new();
                            while let Some(&x) = self.c.get(self.p) {
                                if x.is_ascii_alphanumeric() || x == '_' || x == '#' {
                                    name.push(x);
                                    self.p += 1;
                                } else {
                                    break;
                                }
                            }
                            if name.is_empty() {
                                return Err(format!("expected a field name at offset {}", self.p));
                            }
                            self.eat(':')?;
                            let x = self.value()?;
                            v.push((name.trim_start_matches("r#").to_string(), x));
                            if self.peek() == Some(',') {
                                self.p += 1;
                            }
                        }
                    }
                    _ => Ok(Dbg::Ident(w)),
                }
            }
            other => Err(format!("unexpected {other:?} at offset {}", self.p)),
        }
    }
}

pub fn parse_debug(s: &str) -> Result<Dbg, String> {
    let mut p = DbgParser { c: s.chars().collect(), p: 0 };
    let v = p.value()?;
    if p.peek().is_some() {
        return Err(format!("trailing text at offset {}", p.p));
    }
    Ok(v)
}

fn camel(s: &str) -> String {
    s.split('_')
        .map(|p| {
            let mut c = p.chars();
            match c.next() {
                Some(f) => f.to_ascii_uppercase().to_string() + c.as_str(),
                None => String::new(),
            }
        })
        .collect()
}

pub struct ValueDiff {
    pub owner: String,
    pub field: String,
    pub what: String,
}

fn cmp_scalar(schema: &Schema, ty: &Ty, want: &wire::WVal, got: &Dbg) -> Result<(), String> {
    use wire::WVal;
    let bad = || Err(format!("wire value {}, decoded struct holds {got:?}", wire::show_val(want)));
    match (ty, want, got) {
        (Ty::Enum(en), WVal::I(n), g) => {
            let known = schema.enums.get(en).map_or(false, |d| d.values.iter().any(|v| v.1 as i64 == *n));
            match g {
                Dbg::Ident(_) if known => Ok(()),
                Dbg::Num(s) if !known && s.parse::<i64>().ok() == Some(*n) => Ok(()),
                _ => bad(),
            }
        }
        (_, WVal::U(n), Dbg::Num(s)) => {
            if s.parse::<u64>().ok() == Some(*n) {
                Ok(())
            } else {
                bad()
            }
        }
        (_, WVal::I(n), Dbg::Num(s)) => {
            if s.parse::<i64>().ok() == Some(*n) {
                Ok(())
            } else {
                bad()
            }
        }
        (_, WVal::F64(b), Dbg::Num(s)) => match s.parse::<f64>() {
            Ok(x) if x.to_bits() == *b || (x.is_nan() && f64::from_bits(*b).is_nan()) => Ok(()),
            _ => bad(),
        },
        (_, WVal::F32(b), Dbg::Num(s)) => match s.parse::<f32>() {
            Ok(x) if x.to_bits() == *b || (x.is_nan() && f32::from_bits(*b).is_nan()) => Ok(()),
            _ => bad(),
        },
        (_, WVal::Bool(b), Dbg::Ident(s)) => {
            if s == if *b { "true" } else { "false" } {
                Ok(())
            } else {
                bad()
            }
        }
        (_, WVal::Str(a), Dbg::Str(b)) => {
            if a == b {
                Ok(())
            } else {
                bad()
            }
        }
        (_, WVal::Bytes(a), Dbg::List(l)) => {
            let g: Option<Vec<u8>> = l.iter().map(|x| if let Dbg::Num(s) = x { s.parse::<u8>().ok() } else { None }).collect();
            if g.as_deref() == Some(&a[..]) {
                Ok(())
            } else {
                bad()
            }
        }
        _ => bad(),
    }
}

/// `want`: what the independent decoder reads from the bytes (not normalised); `got`: Debug of
/// the struct prost decoded from the same bytes
/// Proto message types whose Rust struct carries `#[prost(skip_debug)]`, i.e. whose `Debug` is hand-written (prost
/// derives `Debug` unless told to skip it, so a second impl is possible only with that attribute). What such a
/// `Debug` prints is not the wire content field by field; the decoded value of those types is then not read
/// through `Debug` (the decode / re-encode differential and the normal-form comparison still apply to them).
static HAND_WRITTEN_DEBUG: std::sync::OnceLock<BTreeSet<String>> = std::sync::OnceLock::new();

fn hand_written_debug(repo: &std::path::Path) -> &'static BTreeSet<String> {
    HAND_WRITTEN_DEBUG.get_or_init(|| {
        let mut out = BTreeSet::new();
        let src = std::fs::read_to_string(repo.join("rust/ommx/src/ommx.v1.rs")).unwrap_or_default();
        let mut pending = false;
        for line in src.lines() {
            let l = line.trim();
            if l.starts_with("#[prost(") && l.contains("skip_debug") && !l.contains("tag") {
                pending = true;
            } else if let Some(rest) = l.strip_prefix("pub struct ") {
                if pending {
                    out.insert(rest.split(|c: char| !c.is_alphanumeric() && c != '_').next().unwrap_or("").to_string());
                }
                pending = false;
            } else if l.starts_with("pub enum ") || l.starts_with("pub mod ") {
                pending = false;
            }
        }
        out
    })
}

fn is_hand_written_debug(proto_name: &str) -> bool {
    HAND_WRITTEN_DEBUG.get().map_or(false, |s| s.contains(short(proto_name)))
}

pub fn cmp_decoded(schema: &Schema, name: &str, want: &WMsg, got: &Dbg) -> Option<ValueDiff> {
    use wire::{WField, WVal};
    if is_hand_written_debug(name) {
        return None;
    }
    let def = schema.msg(name);
    let diff = |field: &str, what: String| Some(ValueDiff { owner: name.to_string(), field: field.to_string(), what });
    let fields: &[(String, Dbg)] = match got {
        Dbg::Struct(_, f) => f,
        Dbg::Ident(_) => &[],
        other => return diff("<struct>", format!("expected a struct rendering, found {other:?}")),
    };
    let get = |n: &str| fields.iter().find(|f| f.0 == n).map(|f| &f.1);
    let cmp_val = |ty: &Ty, w: &WVal, g: &Dbg, fname: &str| -> Option<ValueDiff> {
        match (ty, w) {
            (Ty::Message(sub), WVal::Msg(m)) => cmp_decoded(schema, sub, m, g),
            _ => match cmp_scalar(schema, ty, w, g) {
                Ok(()) => None,
                Err(e) => diff(fname, e),
            },
        }
    };
    for f in &def.fields {
        if matches!(f.label, Label::Oneof(_)) {
            continue;
        }
        let Some(g) = get(&f.name) else {
            return diff(&f.name, "field not printed by Debug of the decoded struct".into());
        };
        let w = want.fields.get(&f.number);
        match (&f.label, w) {
            (Label::Singular, None) if f.ty.is_message() => {
                if *g != Dbg::Ident("None".into()) {
                    return diff(&f.name, format!("not on the wire, decoded struct holds {g:?}"));
                }
            }
            (Label::Optional, None) => {
                if *g != Dbg::Ident("None".into()) {
                    return diff(&f.name, format!("not on the wire, decoded struct holds {g:?}"));
                }
            }
            (Label::Singular, None) => {
                if let Some(d) = cmp_val(&f.ty, &wire::default_val(&f.ty), g, &f.name) {
                    return Some(d);
                }
            }
            (Label::Singular, Some(WField::One(v))) if !f.ty.is_message() => {
                if let Some(d) = cmp_val(&f.ty, v, g, &f.name) {
                    return Some(d);
                }
            }
            (Label::Singular | Label::Optional, Some(WField::One(v))) => match g {
                Dbg::Tuple(s, inner) if s == "Some" && inner.len() == 1 => {
                    if let Some(d) = cmp_val(&f.ty, v, &inner[0], &f.name) {
                        return Some(d);
                    }
                }
                _ => return diff(&f.name, format!("wire value {}, decoded struct holds {g:?}", wire::show_val(v))),
            },
            (Label::Repeated, w) => {
                let empty = vec![];
                let vs = match w {
                    Some(WField::Rep(v)) => v,
                    None => &empty,
                    _ => return diff(&f.name, "internal: tree shape".into()),
                };
                let Dbg::List(l) = g else {
                    return diff(&f.name, format!("repeated field rendered as {g:?}"));
                };
                if l.len() != vs.len() {
                    return diff(&f.name, format!("{} elements on the wire, {} in the decoded struct", vs.len(), l.len()));
                }
                for (v, x) in vs.iter().zip(l) {
                    if let Some(d) = cmp_val(&f.ty, v, x, &f.name) {
                        return Some(d);
                    }
                }
            }
            (Label::Map(kt), w) => {
                let empty = vec![];
                let es = match w {
                    Some(WField::Map(v)) => v,
                    None => &empty,
                    _ => return diff(&f.name, "internal: tree shape".into()),
                };
                let Dbg::Map(l) = g else {
                    return diff(&f.name, format!("map field rendered as {g:?}"));
                };
                if l.len() != es.len() {
                    return diff(&f.name, format!("{} entries on the wire, {} in the decoded struct", es.len(), l.len()));
                }
                for (k, v) in es {
                    let Some((_, x)) = l.iter().find(|e| cmp_scalar(schema, kt, k, &e.0).is_ok()) else {
                        return diff(&f.name, format!("key {} missing from the decoded map {:?}", wire::show_val(k), l.iter().map(|e| &e.0).collect::<Vec<_>>()));
                    };
                    if let Some(d) = cmp_val(&f.ty, v, x, &f.name) {
                        return Some(d);
                    }
                }
            }
            _ => return diff(&f.name, "internal: tree shape".into()),
        }
    }
    for o in def.oneofs() {
        let Some(g) = get(&o) else {
            return diff(&o, "oneof not printed by Debug of the decoded struct".into());
        };
        let set = def.fields.iter().filter(|f| f.label == Label::Oneof(o.clone())).find_map(|f| want.fields.get(&f.number).map(|w| (f, w)));
        match (set, g) {
            (None, Dbg::Ident(s)) if s == "None" => {}
            (None, g) => return diff(&o, format!("no arm on the wire, decoded struct holds {g:?}")),
            (Some((f, WField::One(v))), Dbg::Tuple(s, inner)) if s == "Some" && inner.len() == 1 => match &inner[0] {
                Dbg::Tuple(variant, x) if *variant == camel(&f.name) && x.len() == 1 => {
                    if let Some(d) = cmp_val(&f.ty, v, &x[0], &f.name) {
                        return Some(d);
                    }
                }
                other => return diff(&f.name, format!("arm `{}` on the wire, decoded struct holds {other:?}", f.name)),
            },
            (Some((f, _)), g) => return diff(&f.name, format!("arm `{}` on the wire, decoded struct holds {g:?}", f.name)),
        }
    }
    None
}
