//! C06 — sample-set evaluation agrees with evaluating each sample alone.

use crate::build::*;
use crate::gen::*;
use crate::monitor::{fp_msg, fp_state, panic_site, probe, Fp, Monitor};
use crate::props::c05::{add_fixed_and_dependent2, add_threshold_constraints};
use crate::rng::Rng;
use crate::{Env, Property, Tier};
use ommx::{v1, Evaluate};
use serde_json::json;
use std::collections::{BTreeMap, BTreeSet};

pub struct C06;

/// everything of a Solution that the property compares, in an order-independent form
#[derive(Debug, PartialEq)]
pub struct SolKey {
    pub objective: u64,
    pub feasible: bool,
    pub feasible_relaxed: Option<bool>,
    pub constraints: BTreeMap<u64, ConKey>,
    pub constraint_count: usize,
    pub state: BTreeMap<u64, u64>,
    pub variables: Vec<v1::DecisionVariable>,
}

#[derive(Debug, PartialEq)]
pub struct ConKey {
    pub value: u64,
    pub equality: i32,
    pub name: Option<String>,
    pub description: Option<String>,
    pub subscripts: Vec<i64>,
    pub parameters: BTreeMap<String, String>,
    pub removed_reason: Option<String>,
    pub removed_reason_parameters: BTreeMap<String, String>,
    pub used: BTreeSet<u64>,
}

fn norm_bits(x: f64) -> u64 {
    // -0.0 and 0.0 are the same number
    if x == 0.0 {
        0
    } else if x.is_nan() {
        // one NaN is as good as another
        0x7ff8_0000_0000_0000
    } else {
        x.to_bits()
    }
}

pub fn sol_key(s: &v1::Solution) -> SolKey {
    SolKey {
        objective: norm_bits(s.objective),
        feasible: s.feasible,
        feasible_relaxed: s.feasible_relaxed,
        constraint_count: s.evaluated_constraints.len(),
        constraints: s
            .evaluated_constraints
            .iter()
            .map(|e| {
                (
                    e.id,
                    ConKey {
                        value: norm_bits(e.evaluated_value),
                        equality: e.equality,
                        name: e.name.clone(),
                        description: e.description.clone(),
                        subscripts: e.subscripts.clone(),
                        parameters: e.parameters.iter().map(|(k, v)| (k.clone(), v.clone())).collect(),
                        removed_reason: e.removed_reason.clone(),
                        removed_reason_parameters: e.removed_reason_parameters.iter().map(|(k, v)| (k.clone(), v.clone())).collect(),
                        used: e.used_decision_variable_ids.iter().cloned().collect(),
                    },
                )
            })
            .collect(),
        state: s.state.as_ref().map(|st| st.entries.iter().map(|(k, v)| (*k, norm_bits(*v))).collect()).unwrap_or_default(),
        variables: {
            let mut v = s.decision_variables.clone();
            v.sort_by_key(|d| d.id);
            v
        },
    }
}

fn first_difference(a: &SolKey, b: &SolKey) -> (&'static str, String) {
    if a.objective != b.objective {
        return ("objective", format!("objective {:e} vs {:e}", f64::from_bits(a.objective), f64::from_bits(b.objective)));
    }
    if a.feasible != b.feasible {
        return ("feasible", format!("feasible {} vs {}", a.feasible, b.feasible));
    }
    if a.feasible_relaxed != b.feasible_relaxed {
        return ("feasible-relaxed", format!("feasible_relaxed {:?} vs {:?}", a.feasible_relaxed, b.feasible_relaxed));
    }
    if a.constraint_count != b.constraint_count || a.constraints.keys().collect::<Vec<_>>() != b.constraints.keys().collect::<Vec<_>>() {
        return ("constraint-set", format!("constraints {:?} ({}) vs {:?} ({})", a.constraints.keys(), a.constraint_count, b.constraints.keys(), b.constraint_count));
    }
    for (id, ca) in &a.constraints {
        let cb = &b.constraints[id];
        if ca.value != cb.value {
            return ("constraint-value", format!("constraint {id}: {:e} vs {:e}", f64::from_bits(ca.value), f64::from_bits(cb.value)));
        }
        if ca.removed_reason != cb.removed_reason || ca.removed_reason_parameters != cb.removed_reason_parameters {
            return ("constraint-removed-reason", format!("constraint {id}: {:?} {:?} vs {:?} {:?}", ca.removed_reason, ca.removed_reason_parameters, cb.removed_reason, cb.removed_reason_parameters));
        }
        if ca != cb {
            return ("constraint-metadata", format!("constraint {id}: {ca:?} vs {cb:?}"));
        }
    }
    if a.state != b.state {
        let fmt = |m: &BTreeMap<u64, u64>| m.iter().map(|(k, v)| format!("{k}:{:e}", f64::from_bits(*v))).collect::<Vec<_>>().join(", ");
        return ("state", format!("state {{{}}} vs {{{}}}", fmt(&a.state), fmt(&b.state)));
    }
    if a.variables != b.variables {
        return ("decision-variables", "decision variable descriptions differ".into());
    }
    ("none", String::new())
}

fn sample_ids(rng: &mut Rng, n: usize) -> Vec<u64> {
    let mut s = BTreeSet::new();
    let flavor = rng.below(3);
    while s.len() < n {
        s.insert(match flavor {
            0 => rng.below(12.max(3 * n as u64)),
            1 => rng.below(1000) * 13 + 5,
            _ => {
                let base = *rng.pick(&[0u64, 1, 7, 1 << 20, (1 << 40) + 3, u64::MAX - 1, 99, 100, 12345, 5_000_000_000]);
                if n > 8 {
                    base.wrapping_sub(rng.below(n as u64)).max(rng.below(3))
                } else {
                    base
                }
            }
        });
    }
    let mut v: Vec<u64> = s.into_iter().collect();
    rng.shuffle(&mut v);
    v
}

/// group (id, state index) pairs into entries; `mode`: 0 random grouping of equal states (possibly
/// split over several entries), 1 one entry per id, 2 all equal states merged
fn group(rng: &mut Rng, assign: &[(u64, usize)], states: &[v1::State], mode: u64) -> v1::Samples {
    let mut samples = v1::Samples::default();
    match mode {
        1 => {
            let mut a = assign.to_vec();
            rng.shuffle(&mut a);
            for (id, si) in a {
                samples.entries.push(samples_entry(states[si].clone(), vec![id]));
            }
        }
        3 => {
            // the SDK's own incremental builder, samples arriving in any order
            let mut a = assign.to_vec();
            rng.shuffle(&mut a);
            for (id, si) in a {
                samples.add_sample(id, states[si].clone());
            }
        }
        2 => {
            for (si, st) in states.iter().enumerate() {
                let mut ids: Vec<u64> = assign.iter().filter(|(_, s)| *s == si).map(|(i, _)| *i).collect();
                if ids.is_empty() {
                    continue;
                }
                rng.shuffle(&mut ids);
                samples.entries.push(samples_entry(st.clone(), ids));
            }
            rng.shuffle(&mut samples.entries);
        }
        _ => {
            for (si, st) in states.iter().enumerate() {
                let mut ids: Vec<u64> = assign.iter().filter(|(_, s)| *s == si).map(|(i, _)| *i).collect();
                rng.shuffle(&mut ids);
                while !ids.is_empty() {
                    let take = 1 + rng.usize_below(ids.len());
                    let chunk: Vec<u64> = ids.drain(..take).collect();
                    samples.entries.push(samples_entry(st.clone(), chunk));
                }
            }
            rng.shuffle(&mut samples.entries);
        }
    }
    samples
}

fn key_set<'a>(it: impl Iterator<Item = &'a u64>) -> (BTreeSet<u64>, usize) {
    let v: Vec<u64> = it.cloned().collect();
    (v.iter().cloned().collect(), v.len())
}

impl Property for C06 {
    fn id(&self) -> &'static str {
        "C06"
    }
    fn cases(&self, tier: Tier) -> u64 {
        match tier {
            Tier::Quick => 60_000,
            Tier::Thorough => 4_000_000,
        }
    }
    fn min_nontrivial(&self, tier: Tier) -> u64 {
        match tier {
            Tier::Quick => 15_000,
            Tier::Thorough => 1_000_000,
        }
    }
    fn rule(&self) -> &'static str {
        "each case: a generated valid instance (all kinds, removed constraints, threshold constraints, fixed and dependent unused variables; one in six first passed through a random pipeline of SDK transformations) and 1-8 sample ids (small / sparse / huge, unsorted) assigned to 1..n in-bound states (so several ids share a state and different states give equal values), some states omitting variables the problem does not use; one case in four with a state that is another state minus some unused variables; submitted in four groupings (random split of equal states over entries / one entry per id / equal states merged / built incrementally with Samples::add_sample in random order); one case in 30 with a constraint whose terms overflow to NaN or inf. Observed: evaluate_samples, SampleSet::get(id) for every id and grouping, Instance::evaluate(state_id). Non-trivial = >= 2 sample ids and an instance with a constraint or non-constant objective; distinct = fingerprint of (instance, id->state assignment)."
    }
    fn assumptions(&self) -> Vec<&'static str> {
        vec![
            "states are in bounds (the single-sample route rejects out-of-bound states; the set route is not required to) and never give values for dependent variables; a quarter of the states echo fixed variables back with another in-bound value",
            "the two routes run the same f64 arithmetic per state, so agreement is required bit for bit (-0.0 == 0.0)",
        ]
    }

    fn run_case(&self, case_k: u64, rng: &mut Rng, env: &Env, mon: &mut Monitor) {
        let self_tier_thorough = env.tier == Tier::Thorough;
        let regime = if rng.chance(3, 4) { Regime::D } else { Regime::R };
        let mut cfg = InstCfg::new(regime);
        cfg.deepen(self_tier_thorough, case_k);
        let g = gen_instance(rng, &cfg);
        let mut inst = g.instance;
        add_threshold_constraints(rng, &mut inst, &g.pool);
        // one case in six: an instance out of a pipeline of the SDK's own transformations
        if rng.chance(1, 6) {
            let (i2, steps) = pipeline_instance(rng, inst);
            inst = i2;
            for st in &steps {
                mon.facet(&format!("pipeline-step:{st}"));
            }
            if !steps.is_empty() {
                mon.facet("instance-out-of-an-SDK-pipeline");
            }
        }
        let (hidden, dep_sources) = add_fixed_and_dependent2(rng, &mut inst, regime);
        // one case in 30: a constraint whose finite terms overflow (c*a - c*b + 1 with c = 1e308 at a = b = 10
        // is inf - inf = NaN, at b = -10 it is +inf): both routes must judge such a value alike
        let mut overflow: Option<(u64, u64, f64)> = None;
        if rng.chance(1, 30) {
            let top = inst.decision_variables.iter().map(|v| v.id).max().unwrap_or(0);
            let (a, b) = (top + 1, top + 2);
            inst.decision_variables.push(dvar(a, KIND_CONTINUOUS, None));
            inst.decision_variables.push(dvar(b, KIND_CONTINUOUS, None));
            let cid = inst.constraints.iter().map(|c| c.id).chain(inst.removed_constraints.iter().filter_map(|r| r.constraint.as_ref().map(|c| c.id))).max().map_or(0, |m| m + 1);
            let f = f_linear(linear(vec![(a, 1e308), (b, -1e308)], 1.0));
            let c = constraint(cid, if rng.bool() { EQ_ZERO } else { LE_ZERO }, Some(f));
            if rng.bool() {
                inst.constraints.push(c);
            } else {
                inst.removed_constraints.push(removed(c, "overflow", Default::default()));
            }
            overflow = Some((a, b, if rng.bool() { 10.0 } else { -10.0 }));
            mon.facet("constraint-value-overflows-to-nan-or-inf");
        }
        let used = used_ids(&inst);
        // 1..8 sample ids (the property's range); deep thorough cases go up to 40
        let n = 1 + rng.usize_below(if self_tier_thorough && is_deep_case(case_k) { 40 } else { 8 });
        let ids = sample_ids(rng, n);
        let nstates = 1 + rng.usize_below(n);
        let omit_irrelevant = rng.chance(1, 3);
        let mut states: Vec<v1::State> = vec![];
        let mut any_omitted = false;
        let mut any_echo = false;
        for _ in 0..nstates {
            let give: BTreeSet<u64> = inst
                .decision_variables
                .iter()
                .map(|v| v.id)
                .filter(|i| !hidden.contains(i))
                .filter(|i| used.contains(i) || dep_sources.contains(i) || !omit_irrelevant || rng.bool())
                .collect();
            if inst.decision_variables.iter().any(|v| !hidden.contains(&v.id) && !give.contains(&v.id)) {
                any_omitted = true;
            }
            let mut st = gen_state_in_bounds(rng, &inst, Some(&give), regime);
            // a solver may echo a fixed variable back (with a slightly different in-bound value): both
            // routes must still report the fixed value
            if rng.chance(1, 4) {
                for v in inst.decision_variables.iter().filter(|v| v.substituted_value.is_some()) {
                    if rng.bool() {
                        st.entries.insert(v.id, value_in_bound(rng, v, regime));
                        any_echo = true;
                    }
                }
            }
            if let Some((a, b, bv)) = overflow {
                st.entries.insert(a, 10.0);
                st.entries.insert(b, if rng.chance(1, 4) { -bv } else { bv });
            }
            states.push(st);
        }
        // one case in four: a state that is another state minus some variables the problem does not use
        // (same values on what remains), e.g. two solvers reporting the same point with different verbosity
        if nstates >= 2 && rng.chance(1, 4) {
            let (i, j) = (0, 1 + rng.usize_below(nstates - 1));
            let mut sub = states[i].clone();
            let droppable: Vec<u64> = sub.entries.keys().cloned().filter(|k| !used.contains(k) && !dep_sources.contains(k)).collect();
            let mut dropped = false;
            for k in droppable {
                if rng.bool() {
                    sub.entries.remove(&k);
                    dropped = true;
                }
            }
            if dropped {
                states[j] = sub;
                any_omitted = true;
                mon.facet("a-state-is-a-sub-state-of-another");
            }
        }
        if any_echo {
            mon.facet("some-state-echoes-a-fixed-variable");
        }
        let assign: Vec<(u64, usize)> = ids.iter().map(|i| (*i, rng.usize_below(nstates))).collect();
        let submitted: BTreeSet<u64> = ids.iter().cloned().collect();
        let nontrivial = n >= 2 && (!inst.constraints.is_empty() || !inst.removed_constraints.is_empty() || crate::exact::canon_opt_function(&inst.objective).degree() > 0);
        if nontrivial {
            let mut fp = Fp::new();
            fp.u64(fp_msg(&inst));
            for (id, si) in &assign {
                fp.u64(*id).u64(fp_state(&states[*si]));
            }
            mon.nontrivial(fp.finish());
        }
        mon.facet(&format!("samples:{n}/states:{nstates}"));
        if any_omitted {
            mon.facet("some-state-omits-unused-variable");
        }
        // per-sample route
        let mut alone: BTreeMap<u64, SolKey> = BTreeMap::new();
        for (id, si) in &assign {
            mon.eval();
            match probe(|| inst.evaluate(&states[*si]).map_err(|e| format!("{e:#}"))) {
                Ok(Ok((s, _))) => {
                    alone.insert(*id, sol_key(&s));
                }
                Ok(Err(e)) => {
                    mon.violation("C06.single-evaluate-error", format!("Instance::evaluate failed on an in-bound state: {e}\ninstance={inst:?}\nstate={:?}", sorted_state(&states[*si])));
                    return;
                }
                Err(p) => {
                    mon.violation(format!("C06.panic:{}", panic_site(&p)), format!("Instance::evaluate panicked: {}\ninstance={inst:?}", p.message));
                    return;
                }
            }
        }
        let mut per_grouping: Vec<BTreeMap<u64, SolKey>> = vec![];
        for mode in 0..4u64 {
            let samples = group(rng, &assign, &states, mode);
            let gname = ["random-split", "one-entry-per-id", "merged", "built-with-add_sample"][mode as usize];
            let ctx = || {
                format!(
                    "grouping={gname}\ninstance={inst:?}\nsamples={:?}",
                    samples.entries.iter().map(|e| (e.ids.clone(), e.state.as_ref().map(sorted_state))).collect::<Vec<_>>()
                )
            };
            mon.eval();
            let ss = match probe(|| inst.evaluate_samples(&samples).map_err(|e| format!("{e:#}"))) {
                Err(p) => {
                    mon.violation(format!("C06.panic:{}", panic_site(&p)), format!("evaluate_samples panicked: {} at {}\n{}", p.message, p.location, ctx()));
                    return;
                }
                Ok(Err(e)) => {
                    let fixed: BTreeSet<u64> = inst.decision_variables.iter().filter(|v| v.substituted_value.is_some()).map(|v| v.id).collect();
                    let reads_fixed = inst.decision_variable_dependency.values().any(|f| crate::exact::occurring_ids(f).iter().any(|i| fixed.contains(i)));
                    let sig = if reads_fixed && e.contains("Cannot evaluate any dependent variables") {
                        "C06.evaluate-samples-error:dependency-reads-fixed-variable"
                    } else {
                        "C06.evaluate-samples-error"
                    };
                    mon.violation(sig, format!("evaluate_samples failed ({e}) although every sample state evaluates alone\n{}", ctx()));
                    return;
                }
                Ok(Ok((ss, _))) => ss,
            };
            // key sets
            let mut tables: Vec<(String, (BTreeSet<u64>, usize))> = vec![
                ("feasible".into(), key_set(ss.feasible.keys())),
                ("feasible_relaxed".into(), key_set(ss.feasible_relaxed.keys())),
            ];
            match &ss.objectives {
                Some(o) => tables.push(("objectives".into(), key_set(o.entries.iter().flat_map(|e| e.ids.iter())))),
                None => mon.violation("C06.keys:objectives-missing", format!("sample set has no objectives\n{}", ctx())),
            }
            for c in &ss.constraints {
                tables.push((format!("constraint.feasible"), key_set(c.feasible.keys())));
                if let Some(v) = &c.evaluated_values {
                    tables.push((format!("constraint.evaluated_values"), key_set(v.entries.iter().flat_map(|e| e.ids.iter()))));
                } else {
                    mon.violation("C06.keys:constraint-values-missing", format!("constraint {} has no evaluated values\n{}", c.id, ctx()));
                }
            }
            for (name, (set, len)) in &tables {
                if set != &submitted || *len != submitted.len() {
                    mon.violation(format!("C06.keys:{name}"), format!("{name} is keyed by {set:?} ({len} entries), submitted ids {submitted:?}\n{}", ctx()));
                }
            }
            // per-id extraction
            let mut here = BTreeMap::new();
            for (id, si) in &assign {
                mon.eval();
                match probe(|| ss.get(*id).map_err(|e| format!("{e:#}"))) {
                    Err(p) => mon.violation(format!("C06.panic:{}", panic_site(&p)), format!("SampleSet::get panicked: {}\n{}", p.message, ctx())),
                    Ok(Err(e)) => {
                        // classify: does the state of this id omit a variable that is neither fixed nor dependent?
                        let omitted: Vec<u64> = inst
                            .decision_variables
                            .iter()
                            .filter(|v| v.substituted_value.is_none() && !inst.decision_variable_dependency.contains_key(&v.id))
                            .filter(|v| !states[*si].entries.contains_key(&v.id))
                            .map(|v| v.id)
                            .collect();
                        if !omitted.is_empty() && e.contains("Missing value for decision_variable") {
                            mon.violation(
                                "C06.get-error:state-omits-unused-variable",
                                format!("SampleSet::get({id}) failed ({e}) although evaluating that state alone succeeds; the state omits unused variables {omitted:?}\n{}", ctx()),
                            );
                        } else {
                            mon.violation("C06.get-error:other", format!("SampleSet::get({id}) failed: {e}\n{}", ctx()));
                        }
                    }
                    Ok(Ok(sol)) => {
                        let key = sol_key(&sol);
                        let (what, detail) = first_difference(&key, &alone[id]);
                        if what != "none" {
                            mon.violation(format!("C06.get-vs-evaluate:{what}"), format!("sample {id}: get() vs evaluate(): {detail}\n{}", ctx()));
                        }
                        here.insert(*id, key);
                    }
                }
            }
            if mode == 0 && mon.want_sample() && nontrivial {
                mon.sample(json!({"ids_to_state_index": format!("{assign:?}"), "entries": samples.entries.iter().map(|e| format!("{:?} -> {:?}", e.ids, e.state.as_ref().map(sorted_state))).collect::<Vec<_>>(), "objectives": format!("{:?}", ss.objectives)}));
            }
            per_grouping.push(here);
        }
        // nothing depends on the grouping
        for g in 1..per_grouping.len() {
            for (id, k) in &per_grouping[g] {
                if let Some(k0) = per_grouping[0].get(id) {
                    let (what, detail) = first_difference(k0, k);
                    if what != "none" {
                        mon.violation(format!("C06.grouping-dependence:{what}"), format!("sample {id} differs between groupings: {detail}\ninstance={inst:?}"));
                    }
                }
            }
        }
    }
}
