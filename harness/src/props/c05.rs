//! C05 — a Solution faithfully reports the evaluated problem.

use crate::build::*;
use crate::exact::*;
use crate::gen::*;
use crate::model::*;
use crate::monitor::{fp_msg, fp_state, panic_site, probe, Fp, Monitor};
use crate::rng::Rng;
use crate::{Env, Property, Tier};
use ommx::{v1, Evaluate};
use serde_json::json;
use std::collections::BTreeSet;

pub struct C05;

/// add constraints whose values sit on both sides of the feasibility tolerance
pub fn add_threshold_constraints(rng: &mut Rng, inst: &mut v1::Instance, pool: &[u64]) {
    let n = rng.below(3);
    let mut next_id = inst
        .constraints
        .iter()
        .map(|c| c.id)
        .chain(inst.removed_constraints.iter().filter_map(|r| r.constraint.as_ref().map(|c| c.id)))
        .max()
        .map_or(0, |m| m + 1);
    for _ in 0..n {
        let scale = *rng.pick(&[0.5, 0.999, 1.001, 2.0, 0.0, 1.0]);
        let sign = if rng.bool() { 1.0 } else { -1.0 };
        let c = sign * scale * 1e-6;
        let f = if pool.is_empty() || rng.bool() {
            f_const(c)
        } else {
            // x - x + c with the same variable twice: value is exactly c for every state
            let id = *rng.pick(pool);
            f_linear(linear(vec![(id, 1.0), (id, -1.0)], c))
        };
        let mut con = constraint(next_id, if rng.bool() { EQ_ZERO } else { LE_ZERO }, Some(f));
        next_id += 1;
        if rng.bool() {
            con.name = Some("threshold".into());
        }
        if rng.chance(1, 3) {
            inst.removed_constraints.push(removed(con, "thr", Default::default()));
        } else {
            inst.constraints.push(con);
        }
    }
}

/// mark some unused variables as fixed (substituted) or dependent; returns the ids that must not be
/// given in a state (fixed and dependent ones) and the ids that dependency functions read (which a
/// state must provide unless they are themselves fixed or dependent).
/// Dependency functions may read used variables, otherwise-unused variables, fixed variables and
/// earlier dependent variables (chains; acyclic by construction).
pub fn add_fixed_and_dependent(rng: &mut Rng, inst: &mut v1::Instance, regime: Regime) -> BTreeSet<u64> {
    add_fixed_and_dependent2(rng, inst, regime).0
}

pub fn add_fixed_and_dependent2(rng: &mut Rng, inst: &mut v1::Instance, regime: Regime) -> (BTreeSet<u64>, BTreeSet<u64>) {
    let used = used_ids(inst);
    let mut hidden = BTreeSet::new();
    let mut dep_sources = BTreeSet::new();
    // variables that are already fixed or dependent (an instance out of a pipeline) are left as they are
    let already = fixed_or_dependent(inst);
    let unused: Vec<u64> = inst.decision_variables.iter().map(|v| v.id).filter(|i| !used.contains(i) && !already.contains(i)).collect();
    let mut sources: Vec<u64> = inst.decision_variables.iter().map(|v| v.id).filter(|i| used.contains(i) && !already.contains(i)).collect();
    let mut plain_unused: Vec<u64> = vec![];
    for id in unused {
        match rng.below(5) {
            0 => {
                let v = inst.decision_variables.iter_mut().find(|v| v.id == id).unwrap();
                let val = value_in_bound(rng, v, regime);
                v.substituted_value = Some(val);
                hidden.insert(id);
                // a fixed variable may feed later dependencies
                sources.push(id);
            }
            1 | 2 if !sources.is_empty() => {
                let mut cfg = FnCfg::new(sources.clone(), Regime::D);
                cfg.max_terms = 3;
                cfg.max_degree = 2;
                cfg.allow_unset = false;
                cfg.dup_positions = false;
                // small coefficients keep chains inside the exactness certificate
                let mut f = gen_function(rng, &cfg);
                if rng.bool() {
                    let a = *rng.pick(&sources);
                    f = f_linear(linear(vec![(a, *rng.pick(&[1.0, -1.0, 0.5, 2.0]))], *rng.pick(&[0.0, 1.0, -0.5])));
                }
                dep_sources.extend(crate::exact::occurring_ids(&f));
                inst.decision_variable_dependency.insert(id, f);
                hidden.insert(id);
                // an earlier dependent variable may feed a later one (chain)
                sources.push(id);
            }
            _ => {
                // stays an ordinary unused variable; it may still be read by a dependency function
                plain_unused.push(id);
                if rng.bool() {
                    sources.push(id);
                }
            }
        }
    }
    // everything the state must not give / must give, whoever created it
    hidden.extend(already);
    for f in inst.decision_variable_dependency.values() {
        dep_sources.extend(crate::exact::occurring_ids(f));
    }
    let dep_sources: BTreeSet<u64> = dep_sources.into_iter().filter(|i| !hidden.contains(i)).collect();
    (hidden, dep_sources)
}



impl Property for C05 {
    fn id(&self) -> &'static str {
        "C05"
    }
    fn cases(&self, tier: Tier) -> u64 {
        match tier {
            Tier::Quick => 150_000,
            Tier::Thorough => 8_000_000,
        }
    }
    fn min_nontrivial(&self, tier: Tier) -> u64 {
        match tier {
            Tier::Quick => 40_000,
            Tier::Thorough => 2_000_000,
        }
    }
    fn rule(&self) -> &'static str {
        "each case: a generated valid instance (0-6 variables of all kinds incl. semi-kinds, bounds absent/finite/half-infinite/degenerate/fractional, 0-4 active and 0-3 removed constraints of both equality kinds with metadata, absent functions, extra constraints whose value is exactly +-1e-6*{0,0.5,0.999,1,1.001,2}, unused variables that are fixed (substituted_value) or dependent; one instance in six has first gone through a random pipeline of 1-4 SDK transformations: log_encode + substitute, partial_evaluate, relax / restore, inequality -> equality with slack, as_minimization_problem, penalty method + with_parameters) and one state chosen from: complete in-bound / omitting unused variables / one value (possibly that of an echoed fixed variable) 2e-7 outside a finite bound end / 0.5e-7 outside / one used variable missing; one state in five also repeats the values of fixed variables. The returned Solution (or Err) is compared with a reference evaluation in exact rationals; feasibility flags are recomputed from the reported values with the stated rule. Non-trivial = instance has >= 1 constraint or a non-constant objective; distinct = fingerprint of (encoded instance, state, scenario)."
    }
    fn assumptions(&self) -> Vec<&'static str> {
        vec![
            "instances are valid (unique ids, defined variables, valid bounds); states never give a value for a dependent variable (one state in five repeats the fixed value of fixed variables, as a Solution's state fed back does, or, in the 2e-7 scenario, gives one of them a value outside its bound: the bound check applies to every variable)",
            "values are compared bit-exactly where the dyadic certificate holds, within gamma_k*sum|c|prod|x| otherwise; flags are judged against the values the Solution itself reports",
            "out-of-bound probes sit at 2e-7 / 0.5e-7 beyond a finite bound end, never within 4 ulp of the 1e-7 threshold",
        ]
    }

    fn run_case(&self, k: u64, rng: &mut Rng, env: &Env, mon: &mut Monitor) {
        let regime = if rng.chance(3, 4) { Regime::D } else { Regime::R };
        let mut cfg = InstCfg::new(regime);
        cfg.deepen(env.tier == Tier::Thorough, k);
        cfg.semi_kinds = true;
        let g = gen_instance(rng, &cfg);
        let mut inst = g.instance;
        add_threshold_constraints(rng, &mut inst, &g.pool);
        // one case in six: the instance first goes through a pipeline of the SDK's own transformations
        // (log-encoding + substitution, partial evaluation, relax / restore, slack conversion, penalty
        // method + instantiation, ...): realistic shapes the plain generator does not produce
        if rng.chance(1, 6) {
            let (i2, steps) = pipeline_instance(rng, inst);
            inst = i2;
            for st in &steps {
                mon.facet(&format!("pipeline-step:{st}"));
            }
            mon.facet(if steps.is_empty() { "pipeline:no-step-applied" } else { "instance-out-of-an-SDK-pipeline" });
        }
        let (hidden, dep_sources) = add_fixed_and_dependent2(rng, &mut inst, regime);
        let used = used_ids(&inst);

        // scenario
        let scenario = rng.below(8);
        let give: BTreeSet<u64> = inst
            .decision_variables
            .iter()
            .map(|v| v.id)
            .filter(|id| !hidden.contains(id))
            .filter(|id| used.contains(id) || dep_sources.contains(id) || scenario % 2 == 0 || rng.bool())
            .collect();
        // one case in five: the state also gives (in-bound) values for fixed variables, e.g. a
        // Solution's state fed back; the fixed value is what counts, the bound check still applies
        let mut give = give;
        if rng.chance(1, 5) {
            let fixed: Vec<u64> = inst.decision_variables.iter().filter(|v| v.substituted_value.is_some()).map(|v| v.id).collect();
            if !fixed.is_empty() {
                for id in fixed {
                    if rng.chance(2, 3) {
                        give.insert(id);
                    }
                }
                mon.facet("state-echoes-fixed-variables");
            }
        }
        let mut st = gen_state_in_bounds(rng, &inst, Some(&give), regime);
        // an echoed fixed variable repeats its fixed value (a Solution's state fed back); which of two
        // conflicting values would count is not part of the statement
        for v in &inst.decision_variables {
            if let (Some(fixed), true) = (v.substituted_value, st.entries.contains_key(&v.id)) {
                st.entries.insert(v.id, fixed);
            }
        }
        // values for ids the instance does not define are legal in a state and must be kept
        if rng.chance(1, 5) {
            let extra = 7_000_000 + rng.below(100);
            if !inst.decision_variables.iter().any(|v| v.id == extra) {
                st.entries.insert(extra, value(rng, regime));
                mon.facet("state-has-undefined-extra-id");
            }
        }
        let mut sname = "in-bound";
        match scenario {
            5 | 6 => {
                // push one value outside a finite end of its bound
                let cands: Vec<&v1::DecisionVariable> = inst
                    .decision_variables
                    .iter()
                    .filter(|v| st.entries.contains_key(&v.id))
                    // an echoed fixed variable may be pushed clearly outside its bound (must be rejected like any
                    // other); inside the tolerance its given value would conflict with the fixed one
                    .filter(|v| v.substituted_value.is_none() || scenario == 5)
                    .filter(|v| {
                        let (l, u) = effective_bound(v);
                        l.is_finite() || u.is_finite()
                    })
                    .collect();
                if !cands.is_empty() {
                    let v = *rng.pick(&cands);
                    let (l, u) = effective_bound(v);
                    let delta = if scenario == 5 { 2e-7 } else { 0.5e-7 };
                    let val = if l.is_finite() && (!u.is_finite() || rng.bool()) { l - delta } else { u + delta };
                    st.entries.insert(v.id, val);
                    sname = if scenario == 5 { "out-of-bound-2e-7" } else { "out-of-bound-0.5e-7" };
                }
            }
            7 => {
                let must: Vec<u64> = used.iter().cloned().filter(|i| {
                    // only ids in a non-zero term of some function: zero-coefficient terms may be skipped
                    let mut nz = BTreeSet::new();
                    if let Some(f) = &inst.objective { nz.extend(nonzero_term_ids(f)); }
                    for c in &inst.constraints { if let Some(f) = &c.function { nz.extend(nonzero_term_ids(f)); } }
                    for r in &inst.removed_constraints { if let Some(c) = &r.constraint { if let Some(f) = &c.function { nz.extend(nonzero_term_ids(f)); } } }
                    nz.contains(i)
                }).collect();
                if !must.is_empty() {
                    let id = *rng.pick(&must);
                    st.entries.remove(&id);
                    sname = "missing-used-variable";
                }
            }
            _ => {}
        }
        let sorted = sorted_state(&st);
        let nontrivial = !inst.constraints.is_empty() || !inst.removed_constraints.is_empty() || canon_opt_function(&inst.objective).degree() > 0;
        if nontrivial {
            let mut fp = Fp::new();
            fp.u64(fp_msg(&inst)).u64(fp_state(&st)).str(sname);
            mon.nontrivial(fp.finish());
        }
        mon.facet(&format!("scenario:{sname}"));
        let reference = ref_solution(&inst, &sorted);
        // a zero-coefficient term naming a missing variable: the SDK may or may not reject — not judged
        let r = probe(|| inst.evaluate(&st).map_err(|e| format!("{e:#}")));
        mon.eval();
        let ctx = || format!("scenario={sname}\ninstance={inst:?}\nstate={sorted:?}");
        match (r, reference) {
            (Err(p), _) => mon.violation(format!("C05.panic:{}", panic_site(&p)), format!("Instance::evaluate panicked: {} at {}\n{}", p.message, p.location, ctx())),
            (Ok(Err(e)), Ok(_)) => {
                // reference accepts; but a missing variable that only occurs in zero terms is a legitimate rejection
                let missing_zero_only = used.iter().any(|i| !sorted.contains_key(i));
                if missing_zero_only {
                    mon.observe("rejected:missing-variable-in-zero-term-only");
                } else {
                    mon.violation("C05.rejected-valid-state", format!("evaluate failed ({e}) on a state the property accepts\n{}", ctx()));
                }
            }
            (Ok(Ok(_)), Err(why)) => {
                let tail = match why {
                    RefReject::OutOfBound(_) => "out-of-bound",
                    RefReject::Missing(_) => "missing-variable",
                    RefReject::Dependencies => "dependencies",
                };
                // Missing: only asserted when the missing id occurs in a non-zero term (scenario 7 guarantees it)
                if matches!(why, RefReject::Missing(_)) && sname != "missing-used-variable" {
                    mon.observe("accepted:missing-variable-in-zero-term-only");
                } else {
                    mon.violation(format!("C05.accepted:{tail}"), format!("evaluate returned a Solution although the state must be rejected ({why:?})\n{}", ctx()));
                }
            }
            (Ok(Err(_)), Err(_)) => {
                mon.facet("rejected-as-expected");
            }
            (Ok(Ok((sol, _used))), Ok(rf)) => {
                if mon.want_sample() && nontrivial {
                    mon.sample(json!({"scenario": sname, "instance": format!("{inst:?}"), "state": format!("{sorted:?}"), "objective": sol.objective, "feasible": sol.feasible, "feasible_relaxed": sol.feasible_relaxed}));
                }
                mon.facet(&format!("flags:{}/{:?}", sol.feasible, sol.feasible_relaxed));
                for c in &rf.constraints {
                    if near_threshold(c) {
                        mon.facet("constraint-within-rounding-of-threshold");
                    }
                }
                for (tail, detail) in compare_solution(&sol, &rf, &inst) {
                    mon.violation(format!("C05.{tail}"), format!("{detail}\n{}\nsolution={sol:?}", ctx()));
                }
            }
        }
    }
}
