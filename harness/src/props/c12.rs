//! C12 — log-encoding covers exactly the integer range.

use crate::build::*;
use crate::gen::effective_bound;
use crate::monitor::{panic_site, probe, Fp, Monitor};
use crate::rng::Rng;
use crate::{Env, Property, Tier};
use ommx::v1;
use serde_json::json;
use std::collections::BTreeSet;

pub struct C12;

const OFFSETS: u64 = 5;

fn widths(tier: Tier) -> u64 {
    match tier {
        Tier::Quick => 513,
        Tier::Thorough => 4097,
    }
}

/// exact set of subset sums of non-negative integers, as a bitset up to `max`
fn subset_sums(cs: &[u64], max: usize) -> Vec<bool> {
    let mut reach = vec![false; max + 1];
    reach[0] = true;
    for &c in cs {
        let c = c as usize;
        if c == 0 {
            continue;
        }
        for s in (0..=max).rev() {
            if reach[s] && s + c <= max {
                reach[s + c] = true;
            }
        }
    }
    reach
}

struct Scenario {
    inst: v1::Instance,
    target: u64,
    /// None: must succeed; Some(class): must fail
    error: Option<&'static str>,
    lower: f64,
    upper: f64,
}

fn base_instance(rng: &mut Rng, target: u64, kind: i32, bound: Option<(f64, f64)>) -> v1::Instance {
    let mut inst = v1::Instance::default();
    // other variables around the target, non-contiguous ids, in random positions
    let mut ids: BTreeSet<u64> = BTreeSet::new();
    for _ in 0..rng.below(4) {
        ids.insert(*rng.pick(&[0u64, 1, 2, 5, 9, 40, 1000, (1 << 32) + 7, (1 << 40)]));
    }
    ids.remove(&target);
    // the other variables have nothing to do with the encoding, whatever (valid) kind and bound they have
    let inf = f64::INFINITY;
    let mut vars: Vec<v1::DecisionVariable> = ids
        .iter()
        .map(|i| {
            let (kind, b) = *rng.pick(&[
                (KIND_CONTINUOUS, Some((-1.0, 1.0))),
                (KIND_CONTINUOUS, None),
                (KIND_CONTINUOUS, Some((-inf, inf))),
                (KIND_INTEGER, Some((0.0, inf))),
                (KIND_INTEGER, None),
                (KIND_BINARY, None),
                (KIND_SEMI_CONTINUOUS, Some((-inf, 2.5))),
            ]);
            dvar(*i, kind, b)
        })
        .collect();
    let mut t = dvar(target, kind, bound);
    t.name = Some("t".into());
    vars.push(t);
    rng.shuffle(&mut vars);
    inst.decision_variables = vars;
    inst.objective = Some(f_linear(linear(vec![(target, 1.0)], 0.0)));
    inst.sense = SENSE_MIN;
    // one instance in three has been through substitute(): one of the other variables (half the time the one
    // with the largest id of all) is a dependent variable now, still defined, its value given by a function
    if !ids.is_empty() && rng.chance(1, 3) {
        let largest = *ids.iter().next_back().unwrap();
        let dep = if largest > target && rng.bool() { largest } else { *rng.pick(&ids.iter().copied().collect::<Vec<_>>()) };
        let f = if rng.bool() { f_linear(linear(vec![(target, 2.0)], 1.0)) } else { f_const(3.0) };
        inst.decision_variable_dependency.insert(dep, f);
    }
    inst
}

fn scenario(k: u64, rng: &mut Rng, tier: Tier) -> Scenario {
    let target = *rng.pick(&[0u64, 3, 7, 100, (1 << 32) + 1]);
    let exhaustive = widths(tier) * OFFSETS;
    if k < exhaustive {
        let w = (k / OFFSETS) as f64;
        let (l, u) = match k % OFFSETS {
            0 => (0.0, w),
            1 => (-3.0, -3.0 + w),
            2 => (1000.5, 1000.5 + w + 0.25), // ceil 1001, floor 1001+w-1+... handled by the oracle
            3 => (-1048576.0, -1048576.0 + w),
            _ => (-0.75 - (w / 2.0).floor(), -0.75 - (w / 2.0).floor() + w + 0.5),
        };
        return Scenario {
            inst: base_instance(rng, target, KIND_INTEGER, Some((l, u))),
            target,
            error: None,
            lower: l,
            upper: u,
        };
    }
    if k % 8 == 7 {
        // error classes
        let inf = f64::INFINITY;
        let nan = f64::NAN;
        if rng.chance(1, 12) {
            // no variable is defined at all: every id is unknown
            let mut inst = v1::Instance::default();
            inst.objective = Some(f_const(0.0));
            inst.sense = SENSE_MIN;
            return Scenario { inst, target, error: Some("unknown-id-no-variables"), lower: nan, upper: nan };
        }
        let (class, kind, bound, ask): (&'static str, i32, Option<(f64, f64)>, u64) = match rng.below(11) {
            9 => ("nan-bound", KIND_INTEGER, Some(*rng.pick(&[(nan, 5.0), (0.0, nan), (nan, nan), (-3.0, nan), (nan, -2.0)])), target),
            10 => ("kind-semi-continuous", KIND_SEMI_CONTINUOUS, Some((0.0, 5.0)), target),
            0 => ("unknown-id", KIND_INTEGER, Some((0.0, 5.0)), target + 12345),
            1 => ("kind-binary", KIND_BINARY, Some((0.0, 1.0)), target),
            2 => ("kind-continuous", KIND_CONTINUOUS, Some((0.0, 5.0)), target),
            3 => ("no-bound", KIND_INTEGER, None, target),
            4 => ("upper-infinite", KIND_INTEGER, Some((rng.range(-5, 5) as f64, inf)), target),
            5 => ("lower-infinite", KIND_INTEGER, Some((-inf, rng.range(-5, 5) as f64)), target),
            6 => ("both-infinite", KIND_INTEGER, Some((-inf, inf)), target),
            7 => ("no-integer-inside", KIND_INTEGER, Some((rng.range(-9, 9) as f64 + 0.25, 0.0)).map(|(l, _)| (l, l + 0.5)), target),
            _ => ("kind-semi-integer", KIND_SEMI_INTEGER, Some((0.0, 5.0)), target),
        };
        return Scenario {
            inst: base_instance(rng, target, kind, bound),
            target: ask,
            error: Some(class),
            lower: bound.map_or(f64::NAN, |b| b.0),
            upper: bound.map_or(f64::NAN, |b| b.1),
        };
    }
    // random ranges |l|,|u| <= 2^20, fractional bounds, powers of two +- 1
    let (l, u) = match rng.below(6) {
        4 => {
            // corners of the quantified range and widths 2^k + d anchored at its ends
            let m = 1048576i64;
            match rng.below(3) {
                0 => *rng.pick(&[(-m as f64, m as f64), (-m as f64, (m - 1) as f64), ((-m + 1) as f64, m as f64), (0.0, m as f64), (-m as f64, 0.0)]),
                1 => {
                    let w = ((1i64 << rng.range(1, 21)) + rng.range(-1, 2)).clamp(1, 2 * m);
                    (-m as f64, (-m + w) as f64)
                }
                _ => {
                    let w = ((1i64 << rng.range(1, 21)) + rng.range(-1, 2)).clamp(1, 2 * m);
                    ((m - w) as f64, m as f64)
                }
            }
        }
        5 if rng.chance(1, 3) => {
            // an end exactly one ulp inside / outside an integer, the other end far away: the width u - l
            // is then not representable and rounds to the next integer, floor(u) and ceil(l) do not
            let step = |x: f64, up: bool| -> f64 {
                if x == 0.0 {
                    return if up { f64::from_bits(1) } else { -f64::from_bits(1) };
                }
                let b = x.to_bits();
                f64::from_bits(if (x > 0.0) == up { b + 1 } else { b - 1 })
            };
            let k = rng.range(-40, 40) as f64;
            let far = (1i64 << rng.range(2, 20)) as f64;
            match rng.below(4) {
                0 => (k - far, step(k, false)),
                1 => (k - far, step(k, true)),
                2 => (step(k, true), k + far),
                _ => (step(k, false), k + far),
            }
        }
        5 => {
            // bounds a hair's breadth on either side of an integer
            let a = rng.range(-1000, 1000);
            let w = rng.range(0, 40);
            let d = *rng.pick(&[4.76837158203125e-7, 1e-7, 1e-9, 9.5367431640625e-7, 1e-12]);
            let lo = a as f64 + *rng.pick(&[d, -d, 0.0]);
            let hi = (a + w) as f64 + *rng.pick(&[d, -d, 0.0]);
            if lo <= hi {
                (lo, hi)
            } else {
                (hi, lo)
            }
        }
        0 => {
            let a = rng.range(-1048576, 1048576);
            let b = rng.range(-1048576, 1048576);
            (a.min(b) as f64, a.max(b) as f64)
        }
        1 => {
            let p = 1i64 << rng.range(1, 20);
            let lo = rng.range(-1000, 1000);
            (lo as f64, (lo + p + rng.range(-1, 1)) as f64)
        }
        2 => {
            let a = rng.range(-100000, 100000) as f64 + rng.range(0, 7) as f64 / 8.0;
            (a, a + rng.range(0, 300000) as f64 + rng.range(0, 7) as f64 / 8.0)
        }
        _ => {
            let lo = rng.range(-50, 50) as f64;
            (lo - 0.5, lo + rng.range(0, 70) as f64 + 0.5)
        }
    };
    Scenario {
        inst: base_instance(rng, target, KIND_INTEGER, Some((l, u))),
        target,
        error: None,
        lower: l,
        upper: u,
    }
}

impl Property for C12 {
    fn id(&self) -> &'static str {
        "C12"
    }
    fn cases(&self, tier: Tier) -> u64 {
        match tier {
            Tier::Quick => widths(tier) * OFFSETS + 100_000,
            Tier::Thorough => widths(tier) * OFFSETS + 15_000_000,
        }
    }
    fn min_nontrivial(&self, tier: Tier) -> u64 {
        match tier {
            Tier::Quick => 20_000,
            Tier::Thorough => 1_000_000,
        }
    }
    fn rule(&self) -> &'static str {
        "cases 0..W*5 enumerate every width 0..W-1 (W=513 quick, 4097 thorough) at 5 offsets/shapes (0, -3, fractional ends around 1000.5, -2^20, fractional centred); the remaining cases draw random ranges with |l|,|u| <= 2^20 (integers, powers of two +-1, fractional ends, the corners [-2^20, 2^20] and widths 2^k+d anchored at them, bounds within 1e-12..1e-6 of an integer on either side, an end exactly one ulp away from an integer with the other end up to 2^19 away) and, every 8th case, one error class (unknown id, also in an instance without any variable, binary / continuous / semi-integer / semi-continuous kind, no bound, upper / lower / both bounds infinite, a NaN bound end, no integer inside). For each success the set of values of the returned Linear over all bit patterns is computed exactly by subset-sum reachability (width <= 2^16) or the complete-sequence criterion and must equal {ceil(l)..floor(u)}; the appended variables are checked; failures must leave the instance equal. The bit loop is observed through hook log_encode.bit with a budget of 1100 steps. Non-trivial = every case with width >= 1; distinct = fingerprint of (lower, upper, variable layout)."
    }
    fn assumptions(&self) -> Vec<&'static str> {
        vec!["variable ids < 2^62 (fresh ids are max+1); bounds are finite f64 with |.| <= 2^20 except in the error classes"]
    }
    fn exhaustive(&self, _tier: Tier) -> bool {
        false
    }

    fn run_case(&self, k: u64, rng: &mut Rng, env: &Env, mon: &mut Monitor) {
        let mut sc = scenario(k, rng, env.tier);
        // one successful scenario in five starts from an instance in which the target has been log-encoded once
        // already (its bit variables are there, tagged with it); half of those then move the bound by an integer,
        // so the second encoding has the same number of bits over another range. The judged call is the second one.
        if sc.error.is_none() && rng.chance(1, 5) {
            let mut i = sc.inst.clone();
            let target = sc.target;
            if matches!(probe(|| i.log_encode(target).map(|_| i)), Ok(Ok(_))) {
                let mut i = sc.inst.clone();
                let _ = i.log_encode(target);
                if rng.bool() {
                    let d = rng.range(-3, 3) as f64;
                    if let Some(v) = i.decision_variables.iter_mut().find(|v| v.id == target) {
                        if let Some(b) = v.bound.as_mut().filter(|b| (b.lower + d).abs() <= 1048576.0 && (b.upper + d).abs() <= 1048576.0) {
                            b.lower += d;
                            b.upper += d;
                            sc.lower = b.lower;
                            sc.upper = b.upper;
                        }
                    }
                }
                sc.inst = i;
                mon.facet("target-already-encoded-once");
            }
        }
        let sc = sc;
        let before = sc.inst.clone();
        let ctx = |after: &v1::Instance, r: &dyn std::fmt::Debug| format!("log_encode({}) with bound [{}, {}]\nresult={r:?}\nvariables before={:?}\nvariables after={:?}", sc.target, sc.lower, sc.upper, before.decision_variables, after.decision_variables);
        ommx::verif::start();
        ommx::verif::set_budget("log_encode.bit", 1100);
        mon.eval();
        let r = probe(|| {
            let mut i = sc.inst.clone();
            let r = i.log_encode(sc.target).map_err(|e| format!("{e:#}"));
            (i, r)
        });
        let events = ommx::verif::drain();
        mon.hook_events += events.len() as u64;
        let (after, res) = match r {
            Err(p) => {
                if let Some(site) = p.budget_site {
                    mon.violation(
                        format!("C12.runaway:{}", sc.error.unwrap_or("valid-range")),
                        format!("log_encode exceeded the step budget at {site} ({}) — the loop does not terminate in a bounded number of steps\nbound=[{}, {}]\nvariables={:?}", p.message, sc.lower, sc.upper, before.decision_variables),
                    );
                } else {
                    mon.violation(format!("C12.panic:{}", panic_site(&p)), format!("log_encode panicked: {} at {}\nbound=[{}, {}] target={}\nvariables={:?}", p.message, p.location, sc.lower, sc.upper, sc.target, before.decision_variables));
                }
                return;
            }
            Ok(x) => x,
        };
        if let Some(class) = sc.error {
            mon.facet(&format!("error-class:{class}"));
            match res {
                Ok(l) => mon.violation(format!("C12.error-accepted:{class}"), ctx(&after, &l)),
                Err(_) => {
                    // compared as encoded bytes: a NaN bound end is not equal to itself under PartialEq
                    if prost::Message::encode_to_vec(&after) != prost::Message::encode_to_vec(&before) {
                        mon.violation(format!("C12.error-modified-instance:{class}"), ctx(&after, &"Err"));
                    }
                }
            }
            return;
        }
        let lo = sc.lower.ceil();
        let hi = sc.upper.floor();
        let width = hi - lo;
        if width >= 1.0 {
            let mut fp = Fp::new();
            fp.f64(sc.lower).f64(sc.upper).u64(sc.target).u64(before.decision_variables.len() as u64);
            mon.nontrivial(fp.finish());
        }
        mon.facet(if width < 0.0 {
            "range:empty"
        } else if width == 0.0 {
            "range:single-integer"
        } else if width <= 65536.0 {
            "range:brute-force"
        } else {
            "range:complete-sequence"
        });
        let lin = match res {
            Err(e) => {
                if width < 0.0 {
                    // compared as encoded bytes: a NaN bound end is not equal to itself under PartialEq
                    if prost::Message::encode_to_vec(&after) != prost::Message::encode_to_vec(&before) {
                        mon.violation("C12.error-modified-instance:no-integer-inside", ctx(&after, &e));
                    }
                } else {
                    mon.violation("C12.rejected-valid-range", ctx(&after, &e));
                }
                return;
            }
            Ok(l) => l,
        };
        if width < 0.0 {
            mon.violation("C12.error-accepted:no-integer-inside", ctx(&after, &lin));
            return;
        }
        if mon.want_sample() && width >= 2.0 {
            mon.sample(json!({"bound": [sc.lower, sc.upper], "encoding": format!("{lin:?}"), "new_variables": after.decision_variables.len() - before.decision_variables.len()}));
        }
        // smallest value of the expression: constant plus the negative coefficients (a bit with a negative
        // weight is as good as its complement with a positive one; the statement fixes the value set only)
        let least = lin.constant + lin.terms.iter().map(|t| t.coefficient).filter(|c| *c < 0.0).sum::<f64>();
        if least != lo {
            mon.violation("C12.constant", format!("smallest value of the expression (constant {} plus the negative coefficients) is {least} but ceil(lower) = {lo}\n{}", lin.constant, ctx(&after, &lin)));
        }
        // new variables = those whose id the instance did not define before (where the SDK puts them in
        // the list is not part of the property); the others must be unchanged
        let old_ids: BTreeSet<u64> = before.decision_variables.iter().map(|v| v.id).collect();
        let new_vars: Vec<&v1::DecisionVariable> = after.decision_variables.iter().filter(|v| !old_ids.contains(&v.id)).collect();
        let kept: Vec<v1::DecisionVariable> = after.decision_variables.iter().filter(|v| old_ids.contains(&v.id)).cloned().collect();
        if !crate::gen::same_variables(&kept, &before.decision_variables) {
            mon.violation("C12.existing-variables-changed", ctx(&after, &lin));
            return;
        }
        if width == 0.0 {
            if !lin.terms.is_empty() || !new_vars.is_empty() {
                mon.violation("C12.single-integer-not-constant", ctx(&after, &lin));
            }
            return;
        }
        // coefficients: non-negative integers
        let mut cs: Vec<u64> = vec![];
        for t in &lin.terms {
            // a non-integer weight makes some bit pattern a non-integer
            if !(t.coefficient == t.coefficient.trunc() && t.coefficient.abs() < 9.0e15) {
                mon.violation("C12.coefficient-not-an-integer", format!("coefficient {} of id {}\n{}", t.coefficient, t.id, ctx(&after, &lin)));
                return;
            }
            cs.push(t.coefficient.abs() as u64);
        }
        let w = width as u64;
        let total: u64 = cs.iter().sum();
        if w <= 65536 {
            let reach = subset_sums(&cs, (w as usize).max(total.min(1 << 20) as usize));
            if let Some(gap) = (0..=w as usize).find(|s| !reach[*s]) {
                mon.violation("C12.value-not-reachable", format!("no bit pattern gives {} (= ceil(l) + {gap})\n{}", lo + gap as f64, ctx(&after, &lin)));
            }
            if total > w {
                mon.violation("C12.overshoot", format!("all bits set gives {} > floor(u) = {hi}\n{}", lo + total as f64, ctx(&after, &lin)));
            }
        } else {
            let mut s = cs.clone();
            s.sort_unstable();
            let mut acc = 0u64;
            for c in s.iter().filter(|c| **c > 0) {
                if *c > acc + 1 {
                    mon.violation("C12.value-not-reachable", format!("sorted coefficients {s:?} leave a gap after {acc}\n{}", ctx(&after, &lin)));
                    break;
                }
                acc += c;
            }
            if total != w {
                mon.violation(if total > w { "C12.overshoot" } else { "C12.value-not-reachable" }, format!("sum of coefficients {total} != floor(u)-ceil(l) = {w}\n{}", ctx(&after, &lin)));
            }
        }
        // new variables
        let term_ids: BTreeSet<u64> = lin.terms.iter().map(|t| t.id).collect();
        let new_ids: BTreeSet<u64> = new_vars.iter().map(|v| v.id).collect();
        let old_ids: BTreeSet<u64> = before.decision_variables.iter().map(|v| v.id).collect();
        if term_ids.len() != lin.terms.len() || new_ids.len() != new_vars.len() || term_ids != new_ids {
            mon.violation("C12.new-variable-ids", format!("ids of the terms {term_ids:?} vs ids of the appended variables {new_ids:?}\n{}", ctx(&after, &lin)));
        }
        if new_ids.iter().any(|i| old_ids.contains(i)) {
            mon.violation("C12.new-variable-id-not-fresh", ctx(&after, &lin));
        }
        for v in &new_vars {
            if v.kind != KIND_BINARY || effective_bound(v) != (0.0, 1.0) {
                mon.violation("C12.new-variable-kind-or-bound", format!("appended variable {v:?}\n{}", ctx(&after, &lin)));
            }
            if v.subscripts.first() != Some(&(sc.target as i64)) {
                mon.violation("C12.new-variable-not-tagged", format!("appended variable {v:?} is not tagged with the encoded variable {}\n{}", sc.target, ctx(&after, &lin)));
            }
        }
        // hook: number of loop steps equals the number of bits
        let bits = events.iter().filter(|e| e.site == "log_encode.bit").count();
        if bits == 0 {
            mon.observe("no-hook-events-seen(hooked-loop-absent?)");
        } else if bits != lin.terms.len() {
            mon.observe("hook-steps-differ-from-number-of-terms");
        }
    }
}
