//! C03 — partial evaluation commutes with evaluation (functions, constraints, instances).

use crate::build::*;
use crate::exact::*;
use crate::gen::*;
use crate::model::*;
use crate::monitor::{fp_msg, fp_state, panic_site, probe, Fp, Monitor};
use crate::props::c05::{add_fixed_and_dependent, add_threshold_constraints};
use crate::rng::Rng;
use crate::{Env, Property, Tier};
use num::{Signed, Zero};
use ommx::{v1, Evaluate};
use serde_json::json;
use std::collections::{BTreeMap, BTreeSet};

pub struct C03;

fn abs_map(x: &BTreeMap<u64, Q>) -> BTreeMap<u64, Q> {
    x.iter().map(|(k, v)| (*k, v.abs())).collect()
}

/// max(1, max|x|)^d
fn amplification(x: &BTreeMap<u64, Q>, d: usize) -> Q {
    let mut m = qi(1);
    for v in x.values() {
        if v.abs() > m {
            m = v.abs();
        }
    }
    let mut r = qi(1);
    for _ in 0..d {
        r *= &m;
    }
    r
}

/// compare canon(after) with canon(before)[fixed] coefficient by coefficient
fn compare_partial(before: &v1::Function, after: &v1::Function, fixed: &BTreeMap<u64, f64>) -> Option<String> {
    let xq = map_q(fixed);
    let expected = canon_function(before).partial(&xq);
    let got = canon_function(after);
    let exact = partial_is_exact(&stored_terms(before), fixed);
    let nterms = stored_terms(before).len();
    let deg = stored_terms(before).iter().map(|t| t.0.len()).max().unwrap_or(0);
    let abs_expected = abs_stored_poly(before).partial(&abs_map(&xq));
    let mut keys: Vec<&Vec<u64>> = expected.terms.keys().chain(got.terms.keys()).collect();
    keys.sort();
    keys.dedup();
    let zero = Q::zero();
    for k in keys {
        let e = expected.terms.get(k).unwrap_or(&zero);
        let g = got.terms.get(k).unwrap_or(&zero);
        let ok = if exact {
            e == g
        } else {
            let a = abs_expected.terms.get(k).cloned().unwrap_or_else(Q::zero);
            // rounding + documented epsilon dropping in ONE partial evaluation: a stored coefficient
            // <= EPSILON may be skipped before it is multiplied by the fixed values (exactly that product is
            // allowed to be missing), and a merged partial sum <= EPSILON may be removed (already multiplied)
            let tiny = tiny_terms_partial(before, &abs_map(&xq)).terms.get(k).cloned().unwrap_or_else(Q::zero);
            let _ = deg;
            let bound = gamma(2 * (nterms + deg) + 8) * a + tiny + Q::from_integer((nterms as u64 + 2).into()) * eps();
            (e - g).abs() <= bound
        };
        if !ok {
            return Some(format!("coefficient of {k:?}: SDK {} ({:e}), exact {} ({:e}), judged {}", g, q_to_f64(g), e, q_to_f64(e), if exact { "exactly" } else { "within bound" }));
        }
    }
    None
}

/// tolerance for evaluating `before` at `all` when the SDK did it in two steps
fn two_step_tol(before: &v1::Function, all: &BTreeMap<u64, f64>) -> Tol {
    if eval_is_exact(&stored_terms(before), all) {
        return Tol::Exact;
    }
    let xq = map_q(all);
    let nterms = stored_terms(before).len();
    let deg = stored_terms(before).iter().map(|t| t.0.len()).max().unwrap_or(0);
    let b = eval_bound(before, &xq) * qi(4) + Q::from_integer((2 * nterms as u64 + 4).into()) * eps() * amplification(&xq, deg);
    Tol::Abs(b)
}

fn split_state(rng: &mut Rng, all: &BTreeMap<u64, f64>) -> (BTreeMap<u64, f64>, BTreeMap<u64, f64>) {
    let mut a = BTreeMap::new();
    let mut b = BTreeMap::new();
    let mode = rng.below(6);
    // sparse mode: only one to three ids go to the first part
    let sparse: BTreeSet<u64> = {
        let keys: Vec<u64> = all.keys().cloned().collect();
        let mut s = BTreeSet::new();
        if !keys.is_empty() {
            for _ in 0..1 + rng.below(3) {
                s.insert(*rng.pick(&keys));
            }
        }
        s
    };
    for (k, v) in all {
        let to_a = match mode {
            0 => true,
            1 => false,
            4 => sparse.contains(k),
            5 => !sparse.contains(k),
            _ => rng.bool(),
        };
        if to_a {
            a.insert(*k, *v);
        } else {
            b.insert(*k, *v);
        }
    }
    (a, b)
}

fn to_state(m: &BTreeMap<u64, f64>) -> v1::State {
    state(m.iter().map(|(k, v)| (*k, *v)))
}

impl C03 {
    fn function_case(&self, rng: &mut Rng, mon: &mut Monitor) {
        let regime = if rng.chance(3, 4) { Regime::D } else { Regime::R };
        let long = rng.chance(1, 30);
        let np = if long { 8 + rng.usize_below(40) } else { 1 + rng.usize_below(5) };
        let pool = id_pool_lookup(rng, np);
        let mut cfg = FnCfg::new(pool.clone(), regime);
        if long {
            cfg.max_terms = 100;
        }
        let f = gen_function(rng, &cfg);
        let vname = variant_name(&f);
        let occ = occurring_ids(&f);
        let mut ids = occ.clone();
        for _ in 0..rng.below(3) {
            ids.insert(rng.below(30) + 200);
        }
        let all = sorted_state(&gen_state_x(rng, &ids, regime));
        let (s1, s2) = split_state(rng, &all);
        let wrap = rng.below(3); // 0 bare function, 1 constraint, 2 removed constraint
        let wname = ["function", "constraint", "removed-constraint"][wrap as usize];
        mon.facet(&format!("{wname}/{vname}/{:?}", regime));
        let nz = nonzero_term_ids(&f);
        if !nz.is_empty() && !s1.is_empty() {
            let mut fp = Fp::new();
            fp.bytes(&prost::Message::encode_to_vec(&f)).u64(fp_state(&to_state(&all))).u64(fp_state(&to_state(&s1))).u64(wrap);
            mon.nontrivial(fp.finish());
        }
        let st1 = to_state(&s1);
        // run partial_evaluate through the chosen wrapper
        let run = |f: &v1::Function, st: &v1::State| -> Result<Result<(v1::Function, BTreeSet<u64>), String>, crate::monitor::PanicInfo> {
            probe(|| match wrap {
                0 => {
                    let mut g = f.clone();
                    g.partial_evaluate(st).map(|u| (g, u)).map_err(|e| format!("{e:#}"))
                }
                1 => {
                    let mut c = constraint(7, LE_ZERO, Some(f.clone()));
                    c.partial_evaluate(st).map(|u| (c.function.clone().unwrap_or_default(), u)).map_err(|e| format!("{e:#}"))
                }
                _ => {
                    let mut r = removed(constraint(7, EQ_ZERO, Some(f.clone())), "why", Default::default());
                    r.partial_evaluate(st).map(|u| (r.constraint.as_ref().unwrap().function.clone().unwrap_or_default(), u)).map_err(|e| format!("{e:#}"))
                }
            })
        };
        mon.eval();
        let ctx = || format!("wrapper={wname} function={f:?}\nfixed={s1:?}\nremaining={s2:?}");
        let (g, used) = match run(&f, &st1) {
            Err(p) => {
                mon.violation(format!("C03.panic:{}", panic_site(&p)), format!("partial_evaluate panicked: {} at {}\n{}", p.message, p.location, ctx()));
                return;
            }
            Ok(Err(e)) => {
                mon.violation(format!("C03.partial-error:{vname}"), format!("partial_evaluate failed: {e}\n{}", ctx()));
                return;
            }
            Ok(Ok(x)) => x,
        };
        if mon.want_sample() && !nz.is_empty() && !s1.is_empty() {
            mon.sample(json!({"wrapper": wname, "function": format!("{f:?}"), "fixed": format!("{s1:?}"), "after": format!("{g:?}"), "returned_ids": format!("{used:?}")}));
        }
        // (1) coefficients
        if let Some(d) = compare_partial(&f, &g, &s1) {
            mon.violation(format!("C03.partial-coefficients:{vname}"), format!("{d}\nafter={g:?}\n{}", ctx()));
        }
        // (2) no fixed id remains
        let left: Vec<u64> = occurring_ids(&g).into_iter().filter(|i| s1.contains_key(i)).collect();
        if !left.is_empty() {
            mon.violation(format!("C03.fixed-id-remains:{vname}"), format!("fixed ids {left:?} still occur after partial_evaluate\nafter={g:?}\n{}", ctx()));
        }
        // (3) returned ids
        let upper: BTreeSet<u64> = occ.iter().cloned().filter(|i| s1.contains_key(i)).collect();
        let lower: BTreeSet<u64> = stored_terms(&f)
            .iter()
            .filter(|(_, c)| c.abs() > f64::EPSILON)
            .flat_map(|(ids, _)| ids.iter().cloned())
            .filter(|i| s1.contains_key(i))
            .collect();
        if !used.is_subset(&upper) || !lower.is_subset(&used) {
            mon.violation(format!("C03.returned-ids:{vname}"), format!("returned ids {used:?}; must contain {lower:?} and be contained in {upper:?}\n{}", ctx()));
        }
        // (4) evaluate the remainder
        let st2 = to_state(&s2);
        mon.eval();
        match probe(|| g.evaluate(&st2).map_err(|e| format!("{e:#}"))) {
            Err(p) => mon.violation(format!("C03.panic:{}", panic_site(&p)), format!("evaluate after partial_evaluate panicked: {}\n{}", p.message, ctx())),
            Ok(Err(e)) => mon.violation(format!("C03.remainder-error:{vname}"), format!("evaluating the remainder failed: {e}\nafter={g:?}\n{}", ctx())),
            Ok(Ok((v, _))) => {
                let exact = canon_function(&f).eval(&map_q(&all)).expect("complete");
                let tol = two_step_tol(&f, &all);
                if !within(v, &exact, &tol) {
                    mon.violation(format!("C03.commute-value:{vname}"), format!("partial_evaluate then evaluate gave {v:e}; evaluating the original at the combined assignment is {} ({:e})\nafter={g:?}\n{}", exact, q_to_f64(&exact), ctx()));
                }
            }
        }
        // (5) two steps vs one step (split the fixed part again)
        if s1.len() >= 2 {
            let (a, b) = split_state(rng, &s1);
            let order = rng.bool();
            let (first, second) = if order { (&a, &b) } else { (&b, &a) };
            mon.eval();
            mon.facet("two-step-history");
            let r = run(&f, &to_state(first)).and_then(|r1| match r1 {
                Ok((g1, _)) => run(&g1, &to_state(second)),
                Err(e) => Ok(Err(e)),
            });
            match r {
                Err(p) => mon.violation(format!("C03.panic:{}", panic_site(&p)), format!("two-step partial_evaluate panicked: {}\n{}", p.message, ctx())),
                Ok(Err(e)) => mon.violation(format!("C03.partial-error:{vname}"), format!("two-step partial_evaluate failed: {e}\n{}", ctx())),
                Ok(Ok((g2, _))) => {
                    // both must equal the exact partial polynomial; compare g2 against f fixed at s1
                    if let Some(d) = compare_partial_two_step(&f, &g2, &s1) {
                        mon.violation(format!("C03.two-step:{vname}"), format!("fixing {first:?} then {second:?} differs from fixing at once: {d}\nafter two steps={g2:?}\nafter one step={g:?}\n{}", ctx()));
                    }
                }
            }
        }
    }

    fn instance_case(&self, rng: &mut Rng, mon: &mut Monitor, self_tier_thorough: bool, case_k: u64) {
        let regime = if rng.chance(3, 4) { Regime::D } else { Regime::R };
        let mut cfg = InstCfg::new(regime);
        cfg.deepen(self_tier_thorough, case_k);
        let g = gen_instance(rng, &cfg);
        let mut inst = g.instance;
        add_threshold_constraints(rng, &mut inst, &g.pool);
        // one case in six: an instance out of a pipeline of the SDK's own transformations
        if rng.chance(1, 6) {
            let (i2, steps) = pipeline_instance(rng, inst);
            inst = i2;
            if !steps.is_empty() {
                mon.facet("instance-out-of-an-SDK-pipeline");
            }
        }
        // one case in six: a genuine one-hot group — binaries b_1..b_k, the constraint sum b_i - 1 = 0 and the
        // matching entry in constraint_hints (and generic hints on some of the others); hints are advice to
        // solvers, the states below satisfy the group or not as they come
        if rng.chance(1, 6) {
            let mut bins: Vec<u64> = inst.decision_variables.iter().filter(|v| v.kind == KIND_BINARY).map(|v| v.id).collect();
            let mut next = inst.decision_variables.iter().map(|v| v.id).max().map_or(0, |m| m.wrapping_add(1));
            while bins.len() < 3 && next < u64::MAX - 8 {
                inst.decision_variables.push(dvar(next, KIND_BINARY, if rng.bool() { Some((0.0, 1.0)) } else { None }));
                bins.push(next);
                next += 1;
            }
            let k = 2 + rng.usize_below(bins.len().min(4) - 1);
            rng.shuffle(&mut bins);
            let members: Vec<u64> = bins.iter().take(k).copied().collect();
            let cid = inst.constraints.iter().map(|c| c.id).chain(inst.removed_constraints.iter().filter_map(|r| r.constraint.as_ref().map(|c| c.id))).max().map_or(0, |m| m.wrapping_add(1));
            inst.constraints.push(constraint(cid, EQ_ZERO, Some(f_linear(linear(members.iter().map(|i| (*i, 1.0)).collect(), -1.0)))));
            let mut h = inst.constraint_hints.take().unwrap_or_default();
            let mut o = v1::OneHot::default();
            o.constraint_id = cid;
            o.decision_variables = members;
            h.one_hot_constraints.push(o);
            inst.constraint_hints = Some(h);
            mon.facet("instance-with-a-one-hot-group-and-hint");
        } else if rng.chance(1, 6) {
            inst.constraint_hints = gen_hints(rng, &inst);
        }
        let hidden = add_fixed_and_dependent(rng, &mut inst, regime);
        let give: BTreeSet<u64> = inst.decision_variables.iter().map(|v| v.id).filter(|i| !hidden.contains(i)).collect();
        let all = sorted_state(&gen_state_in_bounds(rng, &inst, Some(&give), regime));
        let (s1, s2) = split_state(rng, &all);
        mon.facet(&format!("instance/{regime:?}"));
        let nontrivial = !s1.is_empty() && (!inst.constraints.is_empty() || canon_opt_function(&inst.objective).degree() > 0);
        if nontrivial {
            let mut fp = Fp::new();
            fp.u64(fp_msg(&inst)).u64(fp_state(&to_state(&all))).u64(fp_state(&to_state(&s1)));
            mon.nontrivial(fp.finish());
        }
        let ctx = || format!("instance={inst:?}\nfixed={s1:?}\nremaining={s2:?}");
        let st1 = to_state(&s1);
        mon.eval();
        let r = probe(|| {
            let mut i2 = inst.clone();
            i2.partial_evaluate(&st1).map(|u| (i2, u)).map_err(|e| format!("{e:#}"))
        });
        let (inst2, used) = match r {
            Err(p) => {
                mon.violation(format!("C03.panic:{}", panic_site(&p)), format!("Instance::partial_evaluate panicked: {} at {}\n{}", p.message, p.location, ctx()));
                return;
            }
            Ok(Err(e)) => {
                mon.violation("C03.partial-error:instance", format!("Instance::partial_evaluate failed: {e}\n{}", ctx()));
                return;
            }
            Ok(Ok(x)) => x,
        };
        // fixed values recorded
        for v in &inst2.decision_variables {
            if let Some(val) = s1.get(&v.id) {
                if v.substituted_value != Some(*val) {
                    mon.violation("C03.instance-fixed-value-not-recorded", format!("variable {} fixed to {val:e} but substituted_value={:?}\n{}", v.id, v.substituted_value, ctx()));
                }
            }
        }
        // every function: coefficients, no fixed id left
        let mut pairs: Vec<(String, v1::Function, v1::Function)> = vec![];
        pairs.push(("objective".into(), opt_fn(&inst.objective), opt_fn(&inst2.objective)));
        // constraints are paired by id (the order of the lists is not part of the property)
        match (pair_by_id(&inst.constraints, &inst2.constraints), pair_removed_by_id(&inst.removed_constraints, &inst2.removed_constraints)) {
            (Some(act), Some(rem)) => {
                for (a, b) in act {
                    pairs.push((format!("constraint"), opt_fn(&a.function), opt_fn(&b.function)));
                }
                for (a, b) in rem {
                    pairs.push((format!("removed-constraint"), opt_fn(&a.constraint.as_ref().unwrap().function), opt_fn(&b.constraint.as_ref().unwrap().function)));
                }
            }
            _ => mon.violation("C03.instance-constraint-set-changed", format!("partial_evaluate changed the set of (removed) constraint ids\nresult={inst2:?}\n{}", ctx())),
        }
        for (k, fa) in &inst.decision_variable_dependency {
            if let Some(fb) = inst2.decision_variable_dependency.get(k) {
                pairs.push(("dependency".into(), fa.clone(), fb.clone()));
            } else {
                mon.violation("C03.instance-dependency-lost", format!("dependency of variable {k} disappeared\n{}", ctx()));
            }
        }
        let mut upper = BTreeSet::new();
        for (what, fa, fb) in &pairs {
            if let Some(d) = compare_partial(fa, fb, &s1) {
                mon.violation(format!("C03.instance-coefficients:{what}"), format!("{what}: {d}\nbefore={fa:?}\nafter={fb:?}\n{}", ctx()));
            }
            let left: Vec<u64> = occurring_ids(fb).into_iter().filter(|i| s1.contains_key(i)).collect();
            if !left.is_empty() {
                mon.violation(format!("C03.instance-fixed-id-remains:{what}"), format!("{what} still mentions fixed ids {left:?}\nafter={fb:?}\n{}", ctx()));
            }
            upper.extend(occurring_ids(fa).into_iter().filter(|i| s1.contains_key(i)));
        }
        if !used.is_subset(&upper) {
            mon.violation("C03.returned-ids:instance", format!("returned ids {used:?} are not all fixed variables that occurred ({upper:?})\n{}", ctx()));
        }
        if inst2.constraints.len() != inst.constraints.len() || inst2.removed_constraints.len() != inst.removed_constraints.len() {
            mon.violation("C03.instance-constraints-changed", format!("number of constraints changed\n{}", ctx()));
        }
        // Solutions: original at the combined assignment vs partially evaluated at the remainder
        let st_all = to_state(&all);
        let st2 = to_state(&s2);
        mon.evals(2);
        let ra = probe(|| inst.evaluate(&st_all).map_err(|e| format!("{e:#}")));
        let rb = probe(|| inst2.evaluate(&st2).map_err(|e| format!("{e:#}")));
        let reference = ref_solution(&inst, &all);
        match (ra, rb, reference) {
            (Err(p), _, _) | (_, Err(p), _) => mon.violation(format!("C03.panic:{}", panic_site(&p)), format!("evaluate panicked: {}\n{}", p.message, ctx())),
            (Ok(Ok((sa, _))), Ok(Ok((sb, _))), Ok(mut rf)) => {
                // widen every tolerance for the two-step computation
                let fs: BTreeMap<u64, v1::Function> = inst
                    .constraints
                    .iter()
                    .map(|c| (c.id, opt_fn(&c.function)))
                    .chain(inst.removed_constraints.iter().map(|r| {
                        let c = r.constraint.as_ref().unwrap();
                        (c.id, opt_fn(&c.function))
                    }))
                    .collect();
                let after_ids: BTreeMap<u64, BTreeSet<u64>> = inst2
                    .constraints
                    .iter()
                    .map(|c| (c.id, occurring_ids(&opt_fn(&c.function))))
                    .chain(inst2.removed_constraints.iter().map(|r| {
                        let c = r.constraint.as_ref().unwrap();
                        (c.id, occurring_ids(&opt_fn(&c.function)))
                    }))
                    .collect();
                for c in rf.constraints.iter_mut() {
                    // the used-id list of the second solution refers to the partially evaluated functions
                    if let Some(u) = after_ids.get(&c.id) {
                        c.used_ids = u.clone();
                    }
                    match two_step_tol(&fs[&c.id], &all) {
                        Tol::Exact => {
                            c.tol_exact = true;
                        }
                        Tol::Abs(b) => {
                            c.tol_exact = false;
                            c.bound = b;
                        }
                    }
                }
                rf.objective.tol = two_step_tol(&opt_fn(&inst.objective), &all);
                // the reported state of the partially evaluated instance: fixed values are "fixed", same bits
                for (tail, detail) in compare_solution(&sb, &rf, &inst2) {
                    // 'given' vs 'fixed' label is irrelevant here
                    mon.violation(format!("C03.instance-solution:{}", tail.replace("state-value:given", "state-value:fixed")), format!("solution of the partially evaluated instance: {detail}\n{}\nsolution={sb:?}", ctx()));
                }
                // direct agreement of the two SDK solutions on the flags, unless a value is within rounding of the threshold
                let near = rf.constraints.iter().any(near_threshold);
                if !near && (sa.feasible != sb.feasible || sa.feasible_relaxed != sb.feasible_relaxed) {
                    mon.violation("C03.instance-flags-differ", format!("flags differ: original ({}, {:?}) vs partially evaluated ({}, {:?})\n{}", sa.feasible, sa.feasible_relaxed, sb.feasible, sb.feasible_relaxed, ctx()));
                }
                let ma: BTreeMap<u64, f64> = sa.state.as_ref().map(sorted_state).unwrap_or_default();
                let mb: BTreeMap<u64, f64> = sb.state.as_ref().map(sorted_state).unwrap_or_default();
                if ma.keys().collect::<Vec<_>>() != mb.keys().collect::<Vec<_>>() {
                    mon.violation("C03.instance-state-keys-differ", format!("reported states have different variables: {:?} vs {:?}\n{}", ma.keys(), mb.keys(), ctx()));
                }
            }
            (Ok(a), Ok(b), rf) => {
                // both must be rejected consistently (in-bound complete states: should not happen)
                let ea = a.is_err();
                let eb = b.is_err();
                if ea != eb || rf.is_ok() {
                    mon.violation("C03.instance-evaluate-error", format!("evaluate: original {:?}, partially evaluated {:?}, reference accepts={}\n{}", a.err(), b.err(), rf.is_ok(), ctx()));
                } else {
                    mon.facet("both-rejected");
                }
            }
        }
        // history: fix in two steps, compare canonical functions with one step
        if s1.len() >= 2 {
            let (a, b) = split_state(rng, &s1);
            mon.facet("two-step-history");
            mon.eval();
            let r = probe(|| {
                let mut i3 = inst.clone();
                i3.partial_evaluate(&to_state(&a)).and_then(|_| i3.partial_evaluate(&to_state(&b))).map(|_| i3).map_err(|e| format!("{e:#}"))
            });
            match r {
                Err(p) => mon.violation(format!("C03.panic:{}", panic_site(&p)), format!("two-step Instance::partial_evaluate panicked: {}\n{}", p.message, ctx())),
                Ok(Err(e)) => mon.violation("C03.partial-error:instance", format!("two-step partial_evaluate failed: {e}\n{}", ctx())),
                Ok(Ok(i3)) => {
                    if let Some(d) = compare_partial_two_step(&opt_fn(&inst.objective), &opt_fn(&i3.objective), &s1) {
                        mon.violation("C03.two-step:instance-objective", format!("{d}\n{}", ctx()));
                    }
                    for (ca, cb) in pair_by_id(&inst.constraints, &i3.constraints).unwrap_or_default() {
                        if let Some(d) = compare_partial_two_step(&opt_fn(&ca.function), &opt_fn(&cb.function), &s1) {
                            mon.violation("C03.two-step:instance-constraint", format!("constraint {}: {d}\n{}", ca.id, ctx()));
                        }
                    }
                    for v in &i3.decision_variables {
                        if let Some(val) = s1.get(&v.id) {
                            if v.substituted_value != Some(*val) {
                                mon.violation("C03.instance-fixed-value-not-recorded", format!("two-step: variable {} fixed to {val:e} but substituted_value={:?}\n{}", v.id, v.substituted_value, ctx()));
                            }
                        }
                    }
                }
            }
        }
    }
}

/// like compare_partial but with doubled allowances (two rounds of rounding / dropping)
fn compare_partial_two_step(before: &v1::Function, after: &v1::Function, fixed: &BTreeMap<u64, f64>) -> Option<String> {
    let xq = map_q(fixed);
    let expected = canon_function(before).partial(&xq);
    let got = canon_function(after);
    let exact = partial_is_exact(&stored_terms(before), fixed);
    let nterms = stored_terms(before).len();
    let deg = stored_terms(before).iter().map(|t| t.0.len()).max().unwrap_or(0);
    let abs_expected = abs_stored_poly(before).partial(&abs_map(&xq));
    let mut keys: Vec<&Vec<u64>> = expected.terms.keys().chain(got.terms.keys()).collect();
    keys.sort();
    keys.dedup();
    let zero = Q::zero();
    for k in keys {
        let e = expected.terms.get(k).unwrap_or(&zero);
        let g = got.terms.get(k).unwrap_or(&zero);
        let ok = if exact {
            e == g
        } else {
            let a = abs_expected.terms.get(k).cloned().unwrap_or_else(Q::zero);
            let bound = gamma(4 * (nterms + deg) + 16) * a + Q::from_integer((2 * nterms as u64 + 4).into()) * eps() * amplification(&xq, deg);
            (e - g).abs() <= bound
        };
        if !ok {
            return Some(format!("coefficient of {k:?}: SDK {} ({:e}), exact {} ({:e})", g, q_to_f64(g), e, q_to_f64(e)));
        }
    }
    None
}

impl Property for C03 {
    fn id(&self) -> &'static str {
        "C03"
    }
    fn cases(&self, tier: Tier) -> u64 {
        match tier {
            Tier::Quick => 120_000,
            Tier::Thorough => 7_200_000,
        }
    }
    fn min_nontrivial(&self, tier: Tier) -> u64 {
        match tier {
            Tier::Quick => 20_000,
            Tier::Thorough => 1_200_000,
        }
    }
    fn rule(&self) -> &'static str {
        "two of three cases are function level (a hostile function message, bare or wrapped in a Constraint / RemovedConstraint; a state over its ids + extras split at random into a fixed and a remaining part: all/none/random); one of three is instance level (generated valid instance with removed constraints, dependency functions, fixed and unused variables, one in six first passed through a random pipeline of SDK transformations; in-bound state split the same way). Observed: the message after partial_evaluate, the returned id set, evaluate of the remainder, and the same fixing applied in two steps in either order. Non-trivial = non-empty fixed part and a function with a non-zero variable term; distinct = fingerprint of (message, full state, fixed part, wrapper)."
    }
    fn assumptions(&self) -> Vec<&'static str> {
        vec![
            "fixed variables are never dependent or already-fixed variables; states are in bounds",
            "bit-exact where the dyadic certificate covers every product/sum of the original function at the combined assignment; otherwise gamma-bound plus the documented epsilon-drop allowance m*EPS*max(1,|x|)^degree",
        ]
    }
    fn run_case(&self, k: u64, rng: &mut Rng, env: &Env, mon: &mut Monitor) {
        if k % 3 == 2 {
            self.instance_case(rng, mon, env.tier == Tier::Thorough, k / 3)
        } else {
            self.function_case(rng, mon)
        }
    }
}
