//! Independent proto3 implementation (shares no code with prost): schema model, `.proto`
//! parser, `FileDescriptorProto` decoder, generic value tree, schema-driven hostile encoder,
//! schema-driven decoder, proto3 normaliser and tree diff. Used by C07.

#![allow(dead_code)]

use crate::rng::Rng;
use std::collections::{BTreeMap, BTreeSet};
use std::path::Path;

// ---------------------------------------------------------------------------------------------
// schema model

#[derive(Clone, Debug, PartialEq, Eq, PartialOrd, Ord)]
pub enum Ty {
    Double,
    Float,
    Int32,
    Int64,
    Uint32,
    Uint64,
    Sint32,
    Sint64,
    Fixed32,
    Fixed64,
    Sfixed32,
    Sfixed64,
    Bool,
    String,
    Bytes,
    Message(String),
    Enum(String),
}

impl Ty {
    pub fn scalar_from_name(s: &str) -> Option<Ty> {
        Some(match s {
            "double" => Ty::Double,
            "float" => Ty::Float,
            "int32" => Ty::Int32,
            "int64" => Ty::Int64,
            "uint32" => Ty::Uint32,
            "uint64" => Ty::Uint64,
            "sint32" => Ty::Sint32,
            "sint64" => Ty::Sint64,
            "fixed32" => Ty::Fixed32,
            "fixed64" => Ty::Fixed64,
            "sfixed32" => Ty::Sfixed32,
            "sfixed64" => Ty::Sfixed64,
            "bool" => Ty::Bool,
            "string" => Ty::String,
            "bytes" => Ty::Bytes,
            _ => return None,
        })
    }
    /// wire type of one (unpacked) element
    pub fn wire_type(&self) -> u8 {
        match self {
            Ty::Double | Ty::Fixed64 | Ty::Sfixed64 => 1,
            Ty::Float | Ty::Fixed32 | Ty::Sfixed32 => 5,
            Ty::String | Ty::Bytes | Ty::Message(_) => 2,
            _ => 0,
        }
    }
    pub fn packable(&self) -> bool {
        !matches!(self, Ty::String | Ty::Bytes | Ty::Message(_))
    }
    pub fn is_message(&self) -> bool {
        matches!(self, Ty::Message(_))
    }
}

#[derive(Clone, Debug, PartialEq, Eq)]
pub enum Label {
    Singular,
    /// explicit presence (`optional`, proto3_optional in descriptors)
    Optional,
    Repeated,
    /// map<key, FieldDef.ty>
    Map(Ty),
    /// member of the named (real) oneof
    Oneof(String),
}

#[derive(Clone, Debug, PartialEq, Eq)]
pub struct FieldDef {
    pub name: String,
    pub number: u32,
    pub ty: Ty,
    pub label: Label,
    pub deprecated: bool,
}

#[derive(Clone, Debug, PartialEq, Eq)]
pub struct MessageDef {
    pub full_name: String,
    pub file: String,
    pub fields: Vec<FieldDef>,
}

impl MessageDef {
    pub fn field(&self, number: u32) -> Option<&FieldDef> {
        self.fields.iter().find(|f| f.number == number)
    }
    pub fn oneofs(&self) -> Vec<String> {
        let mut v: Vec<String> = vec![];
        for f in &self.fields {
            if let Label::Oneof(o) = &f.label {
                if !v.contains(o) {
                    v.push(o.clone());
                }
            }
        }
        v
    }
}

#[derive(Clone, Debug, PartialEq, Eq)]
pub struct EnumDef {
    pub full_name: String,
    pub file: String,
    pub values: Vec<(String, i32)>,
}

#[derive(Clone, Debug, PartialEq, Eq, Default)]
pub struct FileDef {
    pub name: String,
    pub package: String,
    pub syntax: String,
    pub deps: Vec<String>,
}

#[derive(Clone, Debug, Default)]
pub struct Schema {
    pub files: BTreeMap<String, FileDef>,
    pub messages: BTreeMap<String, MessageDef>,
    pub enums: BTreeMap<String, EnumDef>,
    /// type references still to be resolved: (message, field index, scope, raw name)
    pending: Vec<(String, usize, String, String)>,
}

// ---------------------------------------------------------------------------------------------
// .proto parser

#[derive(Clone, Debug, PartialEq)]
enum Tok {
    Ident(String),
    Int(i64),
    Str(String),
    Sym(char),
}

fn tokenize(text: &str) -> Result<Vec<Tok>, String> {
    let c: Vec<char> = text.chars().collect();
    let mut i = 0;
    let mut out = vec![];
    while i < c.len() {
        let ch = c[i];
        if ch.is_whitespace() {
            i += 1;
        } else if ch == '/' && i + 1 < c.len() && c[i + 1] == '/' {
            while i < c.len() && c[i] != '\n' {
                i += 1;
            }
        } else if ch == '/' && i + 1 < c.len() && c[i + 1] == '*' {
            i += 2;
            while i + 1 < c.len() && !(c[i] == '*' && c[i + 1] == '/') {
                i += 1;
            }
            if i + 1 >= c.len() {
                return Err("unterminated block comment".into());
            }
            i += 2;
        } else if ch == '"' || ch == '\'' {
            let q = ch;
            i += 1;
            let mut s = String::new();
            while i < c.len() && c[i] != q {
                if c[i] == '\\' && i + 1 < c.len() {
                    i += 1;
                }
                s.push(c[i]);
                i += 1;
            }
            if i >= c.len() {
                return Err("unterminated string".into());
            }
            i += 1;
            out.push(Tok::Str(s));
        } else if ch.is_ascii_alphabetic() || ch == '_' || (ch == '.' && i + 1 < c.len() && (c[i + 1].is_ascii_alphabetic() || c[i + 1] == '_')) {
            let mut s = String::new();
            while i < c.len() && (c[i].is_ascii_alphanumeric() || c[i] == '_' || c[i] == '.') {
                s.push(c[i]);
                i += 1;
            }
            out.push(Tok::Ident(s));
        } else if ch.is_ascii_digit() || (ch == '-' && i + 1 < c.len() && c[i + 1].is_ascii_digit()) {
            let mut s = String::new();
            s.push(ch);
            i += 1;
            while i < c.len() && (c[i].is_ascii_alphanumeric()) {
                s.push(c[i]);
                i += 1;
            }
            let v = if let Some(h) = s.strip_prefix("0x").or_else(|| s.strip_prefix("0X")) {
                i64::from_str_radix(h, 16)
            } else if s.len() > 1 && s.starts_with('0') {
                i64::from_str_radix(&s[1..], 8)
            } else {
                s.parse::<i64>()
            };
            out.push(Tok::Int(v.map_err(|e| format!("bad integer {s}: {e}"))?));
        } else if "{}=;<>,[]()".contains(ch) {
            out.push(Tok::Sym(ch));
            i += 1;
        } else {
            return Err(format!("unexpected character {ch:?}"));
        }
    }
    Ok(out)
}

struct Parser<'a> {
    t: Vec<Tok>,
    p: usize,
    file: &'a str,
    package: String,
}

impl<'a> Parser<'a> {
    fn peek(&self) -> Option<&Tok> {
        self.t.get(self.p)
    }
    fn next(&mut self) -> Result<Tok, String> {
        let t = self.t.get(self.p).cloned().ok_or_else(|| format!("{}: unexpected end of file", self.file))?;
        self.p += 1;
        Ok(t)
    }
    fn sym(&mut self, c: char) -> Result<(), String> {
        match self.next()? {
            Tok::Sym(x) if x == c => Ok(()),
            t => Err(format!("{}: expected {c:?}, found {t:?} (token {})", self.file, self.p)),
        }
    }
    fn ident(&mut self) -> Result<String, String> {
        match self.next()? {
            Tok::Ident(s) => Ok(s),
            t => Err(format!("{}: expected identifier, found {t:?}", self.file)),
        }
    }
    fn int(&mut self) -> Result<i64, String> {
        match self.next()? {
            Tok::Int(v) => Ok(v),
            t => Err(format!("{}: expected integer, found {t:?}", self.file)),
        }
    }
    fn is_sym(&self, c: char) -> bool {
        matches!(self.peek(), Some(Tok::Sym(x)) if *x == c)
    }
    fn skip_statement(&mut self) -> Result<(), String> {
        // `option ...;` / `reserved ...;`
        loop {
            if let Tok::Sym(';') = self.next()? {
                return Ok(());
            }
        }
    }
    /// `[ name = value, ... ]` → true when it contains deprecated = true
    fn field_options(&mut self) -> Result<bool, String> {
        let mut deprecated = false;
        if self.is_sym('[') {
            self.sym('[')?;
            loop {
                // option name, possibly parenthesised
                let mut name = String::new();
                while !self.is_sym('=') {
                    match self.next()? {
                        Tok::Ident(s) => name.push_str(&s),
                        Tok::Sym(c) if c == '(' || c == ')' => name.push(c),
                        t => return Err(format!("{}: bad option name token {t:?}", self.file)),
                    }
                }
                self.sym('=')?;
                let v = self.next()?;
                if name == "deprecated" && v == Tok::Ident("true".into()) {
                    deprecated = true;
                }
                if self.is_sym(',') {
                    self.sym(',')?;
                    continue;
                }
                self.sym(']')?;
                break;
            }
        }
        Ok(deprecated)
    }

    fn parse_file(&mut self, schema: &mut Schema) -> Result<(), String> {
        let mut fd = FileDef {
            name: self.file.to_string(),
            syntax: "proto2".into(),
            ..Default::default()
        };
        while self.peek().is_some() {
            if self.is_sym(';') {
                self.p += 1;
                continue;
            }
            let kw = self.ident()?;
            match kw.as_str() {
                "syntax" => {
                    self.sym('=')?;
                    match self.next()? {
                        Tok::Str(s) => fd.syntax = s,
                        t => return Err(format!("{}: bad syntax statement {t:?}", self.file)),
                    }
                    self.sym(';')?;
                }
                "package" => {
                    fd.package = self.ident()?;
                    self.package = fd.package.clone();
                    self.sym(';')?;
                }
                "import" => {
                    if let Some(Tok::Ident(_)) = self.peek() {
                        self.p += 1; // public / weak
                    }
                    match self.next()? {
                        Tok::Str(s) => fd.deps.push(s),
                        t => return Err(format!("{}: bad import {t:?}", self.file)),
                    }
                    self.sym(';')?;
                }
                "option" => self.skip_statement()?,
                "message" => {
                    let scope = self.package.clone();
                    self.parse_message(schema, &scope)?;
                }
                "enum" => {
                    let scope = self.package.clone();
                    self.parse_enum(schema, &scope)?;
                }
                other => return Err(format!("{}: unsupported top-level construct `{other}`", self.file)),
            }
        }
        schema.files.insert(fd.name.clone(), fd);
        Ok(())
    }

    fn parse_enum(&mut self, schema: &mut Schema, scope: &str) -> Result<(), String> {
        let name = self.ident()?;
        let full = join(scope, &name);
        self.sym('{')?;
        let mut values = vec![];
        while !self.is_sym('}') {
            if self.is_sym(';') {
                self.p += 1;
                continue;
            }
            let id = self.ident()?;
            if id == "option" || id == "reserved" {
                self.skip_statement()?;
                continue;
            }
            self.sym('=')?;
            let n = self.int()?;
            self.field_options()?;
            self.sym(';')?;
            values.push((id, n as i32));
        }
        self.sym('}')?;
        if schema.enums.contains_key(&full) || schema.messages.contains_key(&full) {
            return Err(format!("{}: duplicate definition of {full}", self.file));
        }
        schema.enums.insert(full.clone(), EnumDef { full_name: full, file: self.file.to_string(), values });
        Ok(())
    }

    fn parse_field(&mut self, first: String, oneof: Option<&str>, scope: &str, msg: &mut MessageDef, schema: &mut Schema) -> Result<(), String> {
        let mut label = match oneof {
            Some(o) => Label::Oneof(o.to_string()),
            None => Label::Singular,
        };
        let mut tyname = first;
        if oneof.is_none() {
            match tyname.as_str() {
                "optional" => {
                    label = Label::Optional;
                    tyname = self.ident()?;
                }
                "repeated" => {
                    label = Label::Repeated;
                    tyname = self.ident()?;
                }
                "required" => return Err(format!("{}: `required` is not proto3", self.file)),
                _ => {}
            }
        }
        let mut raw_ref: Option<String> = None;
        let ty;
        if tyname == "map" && self.is_sym('<') {
            if label != Label::Singular {
                return Err(format!("{}: map field with a label", self.file));
            }
            self.sym('<')?;
            let k = self.ident()?;
            self.sym(',')?;
            let v = self.ident()?;
            self.sym('>')?;
            let kt = Ty::scalar_from_name(&k).ok_or_else(|| format!("{}: bad map key type {k}", self.file))?;
            if matches!(kt, Ty::Double | Ty::Float | Ty::Bytes) {
                return Err(format!("{}: illegal map key type {k}", self.file));
            }
            label = Label::Map(kt);
            ty = match Ty::scalar_from_name(&v) {
                Some(t) => t,
                None => {
                    raw_ref = Some(v.clone());
                    Ty::Message(v)
                }
            };
        } else {
            ty = match Ty::scalar_from_name(&tyname) {
                Some(t) => t,
                None => {
                    raw_ref = Some(tyname.clone());
                    Ty::Message(tyname)
                }
            };
        }
        let name = self.ident()?;
        self.sym('=')?;
        let number = self.int()?;
        if number <= 0 || number > 536_870_911 {
            return Err(format!("{}: field number {number} out of range", self.file));
        }
        let deprecated = self.field_options()?;
        self.sym(';')?;
        if msg.fields.iter().any(|f| f.number == number as u32 || f.name == name) {
            return Err(format!("{}: duplicate field {name}={number} in {}", self.file, msg.full_name));
        }
        if let Some(r) = raw_ref {
            schema.pending.push((msg.full_name.clone(), msg.fields.len(), scope.to_string(), r));
        }
        msg.fields.push(FieldDef { name, number: number as u32, ty, label, deprecated });
        Ok(())
    }

    fn parse_message(&mut self, schema: &mut Schema, scope: &str) -> Result<(), String> {
        let name = self.ident()?;
        let full = join(scope, &name);
        let mut msg = MessageDef { full_name: full.clone(), file: self.file.to_string(), fields: vec![] };
        self.sym('{')?;
        while !self.is_sym('}') {
            if self.is_sym(';') {
                self.p += 1;
                continue;
            }
            let kw = self.ident()?;
            match kw.as_str() {
                "message" => self.parse_message(schema, &full)?,
                "enum" => self.parse_enum(schema, &full)?,
                "option" | "reserved" | "extensions" => self.skip_statement()?,
                "oneof" => {
                    let oname = self.ident()?;
                    self.sym('{')?;
                    while !self.is_sym('}') {
                        if self.is_sym(';') {
                            self.p += 1;
                            continue;
                        }
                        let first = self.ident()?;
                        if first == "option" {
                            self.skip_statement()?;
                            continue;
                        }
                        self.parse_field(first, Some(&oname), &full, &mut msg, schema)?;
                    }
                    self.sym('}')?;
                }
                _ => self.parse_field(kw, None, &full, &mut msg, schema)?,
            }
        }
        self.sym('}')?;
        if schema.enums.contains_key(&full) || schema.messages.contains_key(&full) {
            return Err(format!("{}: duplicate definition of {full}", self.file));
        }
        schema.messages.insert(full, msg);
        Ok(())
    }
}

fn join(scope: &str, name: &str) -> String {
    if scope.is_empty() {
        name.to_string()
    } else {
        format!("{scope}.{name}")
    }
}

impl Schema {
    pub fn add_proto_file(&mut self, file_name: &str, text: &str) -> Result<(), String> {
        let t = tokenize(text).map_err(|e| format!("{file_name}: {e}"))?;
        let mut p = Parser { t, p: 0, file: file_name, package: String::new() };
        p.parse_file(self)
    }

    /// resolve type references with protobuf scoping: innermost scope outwards
    pub fn resolve(&mut self) -> Result<(), String> {
        let pending = std::mem::take(&mut self.pending);
        for (msg, idx, scope, raw) in pending {
            let mut found: Option<Ty> = None;
            if let Some(abs) = raw.strip_prefix('.') {
                found = self.lookup_type(abs);
            } else {
                let mut sc = scope.clone();
                loop {
                    let cand = join(&sc, &raw);
                    if let Some(t) = self.lookup_type(&cand) {
                        found = Some(t);
                        break;
                    }
                    if sc.is_empty() {
                        break;
                    }
                    sc = match sc.rfind('.') {
                        Some(i) => sc[..i].to_string(),
                        None => String::new(),
                    };
                }
            }
            let Some(t) = found else {
                return Err(format!("unresolved type `{raw}` in {msg} (scope {scope})"));
            };
            let m = self.messages.get_mut(&msg).ok_or("internal: message vanished")?;
            m.fields[idx].ty = t;
        }
        Ok(())
    }

    fn lookup_type(&self, full: &str) -> Option<Ty> {
        if self.messages.contains_key(full) {
            Some(Ty::Message(full.to_string()))
        } else if self.enums.contains_key(full) {
            Some(Ty::Enum(full.to_string()))
        } else {
            None
        }
    }

    /// parse every `.proto` below `root` (file names relative to `root`, '/'-separated)
    pub fn from_proto_dir(root: &Path) -> Result<Schema, String> {
        let mut files = vec![];
        collect_files(root, root, ".proto", &mut files)?;
        files.sort();
        if files.is_empty() {
            return Err(format!("no .proto files below {}", root.display()));
        }
        let mut s = Schema::default();
        for (rel, abs) in files {
            let text = std::fs::read_to_string(&abs).map_err(|e| format!("{}: {e}", abs.display()))?;
            s.add_proto_file(&rel, &text)?;
        }
        s.resolve()?;
        Ok(s)
    }

    pub fn msg(&self, name: &str) -> &MessageDef {
        self.messages.get(name).unwrap_or_else(|| panic!("wire: unknown message {name}"))
    }
}

pub fn collect_files(root: &Path, dir: &Path, suffix: &str, out: &mut Vec<(String, std::path::PathBuf)>) -> Result<(), String> {
    let rd = std::fs::read_dir(dir).map_err(|e| format!("{}: {e}", dir.display()))?;
    for e in rd {
        let e = e.map_err(|e| e.to_string())?;
        let p = e.path();
        if p.is_dir() {
            collect_files(root, &p, suffix, out)?;
        } else if p.file_name().and_then(|n| n.to_str()).map_or(false, |n| n.ends_with(suffix)) {
            let rel = p.strip_prefix(root).map_err(|e| e.to_string())?;
            let rel = rel.components().map(|c| c.as_os_str().to_string_lossy().to_string()).collect::<Vec<_>>().join("/");
            out.push((rel, p));
        }
    }
    Ok(())
}

// ---------------------------------------------------------------------------------------------
// wire primitives

pub fn put_varint(out: &mut Vec<u8>, mut v: u64) {
    while v >= 0x80 {
        out.push((v as u8 & 0x7f) | 0x80);
        v >>= 7;
    }
    out.push(v as u8);
}

pub fn put_tag(out: &mut Vec<u8>, number: u32, wt: u8) {
    put_varint(out, ((number as u64) << 3) | wt as u64);
}

pub fn zigzag64(v: i64) -> u64 {
    ((v << 1) ^ (v >> 63)) as u64
}
pub fn unzigzag64(v: u64) -> i64 {
    ((v >> 1) as i64) ^ -((v & 1) as i64)
}

pub struct Rd<'a> {
    pub b: &'a [u8],
    pub p: usize,
}

#[derive(Clone, Debug)]
pub enum Raw<'a> {
    Varint(u64),
    F64(u64),
    F32(u32),
    Len(&'a [u8]),
    /// a (skipped) group: only ever an unknown field
    Group,
}

impl<'a> Rd<'a> {
    pub fn new(b: &'a [u8]) -> Self {
        Rd { b, p: 0 }
    }
    pub fn done(&self) -> bool {
        self.p >= self.b.len()
    }
    pub fn varint(&mut self) -> Result<u64, String> {
        let mut v: u64 = 0;
        for i in 0..10 {
            let Some(&x) = self.b.get(self.p) else {
                return Err("truncated varint".into());
            };
            self.p += 1;
            if i == 9 && x > 1 {
                return Err("varint overflows 64 bits".into());
            }
            v |= ((x & 0x7f) as u64) << (7 * i);
            if x & 0x80 == 0 {
                return Ok(v);
            }
        }
        Err("varint longer than 10 bytes".into())
    }
    pub fn take(&mut self, n: usize) -> Result<&'a [u8], String> {
        if self.b.len() - self.p < n {
            return Err(format!("truncated: need {n} bytes, {} left", self.b.len() - self.p));
        }
        let s = &self.b[self.p..self.p + n];
        self.p += n;
        Ok(s)
    }
    pub fn fixed64(&mut self) -> Result<u64, String> {
        Ok(u64::from_le_bytes(self.take(8)?.try_into().unwrap()))
    }
    pub fn fixed32(&mut self) -> Result<u32, String> {
        Ok(u32::from_le_bytes(self.take(4)?.try_into().unwrap()))
    }
    /// next (field number, wire type, payload); a group is skipped up to its end tag
    pub fn field(&mut self) -> Result<(u32, u8, Raw<'a>), String> {
        self.field_at(0)
    }
    fn field_at(&mut self, depth: u32) -> Result<(u32, u8, Raw<'a>), String> {
        let key = self.varint()?;
        let wt = (key & 7) as u8;
        let num = key >> 3;
        if num == 0 || num > 536_870_911 {
            return Err(format!("invalid field number {num}"));
        }
        let raw = match wt {
            0 => Raw::Varint(self.varint()?),
            1 => Raw::F64(self.fixed64()?),
            5 => Raw::F32(self.fixed32()?),
            2 => {
                let n = self.varint()?;
                if n > (self.b.len() - self.p) as u64 {
                    return Err(format!("length prefix {n} exceeds the remaining {} bytes", self.b.len() - self.p));
                }
                Raw::Len(self.take(n as usize)?)
            }
            3 => {
                if depth > 64 {
                    return Err("groups nested deeper than 64".into());
                }
                loop {
                    if self.done() {
                        return Err(format!("unterminated group {num}"));
                    }
                    // peek for the end tag
                    let save = self.p;
                    let k = self.varint()?;
                    if k & 7 == 4 {
                        if k >> 3 != num {
                            return Err(format!("group {num} closed by end tag {}", k >> 3));
                        }
                        break;
                    }
                    self.p = save;
                    self.field_at(depth + 1)?;
                }
                Raw::Group
            }
            _ => return Err(format!("unsupported wire type {wt} (field {num})")),
        };
        Ok((num as u32, wt, raw))
    }
}

pub fn raw_fields(b: &[u8]) -> Result<Vec<(u32, Raw<'_>)>, String> {
    let mut r = Rd::new(b);
    let mut out = vec![];
    while !r.done() {
        let (n, _, raw) = r.field()?;
        out.push((n, raw));
    }
    Ok(out)
}

// ---------------------------------------------------------------------------------------------
// descriptor.proto decoder (hand-written against the published field numbers)

fn as_str(raw: &Raw<'_>, what: &str) -> Result<String, String> {
    match raw {
        Raw::Len(b) => String::from_utf8(b.to_vec()).map_err(|_| format!("{what}: not UTF-8")),
        _ => Err(format!("{what}: expected length-delimited")),
    }
}
fn as_len<'a>(raw: &Raw<'a>, what: &str) -> Result<&'a [u8], String> {
    match raw {
        Raw::Len(b) => Ok(b),
        _ => Err(format!("{what}: expected length-delimited")),
    }
}
fn as_int(raw: &Raw<'_>, what: &str) -> Result<u64, String> {
    match raw {
        Raw::Varint(v) => Ok(*v),
        _ => Err(format!("{what}: expected varint")),
    }
}

struct RawField {
    name: String,
    number: i64,
    label: u64,
    ty: u64,
    type_name: String,
    oneof_index: Option<u64>,
    proto3_optional: bool,
    deprecated: bool,
}

fn decode_field_desc(b: &[u8]) -> Result<RawField, String> {
    let mut f = RawField { name: String::new(), number: 0, label: 1, ty: 0, type_name: String::new(), oneof_index: None, proto3_optional: false, deprecated: false };
    for (n, raw) in raw_fields(b)? {
        match n {
            1 => f.name = as_str(&raw, "field.name")?,
            3 => f.number = as_int(&raw, "field.number")? as i64,
            4 => f.label = as_int(&raw, "field.label")?,
            5 => f.ty = as_int(&raw, "field.type")?,
            6 => f.type_name = as_str(&raw, "field.type_name")?,
            9 => f.oneof_index = Some(as_int(&raw, "field.oneof_index")?),
            17 => f.proto3_optional = as_int(&raw, "field.proto3_optional")? != 0,
            8 => {
                for (on, oraw) in raw_fields(as_len(&raw, "field.options")?)? {
                    if on == 3 {
                        f.deprecated = as_int(&oraw, "FieldOptions.deprecated")? != 0;
                    }
                }
            }
            _ => {}
        }
    }
    Ok(f)
}

fn ty_from_code(code: u64, type_name: &str) -> Result<Ty, String> {
    let tn = type_name.strip_prefix('.').unwrap_or(type_name).to_string();
    Ok(match code {
        1 => Ty::Double,
        2 => Ty::Float,
        3 => Ty::Int64,
        4 => Ty::Uint64,
        5 => Ty::Int32,
        6 => Ty::Fixed64,
        7 => Ty::Fixed32,
        8 => Ty::Bool,
        9 => Ty::String,
        11 => Ty::Message(tn),
        12 => Ty::Bytes,
        13 => Ty::Uint32,
        14 => Ty::Enum(tn),
        15 => Ty::Sfixed32,
        16 => Ty::Sfixed64,
        17 => Ty::Sint32,
        18 => Ty::Sint64,
        c => return Err(format!("unsupported field type code {c}")),
    })
}

struct RawMsg {
    full: String,
    fields: Vec<RawField>,
    oneofs: Vec<String>,
    map_entry: bool,
}

fn decode_enum_desc(b: &[u8], scope: &str, file: &str, schema: &mut Schema) -> Result<(), String> {
    let mut name = String::new();
    let mut values = vec![];
    for (n, raw) in raw_fields(b)? {
        match n {
            1 => name = as_str(&raw, "enum.name")?,
            2 => {
                let mut vn = String::new();
                let mut num = 0i32;
                for (m, r) in raw_fields(as_len(&raw, "enum.value")?)? {
                    match m {
                        1 => vn = as_str(&r, "enum.value.name")?,
                        2 => num = as_int(&r, "enum.value.number")? as i64 as i32,
                        _ => {}
                    }
                }
                values.push((vn, num));
            }
            _ => {}
        }
    }
    let full = join(scope, &name);
    schema.enums.insert(full.clone(), EnumDef { full_name: full, file: file.to_string(), values });
    Ok(())
}

fn decode_msg_desc(b: &[u8], scope: &str, file: &str, schema: &mut Schema, out: &mut Vec<RawMsg>) -> Result<(), String> {
    let fields = raw_fields(b)?;
    let mut name = String::new();
    for (n, raw) in &fields {
        if *n == 1 {
            name = as_str(raw, "message.name")?;
        }
    }
    let full = join(scope, &name);
    let mut m = RawMsg { full: full.clone(), fields: vec![], oneofs: vec![], map_entry: false };
    for (n, raw) in &fields {
        match n {
            2 => m.fields.push(decode_field_desc(as_len(raw, "message.field")?)?),
            3 => decode_msg_desc(as_len(raw, "message.nested_type")?, &full, file, schema, out)?,
            4 => decode_enum_desc(as_len(raw, "message.enum_type")?, &full, file, schema)?,
            7 => {
                for (on, oraw) in raw_fields(as_len(raw, "message.options")?)? {
                    if on == 7 {
                        m.map_entry = as_int(&oraw, "MessageOptions.map_entry")? != 0;
                    }
                }
            }
            8 => {
                let mut on = String::new();
                for (k, r) in raw_fields(as_len(raw, "message.oneof_decl")?)? {
                    if k == 1 {
                        on = as_str(&r, "oneof.name")?;
                    }
                }
                m.oneofs.push(on);
            }
            _ => {}
        }
    }
    out.push(m);
    Ok(())
}

impl Schema {
    /// decode one serialized FileDescriptorProto into this schema; returns the file name
    pub fn add_file_descriptor(&mut self, b: &[u8]) -> Result<String, String> {
        let fields = raw_fields(b)?;
        let mut fd = FileDef { syntax: "proto2".into(), ..Default::default() };
        for (n, raw) in &fields {
            match n {
                1 => fd.name = as_str(raw, "file.name")?,
                2 => fd.package = as_str(raw, "file.package")?,
                3 => fd.deps.push(as_str(raw, "file.dependency")?),
                12 => fd.syntax = as_str(raw, "file.syntax")?,
                _ => {}
            }
        }
        let mut raws: Vec<RawMsg> = vec![];
        for (n, raw) in &fields {
            match n {
                4 => decode_msg_desc(as_len(raw, "file.message_type")?, &fd.package, &fd.name, self, &mut raws)?,
                5 => decode_enum_desc(as_len(raw, "file.enum_type")?, &fd.package, &fd.name, self)?,
                _ => {}
            }
        }
        // map entry types of this file
        let mut entries: BTreeMap<String, (Ty, Ty)> = BTreeMap::new();
        for m in &raws {
            if m.map_entry {
                let k = m.fields.iter().find(|f| f.number == 1).ok_or("map entry without key")?;
                let v = m.fields.iter().find(|f| f.number == 2).ok_or("map entry without value")?;
                if k.name != "key" || v.name != "value" || m.fields.len() != 2 {
                    return Err(format!("malformed map entry type {}", m.full));
                }
                entries.insert(m.full.clone(), (ty_from_code(k.ty, &k.type_name)?, ty_from_code(v.ty, &v.type_name)?));
            }
        }
        for m in raws {
            if m.map_entry {
                continue;
            }
            let mut fs = vec![];
            for f in &m.fields {
                let ty = ty_from_code(f.ty, &f.type_name)?;
                let mut label = match f.label {
                    1 => Label::Singular,
                    3 => Label::Repeated,
                    l => return Err(format!("{}.{}: label {l} is not proto3", m.full, f.name)),
                };
                let mut fty = ty.clone();
                if let Ty::Message(tn) = &ty {
                    if let Some((k, v)) = entries.get(tn) {
                        if label != Label::Repeated {
                            return Err(format!("{}.{}: map entry field is not repeated", m.full, f.name));
                        }
                        label = Label::Map(k.clone());
                        fty = v.clone();
                    }
                }
                if f.proto3_optional {
                    if label != Label::Singular {
                        return Err(format!("{}.{}: proto3_optional on a non-singular field", m.full, f.name));
                    }
                    label = Label::Optional;
                } else if let Some(i) = f.oneof_index {
                    let on = m.oneofs.get(i as usize).ok_or_else(|| format!("{}.{}: oneof index {i} out of range", m.full, f.name))?;
                    if label != Label::Singular {
                        return Err(format!("{}.{}: oneof member with a label", m.full, f.name));
                    }
                    label = Label::Oneof(on.clone());
                }
                if f.number <= 0 {
                    return Err(format!("{}.{}: field number {}", m.full, f.name, f.number));
                }
                fs.push(FieldDef { name: f.name.clone(), number: f.number as u32, ty: fty, label, deprecated: f.deprecated });
            }
            self.messages.insert(m.full.clone(), MessageDef { full_name: m.full, file: fd.name.clone(), fields: fs });
        }
        let name = fd.name.clone();
        self.files.insert(name.clone(), fd);
        Ok(name)
    }

    /// decode a serialized FileDescriptorSet
    pub fn from_descriptor_set(b: &[u8]) -> Result<Schema, String> {
        let mut s = Schema::default();
        for (n, raw) in raw_fields(b)? {
            if n == 1 {
                s.add_file_descriptor(as_len(&raw, "set.file")?)?;
            }
        }
        Ok(s)
    }
}

/// Differences between `reference` and `other`, restricted to the definitions of `file` when
/// given. Each entry: (key `<Message>.<field>` / `<Enum>.<VALUE>` / `<Message>` / `<file>`, text).
pub fn diff_schema(reference: &Schema, other: &Schema, file: Option<&str>) -> Vec<(String, String)> {
    let mut out = vec![];
    let in_file = |f: &str| file.map_or(true, |x| x == f);
    for (name, fd) in &reference.files {
        if !in_file(name) {
            continue;
        }
        match other.files.get(name) {
            None => out.push((name.clone(), "file missing".to_string())),
            Some(o) => {
                if o.package != fd.package {
                    out.push((format!("{name}#package"), format!("package {:?} vs {:?}", fd.package, o.package)));
                }
                if o.syntax != fd.syntax {
                    out.push((format!("{name}#syntax"), format!("syntax {:?} vs {:?}", fd.syntax, o.syntax)));
                }
                if o.deps != fd.deps {
                    out.push((format!("{name}#imports"), format!("imports {:?} vs {:?}", fd.deps, o.deps)));
                }
            }
        }
    }
    for name in other.files.keys() {
        if in_file(name) && !reference.files.contains_key(name) {
            out.push((name.clone(), "extra file".to_string()));
        }
    }
    let short = |full: &str| full.rsplit_once("ommx.v1.").map(|x| x.1.to_string()).unwrap_or_else(|| full.to_string());
    for (name, m) in &reference.messages {
        if !in_file(&m.file) {
            continue;
        }
        let Some(o) = other.messages.get(name).filter(|o| in_file(&o.file)) else {
            out.push((short(name), format!("message {name} missing")));
            continue;
        };
        for f in &m.fields {
            match o.fields.iter().find(|g| g.name == f.name) {
                None => out.push((format!("{}.{}", short(name), f.name), format!("field missing; reference {f:?}"))),
                Some(g) if g != f => out.push((format!("{}.{}", short(name), f.name), format!("reference {f:?} vs {g:?}"))),
                _ => {}
            }
        }
        for g in &o.fields {
            if !m.fields.iter().any(|f| f.name == g.name) {
                out.push((format!("{}.{}", short(name), g.name), format!("extra field {g:?}")));
            }
        }
    }
    for (name, o) in &other.messages {
        if in_file(&o.file) && !reference.messages.get(name).map_or(false, |m| in_file(&m.file)) {
            out.push((short(name), format!("extra message {name}")));
        }
    }
    for (name, e) in &reference.enums {
        if !in_file(&e.file) {
            continue;
        }
        let Some(o) = other.enums.get(name).filter(|o| in_file(&o.file)) else {
            out.push((short(name), format!("enum {name} missing")));
            continue;
        };
        for (vn, num) in &e.values {
            match o.values.iter().find(|x| &x.0 == vn) {
                None => out.push((format!("{}.{}", short(name), vn), "enum value missing".to_string())),
                Some(x) if x.1 != *num => out.push((format!("{}.{}", short(name), vn), format!("number {num} vs {}", x.1))),
                _ => {}
            }
        }
        for (vn, num) in &o.values {
            if !e.values.iter().any(|x| &x.0 == vn) {
                out.push((format!("{}.{}", short(name), vn), format!("extra enum value = {num}")));
            }
        }
    }
    for (name, o) in &other.enums {
        if in_file(&o.file) && !reference.enums.get(name).map_or(false, |e| in_file(&e.file)) {
            out.push((short(name), format!("extra enum {name}")));
        }
    }
    out
}

/// The published schema as text, one line per field / enum value (sorted), the form in which it is
/// frozen in `harness/src/schema_lock.tsv`:
/// `F <message> <field name> <number> <type> <label>` and `E <enum> <value name> <number>` (tab separated).
pub fn lock_text(s: &Schema) -> String {
    let mut lines = vec![];
    for (name, m) in &s.messages {
        for f in &m.fields {
            lines.push(format!("F\t{name}\t{}\t{}\t{:?}\t{:?}", f.name, f.number, f.ty, f.label));
        }
        if m.fields.is_empty() {
            lines.push(format!("M\t{name}"));
        }
    }
    for (name, e) in &s.enums {
        for (v, n) in &e.values {
            lines.push(format!("E\t{name}\t{v}\t{n}"));
        }
    }
    lines.sort();
    lines.join("\n") + "\n"
}

/// Everything the frozen text publishes that `s` no longer has in the same form (a field renumbered,
/// retyped, relabelled, renamed or removed; an enum value renumbered or removed; a number re-used by
/// another field), as (key, text); plus the number of entries of `s` that the frozen text does not
/// know (additions, compatible by the unknown-field rule).
pub fn diff_lock(lock: &str, s: &Schema) -> (Vec<(String, String)>, u64, u64) {
    let now: BTreeSet<String> = lock_text(s).lines().map(|l| l.to_string()).collect();
    let mut out = vec![];
    let mut checked = 0;
    let short = |full: &str| full.rsplit_once("ommx.v1.").map(|x| x.1.to_string()).unwrap_or_else(|| full.to_string());
    let mut locked = BTreeSet::new();
    for line in lock.lines().filter(|l| !l.is_empty() && !l.starts_with('#')) {
        locked.insert(line.to_string());
        checked += 1;
        if now.contains(line) {
            continue;
        }
        let p: Vec<&str> = line.split('\t').collect();
        match p[0] {
            "F" => {
                let cur = s.messages.get(p[1]);
                let by_name = cur.and_then(|m| m.fields.iter().find(|f| f.name == p[2]));
                let by_number = cur.and_then(|m| m.fields.iter().find(|f| f.number.to_string() == p[3]));
                let what = match (cur, by_name, by_number) {
                    (None, _, _) => "message removed".to_string(),
                    (_, Some(f), _) => format!("now number {} type {:?} label {:?}", f.number, f.ty, f.label),
                    (_, None, Some(g)) => format!("field removed or renamed; its number now belongs to {:?} ({:?}, {:?})", g.name, g.ty, g.label),
                    _ => "field removed".to_string(),
                };
                out.push((format!("{}.{}", short(p[1]), p[2]), format!("published as number {} type {} label {}; {what}", p[3], p[4], p[5])));
            }
            "M" => {
                if !s.messages.contains_key(p[1]) {
                    out.push((short(p[1]), "published message removed".to_string()));
                }
            }
            "E" => {
                let cur = s.enums.get(p[1]).and_then(|e| e.values.iter().find(|v| v.0 == p[2]));
                out.push((format!("{}.{}", short(p[1]), p[2]), format!("published as {}; now {}", p[3], cur.map_or("removed".to_string(), |v| v.1.to_string()))));
            }
            other => out.push((format!("lock-line:{other}"), format!("unreadable lock line {line:?}"))),
        }
    }
    let additions = now.iter().filter(|l| !locked.contains(*l)).count() as u64;
    (out, checked, additions)
}

/// number of (fields, enum values) of the definitions of `file` (all files when None)
pub fn schema_size(s: &Schema, file: Option<&str>) -> (u64, u64) {
    let in_file = |f: &str| file.map_or(true, |x| x == f);
    let a = s.messages.values().filter(|m| in_file(&m.file)).map(|m| m.fields.len() as u64).sum();
    let b = s.enums.values().filter(|m| in_file(&m.file)).map(|m| m.values.len() as u64).sum();
    (a, b)
}

// ---------------------------------------------------------------------------------------------
// extraction of the serialized descriptor from a generated *_pb2.py (no Python needed)

/// Finds `AddSerializedFile(` followed by a bytes literal (`b'..'` / `b".."`, adjacent literals
/// concatenated) and un-escapes it with Python's rules for bytes literals.
pub fn extract_pb2_descriptor(text: &str) -> Result<Vec<u8>, String> {
    let key = "AddSerializedFile(";
    let at = text.find(key).ok_or("no AddSerializedFile( call")?;
    if text[at + key.len()..].contains(key) {
        return Err("more than one AddSerializedFile( call".into());
    }
    let b = text.as_bytes();
    let mut i = at + key.len();
    let mut out = vec![];
    let mut literals = 0;
    loop {
        while i < b.len() && (b[i] as char).is_whitespace() {
            i += 1;
        }
        if i >= b.len() {
            return Err("unterminated call".into());
        }
        if b[i] == b')' {
            break;
        }
        if b[i] != b'b' && b[i] != b'B' {
            return Err(format!("expected a bytes literal at offset {i}"));
        }
        i += 1;
        let q = *b.get(i).ok_or("truncated literal")?;
        if q != b'\'' && q != b'"' {
            return Err("unsupported literal prefix (raw / triple-quoted literals are not generated by protoc)".into());
        }
        if b.get(i + 1) == Some(&q) && b.get(i + 2) == Some(&q) {
            return Err("triple-quoted literal not supported".into());
        }
        i += 1;
        loop {
            let c = *b.get(i).ok_or("unterminated bytes literal")?;
            i += 1;
            if c == q {
                break;
            }
            if c == b'\n' {
                return Err("newline inside a bytes literal".into());
            }
            if c != b'\\' {
                if c >= 0x80 {
                    return Err("non-ASCII character inside a bytes literal".into());
                }
                out.push(c);
                continue;
            }
            let e = *b.get(i).ok_or("dangling backslash")?;
            i += 1;
            match e {
                b'\n' => {}
                b'\\' => out.push(b'\\'),
                b'\'' => out.push(b'\''),
                b'"' => out.push(b'"'),
                b'a' => out.push(7),
                b'b' => out.push(8),
                b'f' => out.push(12),
                b'n' => out.push(b'\n'),
                b'r' => out.push(b'\r'),
                b't' => out.push(b'\t'),
                b'v' => out.push(11),
                b'x' => {
                    let h = text.get(i..i + 2).ok_or("truncated \\x escape")?;
                    out.push(u8::from_str_radix(h, 16).map_err(|_| format!("bad \\x escape {h:?}"))?);
                    i += 2;
                }
                b'0'..=b'7' => {
                    let mut v: u32 = (e - b'0') as u32;
                    let mut n = 1;
                    while n < 3 && i < b.len() && (b'0'..=b'7').contains(&b[i]) {
                        v = v * 8 + (b[i] - b'0') as u32;
                        i += 1;
                        n += 1;
                    }
                    if v > 255 {
                        return Err("octal escape above 0o377".into());
                    }
                    out.push(v as u8);
                }
                other => {
                    // Python keeps unknown escapes verbatim
                    out.push(b'\\');
                    out.push(other);
                }
            }
        }
        literals += 1;
    }
    if literals == 0 {
        return Err("AddSerializedFile() without a literal".into());
    }
    Ok(out)
}

// ---------------------------------------------------------------------------------------------
// generic value tree

#[derive(Clone, Debug, PartialEq, PartialOrd)]
pub enum WVal {
    /// uint32, uint64, fixed32, fixed64
    U(u64),
    /// int32, int64, sint32, sint64, sfixed32, sfixed64, enum
    I(i64),
    /// double, as bits
    F64(u64),
    /// float, as bits
    F32(u32),
    Bool(bool),
    Str(String),
    Bytes(Vec<u8>),
    Msg(WMsg),
}

#[derive(Clone, Debug, PartialEq, PartialOrd)]
pub enum WField {
    /// singular / optional / the set oneof arm: present on the wire
    One(WVal),
    Rep(Vec<WVal>),
    /// no duplicate keys
    Map(Vec<(WVal, WVal)>),
}

#[derive(Clone, Debug, PartialEq, PartialOrd, Default)]
pub struct WMsg {
    pub fields: BTreeMap<u32, WField>,
    /// (field number, wire type) of fields the schema does not know (decoder only)
    pub unknown: Vec<(u32, u8)>,
}

pub fn default_val(ty: &Ty) -> WVal {
    match ty {
        Ty::Uint32 | Ty::Uint64 | Ty::Fixed32 | Ty::Fixed64 => WVal::U(0),
        Ty::Int32 | Ty::Int64 | Ty::Sint32 | Ty::Sint64 | Ty::Sfixed32 | Ty::Sfixed64 | Ty::Enum(_) => WVal::I(0),
        Ty::Double => WVal::F64(0),
        Ty::Float => WVal::F32(0),
        Ty::Bool => WVal::Bool(false),
        Ty::String => WVal::Str(String::new()),
        Ty::Bytes => WVal::Bytes(vec![]),
        Ty::Message(_) => WVal::Msg(WMsg::default()),
    }
}

/// proto3 default in the sense of "not serialised when singular"; -0.0 compares equal to 0.0 and
/// is reported separately (prost elides it, see the C07 assumptions)
fn is_default_scalar(v: &WVal, negzero: &mut u64) -> bool {
    match v {
        WVal::U(x) => *x == 0,
        WVal::I(x) => *x == 0,
        WVal::F64(b) => {
            if *b == 1u64 << 63 {
                *negzero += 1;
            }
            *b << 1 == 0
        }
        WVal::F32(b) => {
            if *b == 1u32 << 31 {
                *negzero += 1;
            }
            *b << 1 == 0
        }
        WVal::Bool(b) => !*b,
        WVal::Str(s) => s.is_empty(),
        WVal::Bytes(s) => s.is_empty(),
        WVal::Msg(_) => false,
    }
}

// ---------------------------------------------------------------------------------------------
// generator

const STRINGS: &[&str] = &["", "a", "x y", "na\u{ef}ve", "\u{65e5}\u{672c}\u{8a9e}", "\u{1f642}", "\0", "q\"uo'te\\\n", "{}[]:,", "\u{7f}\u{80}\u{7ff}\u{800}\u{ffff}"];

pub fn gen_scalar(schema: &Schema, ty: &Ty, rng: &mut Rng) -> WVal {
    match ty {
        Ty::Uint64 | Ty::Fixed64 => {
            let pool = [0u64, 1, 2, 127, 128, 300, 16383, 16384, 1 << 32, 1 << 53, 1 << 63, u64::MAX, u64::MAX - 1];
            WVal::U(match rng.below(4) {
                0 => rng.below(8),
                1 => rng.next_u64() >> rng.below(64),
                _ => *rng.pick(&pool),
            })
        }
        Ty::Uint32 | Ty::Fixed32 => {
            let pool = [0u64, 1, 127, 128, 1 << 31, u32::MAX as u64];
            WVal::U(if rng.bool() { *rng.pick(&pool) } else { rng.next_u64() as u32 as u64 })
        }
        Ty::Int64 | Ty::Sint64 | Ty::Sfixed64 => {
            let pool = [0i64, 1, -1, 2, -2, 63, 64, -64, -65, i64::MIN, i64::MAX, -(1 << 31), 1 << 31, -(1 << 53), i64::MIN + 1];
            WVal::I(match rng.below(4) {
                0 => rng.range(-5, 5),
                1 => (rng.next_u64() as i64) >> rng.below(64),
                _ => *rng.pick(&pool),
            })
        }
        Ty::Int32 | Ty::Sint32 | Ty::Sfixed32 => {
            let pool = [0i64, 1, -1, 64, -65, i32::MIN as i64, i32::MAX as i64];
            WVal::I(if rng.bool() { *rng.pick(&pool) } else { rng.next_u64() as i32 as i64 })
        }
        Ty::Enum(e) => {
            let known: Vec<i64> = schema.enums.get(e).map(|d| d.values.iter().map(|v| v.1 as i64).collect()).unwrap_or_default();
            if known.is_empty() || rng.chance(1, 8) {
                // open enum: an unknown number must survive as a number
                WVal::I(*rng.pick(&[7i64, 100, -1, i32::MAX as i64, i32::MIN as i64, 6]))
            } else {
                WVal::I(*rng.pick(&known))
            }
        }
        Ty::Double => {
            let pool = [0.0f64, -0.0, 1.0, -1.0, -1.5, 0.1, 1e300, -1e300, f64::MAX, f64::MIN, f64::MIN_POSITIVE, 5e-324, f64::INFINITY, f64::NEG_INFINITY, f64::EPSILON, 1e-17];
            WVal::F64(match rng.below(8) {
                0 => f64::NAN.to_bits(),
                1 => rng.next_u64(),
                2 | 3 => (rng.range(-64, 64) as f64 / 8.0).to_bits(),
                _ => rng.pick(&pool).to_bits(),
            })
        }
        Ty::Float => {
            let pool = [0.0f32, -0.0, 1.0, -1.5, f32::MAX, f32::MIN_POSITIVE, f32::INFINITY];
            WVal::F32(if rng.bool() { rng.pick(&pool).to_bits() } else { rng.next_u64() as u32 })
        }
        Ty::Bool => WVal::Bool(rng.bool()),
        Ty::String => WVal::Str(match rng.below(3) {
            0 => rng.ascii_word(8),
            1 => format!("{}{}", rng.pick(STRINGS), rng.ascii_word(3)),
            _ => rng.pick(STRINGS).to_string(),
        }),
        Ty::Bytes => {
            let n = rng.usize_below(6);
            WVal::Bytes((0..n).map(|_| rng.next_u64() as u8).collect())
        }
        Ty::Message(_) => unreachable!("gen_scalar on a message type"),
    }
}

fn gen_val(schema: &Schema, ty: &Ty, rng: &mut Rng, depth: u32) -> WVal {
    match ty {
        Ty::Message(m) => WVal::Msg(gen_value(schema, m, rng, depth + 1)),
        _ => gen_scalar(schema, ty, rng),
    }
}

/// random value tree for message `name`; nesting below depth 4 is left empty
pub fn gen_value(schema: &Schema, name: &str, rng: &mut Rng, depth: u32) -> WMsg {
    let mut out = WMsg::default();
    if depth > 4 {
        return out;
    }
    let def = schema.msg(name);
    // sparse or dense message
    let density = if depth == 0 { *rng.pick(&[2u64, 3, 4, 4]) } else { *rng.pick(&[1u64, 2, 3, 3, 4]) };
    for f in &def.fields {
        match &f.label {
            Label::Oneof(_) => {}
            Label::Singular | Label::Optional => {
                if rng.chance(density, 4) {
                    out.fields.insert(f.number, WField::One(gen_val(schema, &f.ty, rng, depth)));
                }
            }
            Label::Repeated => {
                if rng.chance(density, 4) {
                    let max = if f.ty.is_message() { if depth == 0 { 3 } else { 2 } } else { 4 };
                    let mut n = rng.below(max + 1);
                    if !f.ty.is_message() && rng.chance(1, 16) {
                        n = 9 + rng.below(8);
                    }
                    if n == 0 && !(f.ty.packable() && rng.chance(1, 4)) {
                        continue;
                    }
                    let v = (0..n).map(|_| gen_val(schema, &f.ty, rng, depth)).collect();
                    out.fields.insert(f.number, WField::Rep(v));
                }
            }
            Label::Map(kt) => {
                if rng.chance(density, 4) {
                    let n = 1 + rng.below(3);
                    let mut entries: Vec<(WVal, WVal)> = vec![];
                    for _ in 0..n {
                        let k = gen_scalar(schema, kt, rng);
                        if entries.iter().any(|e| e.0 == k) {
                            continue;
                        }
                        entries.push((k, gen_val(schema, &f.ty, rng, depth)));
                    }
                    out.fields.insert(f.number, WField::Map(entries));
                }
            }
        }
    }
    for o in def.oneofs() {
        let arms: Vec<&FieldDef> = def.fields.iter().filter(|f| f.label == Label::Oneof(o.clone())).collect();
        let pick = rng.usize_below(arms.len() + 1);
        if pick < arms.len() {
            let f = arms[pick];
            out.fields.insert(f.number, WField::One(gen_val(schema, &f.ty, rng, depth)));
        }
    }
    out
}

// ---------------------------------------------------------------------------------------------
// encoder

fn put_scalar(out: &mut Vec<u8>, ty: &Ty, v: &WVal) {
    match (ty, v) {
        (Ty::Int32 | Ty::Int64 | Ty::Enum(_), WVal::I(x)) => put_varint(out, *x as u64),
        (Ty::Uint32 | Ty::Uint64, WVal::U(x)) => put_varint(out, *x),
        (Ty::Sint32 | Ty::Sint64, WVal::I(x)) => put_varint(out, zigzag64(*x)),
        (Ty::Bool, WVal::Bool(b)) => put_varint(out, *b as u64),
        (Ty::Fixed64, WVal::U(x)) => out.extend_from_slice(&x.to_le_bytes()),
        (Ty::Sfixed64, WVal::I(x)) => out.extend_from_slice(&x.to_le_bytes()),
        (Ty::Double, WVal::F64(b)) => out.extend_from_slice(&b.to_le_bytes()),
        (Ty::Fixed32, WVal::U(x)) => out.extend_from_slice(&(*x as u32).to_le_bytes()),
        (Ty::Sfixed32, WVal::I(x)) => out.extend_from_slice(&(*x as i32).to_le_bytes()),
        (Ty::Float, WVal::F32(b)) => out.extend_from_slice(&b.to_le_bytes()),
        (Ty::String, WVal::Str(s)) => {
            put_varint(out, s.len() as u64);
            out.extend_from_slice(s.as_bytes());
        }
        (Ty::Bytes, WVal::Bytes(s)) => {
            put_varint(out, s.len() as u64);
            out.extend_from_slice(s);
        }
        (t, v) => panic!("wire: value {v:?} does not fit type {t:?}"),
    }
}

pub struct Encoder<'a> {
    pub schema: &'a Schema,
    /// false: canonical encoding (ascending field numbers, packed, nothing extra)
    pub hostile: bool,
    pub stats: BTreeMap<&'static str, u64>,
}

impl<'a> Encoder<'a> {
    pub fn new(schema: &'a Schema, hostile: bool) -> Self {
        Encoder { schema, hostile, stats: BTreeMap::new() }
    }
    fn stat(&mut self, k: &'static str) {
        *self.stats.entry(k).or_insert(0) += 1;
    }

    /// tag + payload of one value
    fn piece(&mut self, number: u32, ty: &Ty, v: &WVal, rng: &mut Rng) -> Vec<u8> {
        let mut out = vec![];
        put_tag(&mut out, number, ty.wire_type());
        match (ty, v) {
            (Ty::Message(m), WVal::Msg(sub)) => {
                let b = self.encode(m, sub, rng);
                put_varint(&mut out, b.len() as u64);
                out.extend_from_slice(&b);
            }
            _ => put_scalar(&mut out, ty, v),
        }
        out
    }

    fn unknown_piece(&mut self, number: u32, rng: &mut Rng) -> Vec<u8> {
        let mut out = vec![];
        match rng.below(6) {
            0 => {
                self.stat("unknown-field:varint");
                put_tag(&mut out, number, 0);
                put_varint(&mut out, rng.next_u64() >> rng.below(64));
            }
            1 => {
                self.stat("unknown-field:fixed64");
                put_tag(&mut out, number, 1);
                out.extend_from_slice(&rng.next_u64().to_le_bytes());
            }
            2 | 3 => {
                self.stat("unknown-field:length-delimited");
                put_tag(&mut out, number, 2);
                let n = rng.usize_below(7);
                put_varint(&mut out, n as u64);
                for _ in 0..n {
                    out.push(rng.next_u64() as u8);
                }
            }
            4 => {
                self.stat("unknown-field:fixed32");
                put_tag(&mut out, number, 5);
                out.extend_from_slice(&(rng.next_u64() as u32).to_le_bytes());
            }
            _ => {
                self.stat("unknown-field:group");
                put_tag(&mut out, number, 3);
                if rng.bool() {
                    put_tag(&mut out, 1 + rng.below(5) as u32, 0);
                    put_varint(&mut out, rng.below(1000));
                }
                put_tag(&mut out, number, 4);
            }
        }
        out
    }

    pub fn encode(&mut self, name: &str, m: &WMsg, rng: &mut Rng) -> Vec<u8> {
        let schema = self.schema;
        let def = schema.msg(name);
        // per field: pieces whose relative order must be kept
        let mut lists: Vec<Vec<Vec<u8>>> = vec![];
        for (num, fld) in &m.fields {
            let fd = def.field(*num).unwrap_or_else(|| panic!("wire: {name} has no field {num}"));
            let mut pieces: Vec<Vec<u8>> = vec![];
            match (&fd.label, fld) {
                (Label::Map(kt), WField::Map(entries)) => {
                    let mut order: Vec<usize> = (0..entries.len()).collect();
                    if self.hostile {
                        rng.shuffle(&mut order);
                    }
                    for i in order {
                        let (k, v) = &entries[i];
                        let mut nz = 0;
                        let mut kp = self.piece(1, kt, k, rng);
                        let mut vp = self.piece(2, &fd.ty, v, rng);
                        if self.hostile {
                            // a default key / value may be left out of the entry
                            if is_default_scalar(k, &mut nz) && nz == 0 && rng.bool() {
                                kp.clear();
                                self.stat("map-entry:default-key-omitted");
                            }
                            let v_default = match v {
                                WVal::Msg(s) => s.fields.is_empty(),
                                WVal::F64(b) => *b == 0,
                                WVal::F32(b) => *b == 0,
                                other => is_default_scalar(other, &mut nz),
                            };
                            if v_default && rng.bool() {
                                vp.clear();
                                self.stat("map-entry:default-value-omitted");
                            }
                        }
                        let mut e = vec![];
                        if self.hostile && rng.bool() {
                            self.stat("map-entry:value-before-key");
                            e.extend_from_slice(&vp);
                            e.extend_from_slice(&kp);
                        } else {
                            e.extend_from_slice(&kp);
                            e.extend_from_slice(&vp);
                        }
                        let mut p = vec![];
                        put_tag(&mut p, *num, 2);
                        put_varint(&mut p, e.len() as u64);
                        p.extend_from_slice(&e);
                        pieces.push(p);
                    }
                    self.stat("map-field");
                }
                (Label::Repeated, WField::Rep(vals)) => {
                    if !fd.ty.packable() {
                        for v in vals {
                            let p = self.piece(*num, &fd.ty, v, rng);
                            pieces.push(p);
                        }
                    } else {
                        // chunks: packed runs and single unpacked elements, element order kept
                        let mode = if self.hostile { rng.below(4) } else { 0 };
                        let mut i = 0;
                        if vals.is_empty() {
                            let mut p = vec![];
                            put_tag(&mut p, *num, 2);
                            put_varint(&mut p, 0);
                            pieces.push(p);
                            self.stat("repeated:empty-packed-chunk");
                        }
                        let mut chunks = 0;
                        while i < vals.len() {
                            let packed = match mode {
                                0 | 3 => true,
                                1 => false,
                                _ => rng.bool(),
                            };
                            if packed {
                                let n = match mode {
                                    0 => vals.len() - i,
                                    _ => 1 + rng.usize_below(vals.len() - i),
                                };
                                let mut body = vec![];
                                for v in &vals[i..i + n] {
                                    put_scalar(&mut body, &fd.ty, v);
                                }
                                let mut p = vec![];
                                put_tag(&mut p, *num, 2);
                                put_varint(&mut p, body.len() as u64);
                                p.extend_from_slice(&body);
                                pieces.push(p);
                                i += n;
                            } else {
                                let p = self.piece(*num, &fd.ty, &vals[i], rng);
                                pieces.push(p);
                                i += 1;
                            }
                            chunks += 1;
                        }
                        if !vals.is_empty() {
                            self.stat(match mode {
                                0 => "repeated:packed",
                                1 => "repeated:unpacked",
                                2 => "repeated:mixed-packed-unpacked",
                                _ => "repeated:packed-in-chunks",
                            });
                            if chunks > 1 {
                                self.stat("repeated:split-across-pieces");
                            }
                        }
                    }
                }
                (Label::Singular | Label::Optional | Label::Oneof(_), WField::One(v)) => {
                    let is_oneof = matches!(fd.label, Label::Oneof(_));
                    match v {
                        WVal::Msg(sub) if self.hostile && !is_oneof && sub.fields.len() >= 2 && rng.chance(1, 10) => {
                            // a singular message may arrive in two parts that the reader merges
                            let (mut a, mut b) = (WMsg::default(), WMsg::default());
                            for (k, f) in &sub.fields {
                                if rng.bool() {
                                    a.fields.insert(*k, f.clone());
                                } else {
                                    b.fields.insert(*k, f.clone());
                                }
                            }
                            let pa = self.piece(*num, &fd.ty, &WVal::Msg(a), rng);
                            let pb = self.piece(*num, &fd.ty, &WVal::Msg(b), rng);
                            pieces.push(pa);
                            pieces.push(pb);
                            self.stat("singular-message:split-and-merged");
                        }
                        WVal::Msg(_) => {
                            let p = self.piece(*num, &fd.ty, v, rng);
                            pieces.push(p);
                        }
                        _ => {
                            if self.hostile && !is_oneof && rng.chance(1, 12) {
                                // last value wins
                                let decoy = gen_scalar(schema, &fd.ty, rng);
                                let p = self.piece(*num, &fd.ty, &decoy, rng);
                                pieces.push(p);
                                self.stat("singular-scalar:overwritten-last-wins");
                            }
                            let p = self.piece(*num, &fd.ty, v, rng);
                            pieces.push(p);
                            let mut nz = 0;
                            if is_default_scalar(v, &mut nz) {
                                self.stat(match fd.label {
                                    Label::Singular => "explicit-default:singular",
                                    Label::Optional => "explicit-default:optional",
                                    _ => "explicit-default:oneof-arm",
                                });
                            }
                        }
                    }
                    match fd.label {
                        Label::Optional => self.stat("optional:present"),
                        Label::Oneof(_) => self.stat("oneof:arm-set"),
                        _ => {}
                    }
                }
                (l, f) => panic!("wire: {name}.{}: value {f:?} does not fit label {l:?}", fd.name),
            }
            if !pieces.is_empty() {
                lists.push(pieces);
            }
        }
        for o in def.oneofs() {
            if !def.fields.iter().any(|f| f.label == Label::Oneof(o.clone()) && m.fields.contains_key(&f.number)) {
                self.stat("oneof:unset");
            }
        }
        if self.hostile && rng.chance(1, 3) {
            let used: BTreeSet<u32> = def.fields.iter().map(|f| f.number).collect();
            for _ in 0..1 + rng.below(3) {
                let cand = match rng.below(4) {
                    0 => 536_870_911,
                    1 => 1000 + rng.below(100_000) as u32,
                    _ => 1 + rng.below(24) as u32,
                };
                if used.contains(&cand) {
                    continue;
                }
                let p = self.unknown_piece(cand, rng);
                lists.push(vec![p]);
            }
            self.stat("message-with-unknown-fields");
        }
        let mut out = vec![];
        if self.hostile && !rng.chance(1, 4) {
            // random interleaving that keeps the order inside each field
            let mut heads = vec![0usize; lists.len()];
            let mut left: usize = lists.iter().map(|l| l.len()).sum();
            while left > 0 {
                let mut pick = rng.usize_below(left);
                for (i, l) in lists.iter().enumerate() {
                    let rem = l.len() - heads[i];
                    if pick < rem {
                        out.extend_from_slice(&l[heads[i]]);
                        heads[i] += 1;
                        break;
                    }
                    pick -= rem;
                }
                left -= 1;
            }
            if lists.len() > 1 {
                self.stat("field-order:random-interleaved");
            }
        } else {
            for l in &lists {
                for p in l {
                    out.extend_from_slice(p);
                }
            }
            if lists.len() > 1 {
                self.stat("field-order:ascending");
            }
        }
        out
    }
}

// ---------------------------------------------------------------------------------------------
// decoder (full proto3 reader semantics: any order, packed or not, last wins, messages merge)

fn scalar_from_raw(ty: &Ty, wt: u8, raw: &Raw<'_>) -> Result<WVal, String> {
    if wt != ty.wire_type() {
        return Err(format!("wire type {wt} where {:?} needs {}", ty, ty.wire_type()));
    }
    Ok(match (ty, raw) {
        (Ty::Int64, Raw::Varint(v)) => WVal::I(*v as i64),
        (Ty::Int32 | Ty::Enum(_), Raw::Varint(v)) => WVal::I(*v as i32 as i64),
        (Ty::Uint64, Raw::Varint(v)) => WVal::U(*v),
        (Ty::Uint32, Raw::Varint(v)) => WVal::U(*v as u32 as u64),
        (Ty::Sint64, Raw::Varint(v)) => WVal::I(unzigzag64(*v)),
        (Ty::Sint32, Raw::Varint(v)) => WVal::I(unzigzag64(*v as u32 as u64) as i32 as i64),
        (Ty::Bool, Raw::Varint(v)) => WVal::Bool(*v != 0),
        (Ty::Fixed64, Raw::F64(v)) => WVal::U(*v),
        (Ty::Sfixed64, Raw::F64(v)) => WVal::I(*v as i64),
        (Ty::Double, Raw::F64(v)) => WVal::F64(*v),
        (Ty::Fixed32, Raw::F32(v)) => WVal::U(*v as u64),
        (Ty::Sfixed32, Raw::F32(v)) => WVal::I(*v as i32 as i64),
        (Ty::Float, Raw::F32(v)) => WVal::F32(*v),
        (Ty::String, Raw::Len(b)) => WVal::Str(String::from_utf8(b.to_vec()).map_err(|_| "string is not UTF-8".to_string())?),
        (Ty::Bytes, Raw::Len(b)) => WVal::Bytes(b.to_vec()),
        (t, r) => return Err(format!("payload {r:?} does not fit {t:?}")),
    })
}

fn packed_elements(ty: &Ty, b: &[u8]) -> Result<Vec<WVal>, String> {
    let mut r = Rd::new(b);
    let mut out = vec![];
    while !r.done() {
        let raw = match ty.wire_type() {
            0 => Raw::Varint(r.varint()?),
            1 => Raw::F64(r.fixed64()?),
            5 => Raw::F32(r.fixed32()?),
            _ => return Err("type cannot be packed".into()),
        };
        out.push(scalar_from_raw(ty, ty.wire_type(), &raw)?);
    }
    Ok(out)
}

pub fn merge_bytes(schema: &Schema, name: &str, m: &mut WMsg, b: &[u8], depth: u32) -> Result<(), String> {
    if depth > 64 {
        return Err("nesting deeper than 64".into());
    }
    let def = schema.messages.get(name).ok_or_else(|| format!("unknown message {name}"))?;
    let mut r = Rd::new(b);
    while !r.done() {
        let (num, wt, raw) = r.field().map_err(|e| format!("{name}: {e}"))?;
        let Some(fd) = def.field(num) else {
            m.unknown.push((num, wt));
            continue;
        };
        let ctx = |e: String| format!("{name}.{}: {e}", fd.name);
        match &fd.label {
            Label::Map(kt) => {
                let Raw::Len(eb) = raw else {
                    return Err(ctx(format!("map entry with wire type {wt}")));
                };
                let mut key = default_val(kt);
                let mut val = default_val(&fd.ty);
                let mut er = Rd::new(eb);
                while !er.done() {
                    let (n, w, x) = er.field().map_err(&ctx)?;
                    match n {
                        1 => key = scalar_from_raw(kt, w, &x).map_err(&ctx)?,
                        2 => match (&fd.ty, &mut val) {
                            (Ty::Message(sub), WVal::Msg(sm)) => {
                                let Raw::Len(sb) = x else {
                                    return Err(ctx(format!("map value message with wire type {w}")));
                                };
                                merge_bytes(schema, sub, sm, sb, depth + 1)?;
                            }
                            _ => val = scalar_from_raw(&fd.ty, w, &x).map_err(&ctx)?,
                        },
                        _ => {}
                    }
                }
                let slot = m.fields.entry(num).or_insert_with(|| WField::Map(vec![]));
                let WField::Map(entries) = slot else {
                    return Err(ctx("internal: slot kind".into()));
                };
                if let Some(e) = entries.iter_mut().find(|e| e.0 == key) {
                    e.1 = val;
                } else {
                    entries.push((key, val));
                }
            }
            Label::Repeated => {
                let slot = m.fields.entry(num).or_insert_with(|| WField::Rep(vec![]));
                let WField::Rep(vals) = slot else {
                    return Err(ctx("internal: slot kind".into()));
                };
                match (&fd.ty, &raw) {
                    (Ty::Message(sub), Raw::Len(sb)) => {
                        let mut sm = WMsg::default();
                        merge_bytes(schema, sub, &mut sm, sb, depth + 1)?;
                        vals.push(WVal::Msg(sm));
                    }
                    (Ty::Message(_), _) => return Err(ctx(format!("message element with wire type {wt}"))),
                    (t, Raw::Len(pb)) if t.packable() => vals.extend(packed_elements(t, pb).map_err(&ctx)?),
                    (t, x) => vals.push(scalar_from_raw(t, wt, x).map_err(&ctx)?),
                }
            }
            Label::Singular | Label::Optional | Label::Oneof(_) => {
                if let Label::Oneof(o) = &fd.label {
                    for other in &def.fields {
                        if other.number != num && other.label == Label::Oneof(o.clone()) {
                            m.fields.remove(&other.number);
                        }
                    }
                }
                match (&fd.ty, &raw) {
                    (Ty::Message(sub), Raw::Len(sb)) => {
                        let slot = m.fields.entry(num).or_insert_with(|| WField::One(WVal::Msg(WMsg::default())));
                        let WField::One(WVal::Msg(sm)) = slot else {
                            return Err(ctx("internal: slot kind".into()));
                        };
                        merge_bytes(schema, sub, sm, sb, depth + 1)?;
                    }
                    (Ty::Message(_), _) => return Err(ctx(format!("message with wire type {wt}"))),
                    (t, x) => {
                        let v = scalar_from_raw(t, wt, x).map_err(&ctx)?;
                        m.fields.insert(num, WField::One(v));
                    }
                }
            }
        }
    }
    Ok(())
}

pub fn decode(schema: &Schema, name: &str, b: &[u8]) -> Result<WMsg, String> {
    let mut m = WMsg::default();
    merge_bytes(schema, name, &mut m, b, 0)?;
    Ok(m)
}

// ---------------------------------------------------------------------------------------------
// proto3 normal form, comparison, rendering

/// Normal form: default-valued singular scalars elided, presence kept for optional / message /
/// oneof members, empty repeated and map fields elided, map entries sorted by key, unknown
/// fields dropped (kept, so that they show up as a difference, when `keep_unknown`). `negzero` counts singular / map-value -0.0 treated as the default.
pub fn normalize(schema: &Schema, name: &str, m: &WMsg, negzero: &mut u64, keep_unknown: bool) -> WMsg {
    let def = schema.msg(name);
    let mut out = WMsg::default();
    if keep_unknown {
        out.unknown = m.unknown.clone();
    }
    let nv = |ty: &Ty, v: &WVal, negzero: &mut u64| -> WVal {
        match (ty, v) {
            (Ty::Message(sub), WVal::Msg(s)) => WVal::Msg(normalize(schema, sub, s, negzero, keep_unknown)),
            _ => v.clone(),
        }
    };
    for (num, f) in &m.fields {
        let Some(fd) = def.field(*num) else { continue };
        match (&fd.label, f) {
            (Label::Singular, WField::One(v)) => {
                if !is_default_scalar(v, negzero) {
                    out.fields.insert(*num, WField::One(nv(&fd.ty, v, negzero)));
                }
            }
            (_, WField::One(v)) => {
                out.fields.insert(*num, WField::One(nv(&fd.ty, v, negzero)));
            }
            (_, WField::Rep(vs)) => {
                if !vs.is_empty() {
                    out.fields.insert(*num, WField::Rep(vs.iter().map(|v| nv(&fd.ty, v, negzero)).collect()));
                }
            }
            (_, WField::Map(es)) => {
                if !es.is_empty() {
                    let mut v: Vec<(WVal, WVal)> = es
                        .iter()
                        .map(|(k, v)| {
                            let v = match v {
                                WVal::F64(b) if *b == 1u64 << 63 => {
                                    *negzero += 1;
                                    WVal::F64(0)
                                }
                                WVal::F32(b) if *b == 1u32 << 31 => {
                                    *negzero += 1;
                                    WVal::F32(0)
                                }
                                other => nv(&fd.ty, other, negzero),
                            };
                            (k.clone(), v)
                        })
                        .collect();
                    v.sort_by(|a, b| a.0.partial_cmp(&b.0).unwrap_or(std::cmp::Ordering::Equal));
                    out.fields.insert(*num, WField::Map(v));
                }
            }
        }
    }
    out
}

pub fn contains_nan(m: &WMsg) -> bool {
    fn v(x: &WVal) -> bool {
        match x {
            WVal::F64(b) => f64::from_bits(*b).is_nan(),
            WVal::F32(b) => f32::from_bits(*b).is_nan(),
            WVal::Msg(m) => contains_nan(m),
            _ => false,
        }
    }
    m.fields.values().any(|f| match f {
        WField::One(x) => v(x),
        WField::Rep(xs) => xs.iter().any(v),
        WField::Map(es) => es.iter().any(|e| v(&e.1)),
    })
}

pub struct Diff {
    /// full name of the message type that owns the differing field
    pub owner: String,
    pub field: String,
    pub what: String,
}

/// first difference between two trees of message `name` (normal forms expected)
pub fn first_diff(schema: &Schema, name: &str, a: &WMsg, b: &WMsg) -> Option<Diff> {
    let def = schema.msg(name);
    if let Some((n, wt)) = b.unknown.first().or(a.unknown.first()) {
        return Some(Diff { owner: name.to_string(), field: format!("<unknown #{n}>"), what: format!("field number {n} (wire type {wt}) is not in the schema") });
    }
    let keys: BTreeSet<u32> = a.fields.keys().chain(b.fields.keys()).cloned().collect();
    for k in keys {
        let fname = def.field(k).map(|f| f.name.clone()).unwrap_or_else(|| format!("#{k}"));
        let here = |what: String| Some(Diff { owner: name.to_string(), field: fname.clone(), what });
        let sub = match def.field(k).map(|f| &f.ty) {
            Some(Ty::Message(s)) => Some(s.as_str()),
            _ => None,
        };
        match (a.fields.get(&k), b.fields.get(&k)) {
            (Some(x), Some(y)) if x == y => {}
            (Some(x), None) => return here(format!("sent {}, absent after the round trip", show_field(x))),
            (None, Some(y)) => return here(format!("not sent, but present after the round trip: {}", show_field(y))),
            (Some(WField::One(WVal::Msg(x))), Some(WField::One(WVal::Msg(y)))) if sub.is_some() => {
                return first_diff(schema, sub.unwrap(), x, y).or_else(|| here("sub-message differs".into()));
            }
            (Some(WField::Rep(xs)), Some(WField::Rep(ys))) if sub.is_some() && xs.len() == ys.len() => {
                for (x, y) in xs.iter().zip(ys) {
                    if let (WVal::Msg(x), WVal::Msg(y)) = (x, y) {
                        if x != y {
                            return first_diff(schema, sub.unwrap(), x, y).or_else(|| here("element differs".into()));
                        }
                    }
                }
                return here("elements differ".into());
            }
            (Some(WField::Map(xs)), Some(WField::Map(ys))) if sub.is_some() && xs.len() == ys.len() && xs.iter().zip(ys).all(|(x, y)| x.0 == y.0) => {
                for (x, y) in xs.iter().zip(ys) {
                    if let (WVal::Msg(x), WVal::Msg(y)) = (&x.1, &y.1) {
                        if x != y {
                            return first_diff(schema, sub.unwrap(), x, y).or_else(|| here("map value differs".into()));
                        }
                    }
                }
                return here("map values differ".into());
            }
            (Some(x), Some(y)) => return here(format!("sent {}, read back {}", show_field(x), show_field(y))),
            (None, None) => {}
        }
    }
    None
}

pub fn show_val(v: &WVal) -> String {
    match v {
        WVal::U(x) => format!("{x}"),
        WVal::I(x) => format!("{x}"),
        WVal::F64(b) => format!("{:?}", f64::from_bits(*b)),
        WVal::F32(b) => format!("{:?}f", f32::from_bits(*b)),
        WVal::Bool(b) => format!("{b}"),
        WVal::Str(s) => format!("{s:?}"),
        WVal::Bytes(s) => format!("0x{}", hex(s)),
        WVal::Msg(m) => {
            let mut parts: Vec<String> = m.fields.iter().map(|(k, f)| format!("{k}:{}", show_field(f))).collect();
            for (n, wt) in &m.unknown {
                parts.push(format!("?{n}/wt{wt}"));
            }
            format!("{{{}}}", parts.join(" "))
        }
    }
}

fn show_field(f: &WField) -> String {
    match f {
        WField::One(v) => show_val(v),
        WField::Rep(vs) => format!("[{}]", vs.iter().map(show_val).collect::<Vec<_>>().join(", ")),
        WField::Map(es) => format!("map{{{}}}", es.iter().map(|(k, v)| format!("{}=>{}", show_val(k), show_val(v))).collect::<Vec<_>>().join(", ")),
    }
}

/// rendering with field names
pub fn render(schema: &Schema, name: &str, m: &WMsg) -> String {
    let def = schema.msg(name);
    let rv = |ty: &Ty, v: &WVal| -> String {
        match (ty, v) {
            (Ty::Message(s), WVal::Msg(x)) => render(schema, s, x),
            _ => show_val(v),
        }
    };
    let mut parts = vec![];
    for (k, f) in &m.fields {
        let (fname, ty) = match def.field(*k) {
            Some(fd) => (fd.name.clone(), fd.ty.clone()),
            None => (format!("#{k}"), Ty::Bytes),
        };
        let body = match f {
            WField::One(v) => rv(&ty, v),
            WField::Rep(vs) => format!("[{}]", vs.iter().map(|v| rv(&ty, v)).collect::<Vec<_>>().join(", ")),
            WField::Map(es) => format!("{{{}}}", es.iter().map(|(k, v)| format!("{}: {}", show_val(k), rv(&ty, v))).collect::<Vec<_>>().join(", ")),
        };
        parts.push(format!("{fname}={body}"));
    }
    for (n, wt) in &m.unknown {
        parts.push(format!("<unknown #{n} wt{wt}>"));
    }
    format!("{}{{{}}}", name.rsplit('.').next().unwrap_or(name), parts.join(" "))
}

pub fn hex(b: &[u8]) -> String {
    let mut s = String::with_capacity(b.len() * 2);
    for x in b {
        s.push_str(&format!("{x:02x}"));
    }
    s
}

pub fn clip(s: &str, n: usize) -> String {
    if s.len() <= n {
        return s.to_string();
    }
    let mut end = n;
    while !s.is_char_boundary(end) {
        end -= 1;
    }
    format!("{}…[{} bytes]", &s[..end], s.len())
}
