//! Monitor state of one worker: counters, fingerprints of distinct non-trivial cases, facets,
//! observations (counted, never verdicts), samples and violations; plus the panic probe.

use serde_json::{json, Value};
use std::cell::RefCell;
use std::collections::{BTreeMap, HashSet};
use std::panic::{catch_unwind, AssertUnwindSafe};

#[derive(Clone, Debug)]
pub struct Violation {
    pub case: u64,
    /// `<oracle id>:<discriminating attributes>` — matched against known_findings.json
    pub signature: String,
    pub detail: String,
}

#[derive(Default)]
pub struct Monitor {
    pub case: u64,
    pub evaluations: u64,
    pub fingerprints: HashSet<u64>,
    pub facets: BTreeMap<String, u64>,
    pub observations: BTreeMap<String, u64>,
    pub samples: Vec<Value>,
    pub violations: Vec<Violation>,
    pub hook_events: u64,
    /// named sets of fingerprints whose sizes are reported (e.g. distinct iteration orders seen)
    pub distinct: BTreeMap<String, HashSet<u64>>,
    pub replay_mode: bool,
    max_samples: usize,
    max_violations: usize,
}

impl Monitor {
    pub fn new() -> Self {
        Monitor {
            max_samples: 3,
            max_violations: 200,
            ..Default::default()
        }
    }
    /// one observed execution of an SDK operation
    pub fn eval(&mut self) {
        self.evaluations += 1;
    }
    pub fn evals(&mut self, n: u64) {
        self.evaluations += n;
    }
    /// a distinct non-trivial case (by the property's stated rule), identified by a fingerprint
    pub fn nontrivial(&mut self, fp: u64) {
        self.fingerprints.insert(fp);
    }
    pub fn facet(&mut self, name: &str) {
        *self.facets.entry(name.to_string()).or_insert(0) += 1;
    }
    pub fn facet_n(&mut self, name: &str, n: u64) {
        *self.facets.entry(name.to_string()).or_insert(0) += n;
    }
    /// something counted but deliberately not judged
    pub fn observe(&mut self, name: &str) {
        *self.observations.entry(name.to_string()).or_insert(0) += 1;
    }
    pub fn distinct(&mut self, set: &str, fp: u64) {
        self.distinct.entry(set.to_string()).or_default().insert(fp);
    }
    pub fn want_sample(&self) -> bool {
        self.samples.len() < self.max_samples
    }
    pub fn sample(&mut self, v: Value) {
        if self.samples.len() < self.max_samples {
            self.samples.push(v);
        }
    }
    pub fn violation(&mut self, signature: impl Into<String>, detail: impl Into<String>) {
        let signature = signature.into();
        let detail = detail.into();
        if self.replay_mode {
            println!("  violation {signature}\n    {}", detail.replace('\n', "\n    "));
        }
        if self.violations.len() < self.max_violations {
            let mut d = detail;
            if d.len() > 6000 {
                let mut n = 6000;
                while !d.is_char_boundary(n) {
                    n -= 1;
                }
                d.truncate(n);
                d.push_str("…[truncated]");
            }
            self.violations.push(Violation {
                case: self.case,
                signature,
                detail: d,
            });
        }
    }
    pub fn to_json(&self) -> Value {
        json!({
            "evaluations": self.evaluations,
            "facets": self.facets,
            "observations": self.observations,
            "samples": self.samples,
            "hook_events": self.hook_events,
            "distinct": self.distinct.iter().map(|(k, v)| (k.clone(), v.iter().cloned().collect::<Vec<u64>>())).collect::<BTreeMap<_, _>>(),
            "violations": self.violations.iter().map(|v| json!({
                "case": v.case, "signature": v.signature, "detail": v.detail
            })).collect::<Vec<_>>(),
        })
    }
}

// ---------------------------------------------------------------------------------------------
// panic probe

#[derive(Clone, Debug)]
pub struct PanicInfo {
    pub message: String,
    pub location: String,
    /// set when the payload is the hooks' BudgetExceeded
    pub budget_site: Option<&'static str>,
}

thread_local! {
    static LAST_PANIC: RefCell<Option<(String, String)>> = const { RefCell::new(None) };
}

pub fn install_panic_hook() {
    std::panic::set_hook(Box::new(|info| {
        let loc = info
            .location()
            .map(|l| format!("{}:{}", l.file(), l.line()))
            .unwrap_or_default();
        let msg = if let Some(s) = info.payload().downcast_ref::<&str>() {
            s.to_string()
        } else if let Some(s) = info.payload().downcast_ref::<String>() {
            s.clone()
        } else if let Some(b) = info.payload().downcast_ref::<ommx::verif::BudgetExceeded>() {
            format!("step budget exceeded at {} (budget {})", b.site, b.budget)
        } else {
            "<non-string panic payload>".to_string()
        };
        LAST_PANIC.with(|p| *p.borrow_mut() = Some((msg, loc)));
    }));
}

/// Run an SDK call; a panic is caught and described instead of unwinding into the harness.
pub fn probe<T>(f: impl FnOnce() -> T) -> Result<T, PanicInfo> {
    LAST_PANIC.with(|p| *p.borrow_mut() = None);
    match catch_unwind(AssertUnwindSafe(f)) {
        Ok(v) => Ok(v),
        Err(payload) => {
            let budget_site = payload
                .downcast_ref::<ommx::verif::BudgetExceeded>()
                .map(|b| b.site);
            let (message, location) = LAST_PANIC
                .with(|p| p.borrow_mut().take())
                .unwrap_or_else(|| ("<unknown panic>".into(), String::new()));
            // the hooks' log must not leak into the next case
            let _ = ommx::verif::drain();
            Err(PanicInfo {
                message,
                location,
                budget_site,
            })
        }
    }
}

/// location with the repository prefix and line number stripped: stable part of a signature
pub fn panic_site(p: &PanicInfo) -> String {
    let file = p.location.split(':').next().unwrap_or("");
    let short = file.rsplit("rust/ommx/src/").next().unwrap_or(file);
    short.to_string()
}

// ---------------------------------------------------------------------------------------------
// fingerprints

pub struct Fp(u64);
impl Fp {
    pub fn new() -> Self {
        Fp(0xcbf2_9ce4_8422_2325)
    }
    pub fn u64(&mut self, x: u64) -> &mut Self {
        for b in x.to_le_bytes() {
            self.0 ^= b as u64;
            self.0 = self.0.wrapping_mul(0x0000_0100_0000_01B3);
        }
        self
    }
    pub fn f64(&mut self, x: f64) -> &mut Self {
        self.u64(x.to_bits())
    }
    pub fn bytes(&mut self, x: &[u8]) -> &mut Self {
        for b in x {
            self.0 ^= *b as u64;
            self.0 = self.0.wrapping_mul(0x0000_0100_0000_01B3);
        }
        self.u64(x.len() as u64)
    }
    pub fn str(&mut self, x: &str) -> &mut Self {
        self.bytes(x.as_bytes())
    }
    pub fn finish(&self) -> u64 {
        // final avalanche
        let mut z = self.0;
        z = (z ^ (z >> 30)).wrapping_mul(0xBF58_476D_1CE4_E5B9);
        z = (z ^ (z >> 27)).wrapping_mul(0x94D0_49BB_1331_11EB);
        z ^ (z >> 31)
    }
}

impl Default for Fp {
    fn default() -> Self {
        Fp::new()
    }
}

/// fingerprint of a prost message (deterministic encoding except for map order, which is
/// neutralised by sorting the encoded map entries at the call sites that need it)
pub fn fp_msg<M: prost::Message>(m: &M) -> u64 {
    let mut f = Fp::new();
    f.bytes(&m.encode_to_vec());
    f.finish()
}

pub fn fp_state(s: &ommx::v1::State) -> u64 {
    let mut v: Vec<(u64, u64)> = s.entries.iter().map(|(k, v)| (*k, v.to_bits())).collect();
    v.sort_unstable();
    let mut f = Fp::new();
    for (k, b) in v {
        f.u64(k).u64(b);
    }
    f.finish()
}
