//! Reference algebra that shares no code with the SDK: polynomials with exact rational
//! coefficients. `canon_*` read the *public message fields* directly (never through SDK
//! iterators). Every finite f64 converts exactly.

use num::bigint::BigInt;
use num::rational::BigRational;
use num::{One, Signed, ToPrimitive, Zero};
use ommx::v1;
use std::collections::{BTreeMap, BTreeSet};

pub type Q = BigRational;

pub fn q(x: f64) -> Q {
    BigRational::from_float(x).unwrap_or_else(|| panic!("harness: non-finite f64 {x} in exact model"))
}

pub fn qi(x: i64) -> Q {
    BigRational::from_integer(BigInt::from(x))
}

pub fn qfrac(n: i64, d: i64) -> Q {
    BigRational::new(BigInt::from(n), BigInt::from(d))
}

pub fn q_to_f64(x: &Q) -> f64 {
    // nearest-ish conversion for reporting and for loose bounds only (never for verdict equality)
    x.to_f64().unwrap_or(f64::NAN)
}

/// exact equality of an f64 with a rational (`-0.0 == 0.0`)
pub fn f64_eq_q(x: f64, e: &Q) -> bool {
    x.is_finite() && &q(x) == e
}

#[derive(Clone, Debug, PartialEq, Eq, Default)]
pub struct Poly {
    /// sorted ids with multiplicity -> non-zero coefficient
    pub terms: BTreeMap<Vec<u64>, Q>,
}

impl Poly {
    pub fn zero() -> Self {
        Poly::default()
    }
    pub fn constant(c: Q) -> Self {
        let mut p = Poly::zero();
        p.add_term(vec![], c);
        p
    }
    pub fn var(id: u64) -> Self {
        let mut p = Poly::zero();
        p.add_term(vec![id], Q::one());
        p
    }
    pub fn add_term(&mut self, mut ids: Vec<u64>, c: Q) {
        if c.is_zero() {
            return;
        }
        ids.sort_unstable();
        let e = self.terms.entry(ids.clone()).or_insert_with(Q::zero);
        *e += c;
        if e.is_zero() {
            self.terms.remove(&ids);
        }
    }
    pub fn is_zero(&self) -> bool {
        self.terms.is_empty()
    }
    pub fn degree(&self) -> usize {
        self.terms.keys().map(|k| k.len()).max().unwrap_or(0)
    }
    pub fn ids(&self) -> BTreeSet<u64> {
        self.terms.keys().flat_map(|k| k.iter().cloned()).collect()
    }
    pub fn coeff(&self, ids: &[u64]) -> Q {
        let mut k = ids.to_vec();
        k.sort_unstable();
        self.terms.get(&k).cloned().unwrap_or_else(Q::zero)
    }
    pub fn add(&self, o: &Poly) -> Poly {
        let mut r = self.clone();
        for (k, c) in &o.terms {
            r.add_term(k.clone(), c.clone());
        }
        r
    }
    pub fn neg(&self) -> Poly {
        Poly {
            terms: self.terms.iter().map(|(k, c)| (k.clone(), -c.clone())).collect(),
        }
    }
    pub fn sub(&self, o: &Poly) -> Poly {
        self.add(&o.neg())
    }
    pub fn scale(&self, s: &Q) -> Poly {
        let mut r = Poly::zero();
        for (k, c) in &self.terms {
            r.add_term(k.clone(), c * s);
        }
        r
    }
    pub fn mul(&self, o: &Poly) -> Poly {
        let mut r = Poly::zero();
        for (k1, c1) in &self.terms {
            for (k2, c2) in &o.terms {
                let mut k = k1.clone();
                k.extend_from_slice(k2);
                r.add_term(k, c1 * c2);
            }
        }
        r
    }
    /// value at a total assignment; None if a variable is missing
    pub fn eval(&self, x: &BTreeMap<u64, Q>) -> Option<Q> {
        let mut s = Q::zero();
        for (k, c) in &self.terms {
            let mut t = c.clone();
            for id in k {
                t *= x.get(id)?;
            }
            s += t;
        }
        Some(s)
    }
    /// substitute values for some variables
    pub fn partial(&self, x: &BTreeMap<u64, Q>) -> Poly {
        let mut r = Poly::zero();
        for (k, c) in &self.terms {
            let mut t = c.clone();
            let mut rest = Vec::new();
            for id in k {
                match x.get(id) {
                    Some(v) => t *= v,
                    None => rest.push(*id),
                }
            }
            r.add_term(rest, t);
        }
        r
    }
    /// simultaneous substitution of polynomials for variables
    pub fn substitute(&self, map: &BTreeMap<u64, Poly>) -> Poly {
        let mut r = Poly::zero();
        for (k, c) in &self.terms {
            let mut t = Poly::constant(c.clone());
            for id in k {
                match map.get(id) {
                    Some(p) => t = t.mul(p),
                    None => t = t.mul(&Poly::var(*id)),
                }
            }
            r = r.add(&t);
        }
        r
    }
    /// reduce with x^k = x (binary variables): keys become duplicate-free sets
    pub fn reduce_binary(&self) -> Poly {
        let mut r = Poly::zero();
        for (k, c) in &self.terms {
            let mut kk = k.clone();
            kk.dedup();
            r.add_term(kk, c.clone());
        }
        r
    }
    /// sum of |c| * prod max(|x|,1): bound on every partial product / partial sum
    pub fn magnitude(&self, x: &BTreeMap<u64, Q>) -> Q {
        let one = Q::one();
        let mut s = Q::zero();
        for (k, c) in &self.terms {
            let mut t = c.abs();
            for id in k {
                if let Some(v) = x.get(id) {
                    let a = v.abs();
                    if a > one {
                        t *= a;
                    }
                }
            }
            s += t;
        }
        s
    }
    /// sum of |c| * prod |x|
    pub fn abs_value(&self, x: &BTreeMap<u64, Q>) -> Q {
        let mut s = Q::zero();
        for (k, c) in &self.terms {
            let mut t = c.abs();
            for id in k {
                if let Some(v) = x.get(id) {
                    t *= v.abs();
                }
            }
            s += t;
        }
        s
    }
    pub fn pretty(&self) -> String {
        if self.terms.is_empty() {
            return "0".into();
        }
        self.terms
            .iter()
            .map(|(k, c)| {
                let ids: Vec<String> = k.iter().map(|i| format!("x{i}")).collect();
                format!("({})*{}", c, if ids.is_empty() { "1".into() } else { ids.join("*") })
            })
            .collect::<Vec<_>>()
            .join(" + ")
    }
}

// ---------------------------------------------------------------------------------------------
// canonical form of messages, read from the public fields only

pub fn canon_linear(l: &v1::Linear) -> Poly {
    let mut p = Poly::zero();
    p.add_term(vec![], q(l.constant));
    for t in &l.terms {
        p.add_term(vec![t.id], q(t.coefficient));
    }
    p
}

pub fn canon_quadratic(qd: &v1::Quadratic) -> Poly {
    let mut p = match &qd.linear {
        Some(l) => canon_linear(l),
        None => Poly::zero(),
    };
    assert!(qd.rows.len() == qd.columns.len() && qd.rows.len() == qd.values.len(), "harness: COO arrays of unequal length");
    for i in 0..qd.rows.len() {
        p.add_term(vec![qd.rows[i], qd.columns[i]], q(qd.values[i]));
    }
    p
}

pub fn canon_polynomial(pl: &v1::Polynomial) -> Poly {
    let mut p = Poly::zero();
    for m in &pl.terms {
        p.add_term(m.ids.clone(), q(m.coefficient));
    }
    p
}

pub fn canon_function(f: &v1::Function) -> Poly {
    use v1::function::Function as F;
    match &f.function {
        None => Poly::zero(),
        Some(F::Constant(c)) => Poly::constant(q(*c)),
        Some(F::Linear(l)) => canon_linear(l),
        Some(F::Quadratic(x)) => canon_quadratic(x),
        Some(F::Polynomial(x)) => canon_polynomial(x),
        #[allow(unreachable_patterns)]
        _ => panic!("harness: unknown function variant"),
    }
}

pub fn canon_opt_function(f: &Option<v1::Function>) -> Poly {
    match f {
        Some(f) => canon_function(f),
        None => Poly::zero(),
    }
}

/// every id that occurs anywhere in the message fields (zero-coefficient terms included)
pub fn occurring_ids(f: &v1::Function) -> BTreeSet<u64> {
    use v1::function::Function as F;
    let mut s = BTreeSet::new();
    let lin = |l: &v1::Linear, s: &mut BTreeSet<u64>| {
        for t in &l.terms {
            s.insert(t.id);
        }
    };
    match &f.function {
        None | Some(F::Constant(_)) => {}
        Some(F::Linear(l)) => lin(l, &mut s),
        Some(F::Quadratic(x)) => {
            if let Some(l) = &x.linear {
                lin(l, &mut s);
            }
            s.extend(x.rows.iter().cloned());
            s.extend(x.columns.iter().cloned());
        }
        Some(F::Polynomial(x)) => {
            for m in &x.terms {
                s.extend(m.ids.iter().cloned());
            }
        }
        #[allow(unreachable_patterns)]
        _ => panic!("harness: unknown function variant"),
    }
    s
}

/// ids that occur in some term whose coefficient is non-zero
pub fn nonzero_term_ids(f: &v1::Function) -> BTreeSet<u64> {
    use v1::function::Function as F;
    let mut s = BTreeSet::new();
    let lin = |l: &v1::Linear, s: &mut BTreeSet<u64>| {
        for t in &l.terms {
            if t.coefficient != 0.0 {
                s.insert(t.id);
            }
        }
    };
    match &f.function {
        None | Some(F::Constant(_)) => {}
        Some(F::Linear(l)) => lin(l, &mut s),
        Some(F::Quadratic(x)) => {
            if let Some(l) = &x.linear {
                lin(l, &mut s);
            }
            for i in 0..x.rows.len() {
                if x.values[i] != 0.0 {
                    s.insert(x.rows[i]);
                    s.insert(x.columns[i]);
                }
            }
        }
        Some(F::Polynomial(x)) => {
            for m in &x.terms {
                if m.coefficient != 0.0 {
                    s.extend(m.ids.iter().cloned());
                }
            }
        }
        #[allow(unreachable_patterns)]
        _ => panic!("harness: unknown function variant"),
    }
    s
}

/// number of stored terms of a message (used for rounding bounds)
pub fn term_count(f: &v1::Function) -> usize {
    use v1::function::Function as F;
    match &f.function {
        None => 0,
        Some(F::Constant(_)) => 1,
        Some(F::Linear(l)) => l.terms.len() + 1,
        Some(F::Quadratic(x)) => x.values.len() + x.linear.as_ref().map_or(0, |l| l.terms.len() + 1),
        Some(F::Polynomial(x)) => x.terms.len(),
        #[allow(unreachable_patterns)]
        _ => 0,
    }
}

pub fn state_q(s: &v1::State) -> BTreeMap<u64, Q> {
    s.entries.iter().map(|(k, v)| (*k, q(*v))).collect()
}

pub fn map_q(s: &BTreeMap<u64, f64>) -> BTreeMap<u64, Q> {
    s.iter().map(|(k, v)| (*k, q(*v))).collect()
}

// ---------------------------------------------------------------------------------------------
// numeric verdicts

/// How an f64 produced by the SDK is compared with the exact value.
#[derive(Clone, Debug)]
pub enum Tol {
    /// all operations certified exact: bit-equality required
    Exact,
    /// |sdk - exact| <= bound (rigorous rounding bound, computed by the caller)
    Abs(Q),
}

pub fn two_pow(e: i32) -> Q {
    if e >= 0 {
        Q::from_integer(BigInt::one() << (e as usize))
    } else {
        Q::new(BigInt::one(), BigInt::one() << ((-e) as usize))
    }
}

/// gamma_k = k*u / (1 - k*u), u = 2^-53
pub fn gamma(k: usize) -> Q {
    let ku = Q::from_integer(BigInt::from(k as u64)) * two_pow(-53);
    &ku / (Q::one() - &ku)
}

pub fn eps() -> Q {
    q(f64::EPSILON)
}

pub fn within(sdk: f64, exact: &Q, tol: &Tol) -> bool {
    if !sdk.is_finite() {
        return false;
    }
    match tol {
        Tol::Exact => &q(sdk) == exact,
        Tol::Abs(b) => (q(sdk) - exact).abs() <= *b,
    }
}

/// Dyadic certificate: if every input is a multiple of 2^-`frac_bits` per factor, at most
/// `factors` factors meet in a product, and `magnitude` bounds every partial sum / product,
/// then all IEEE operations on these inputs are exact.
pub fn dyadic_exact(magnitude: &Q, frac_bits_total: u32) -> bool {
    // magnitude * 2^frac_bits_total < 2^53
    magnitude * two_pow(frac_bits_total as i32) < two_pow(53)
}

/// is x a multiple of 2^-bits with |x| < 2^20 ?
pub fn is_small_dyadic(x: f64, bits: u32) -> bool {
    if !x.is_finite() || x.abs() >= 1048576.0 {
        return false;
    }
    let s = x * (1u64 << bits) as f64;
    s == s.trunc()
}

// ---------------------------------------------------------------------------------------------
// stored terms and the dyadic certificate

/// every stored term of a message, as written (no merging)
pub fn stored_terms(f: &v1::Function) -> Vec<(Vec<u64>, f64)> {
    use v1::function::Function as F;
    let mut out = vec![];
    let lin = |l: &v1::Linear, out: &mut Vec<(Vec<u64>, f64)>| {
        out.push((vec![], l.constant));
        for t in &l.terms {
            out.push((vec![t.id], t.coefficient));
        }
    };
    match &f.function {
        None => {}
        Some(F::Constant(c)) => out.push((vec![], *c)),
        Some(F::Linear(l)) => lin(l, &mut out),
        Some(F::Quadratic(x)) => {
            if let Some(l) = &x.linear {
                lin(l, &mut out);
            }
            for i in 0..x.rows.len() {
                out.push((vec![x.rows[i], x.columns[i]], x.values[i]));
            }
        }
        Some(F::Polynomial(x)) => {
            for m in &x.terms {
                out.push((m.ids.clone(), m.coefficient));
            }
        }
        #[allow(unreachable_patterns)]
        _ => {}
    }
    out
}

/// smallest b with x * 2^b integral (None if more than 40 bits are needed)
pub fn dyadic_bits(x: f64) -> Option<u32> {
    if !x.is_finite() {
        return None;
    }
    let mut y = x;
    for b in 0..=40u32 {
        if y == y.trunc() && y.abs() < 9.0e15 {
            return Some(b);
        }
        y *= 2.0;
    }
    None
}

/// Certificate that evaluating the stored terms at `x` in f64 is exact in every association
/// order: all partial products and sums are multiples of 2^-B below 2^53-B.
pub fn eval_is_exact(terms: &[(Vec<u64>, f64)], x: &BTreeMap<u64, f64>) -> bool {
    terms_exact(terms, x, false)
}

/// same certificate for partial evaluation: ids without a value stay symbolic
pub fn partial_is_exact(terms: &[(Vec<u64>, f64)], x: &BTreeMap<u64, f64>) -> bool {
    terms_exact(terms, x, true)
}

fn terms_exact(terms: &[(Vec<u64>, f64)], x: &BTreeMap<u64, f64>, allow_missing: bool) -> bool {
    let mut max_bits = 0u32;
    let mut mag = 0.0f64; // upper bound computed in f64 with slack
    for (ids, c) in terms {
        let Some(mut b) = dyadic_bits(*c) else { return false };
        let mut m = c.abs();
        for id in ids {
            let Some(v) = x.get(id) else {
                if allow_missing {
                    continue;
                }
                return false;
            };
            let Some(bv) = dyadic_bits(*v) else { return false };
            b += bv;
            m *= v.abs().max(1.0);
        }
        max_bits = max_bits.max(b);
        mag += m;
    }
    max_bits <= 40 && mag * 2f64.powi(max_bits as i32) * 1.0001 < 2f64.powi(52)
}

/// polynomial of absolute values of the STORED terms (no cancellation between repeated terms):
/// the right magnitude for rounding bounds
pub fn abs_stored_poly(f: &v1::Function) -> Poly {
    let mut p = Poly::zero();
    for (ids, c) in stored_terms(f) {
        p.add_term(ids, q(c).abs());
    }
    p
}

/// What the documented skipping of coefficients <= EPSILON *before* substitution may lose in one
/// partial evaluation: per remaining key, the sum of |c|*prod|x_fixed| over the stored terms whose
/// own coefficient is <= EPSILON.
pub fn tiny_terms_partial(f: &v1::Function, x_abs: &BTreeMap<u64, Q>) -> Poly {
    let mut p = Poly::zero();
    let e = eps();
    for (ids, c) in stored_terms(f) {
        let ca = q(c).abs();
        if ca.is_zero() || ca > e {
            continue;
        }
        let mut t = ca;
        let mut rest = vec![];
        for id in ids {
            match x_abs.get(&id) {
                Some(v) => t *= v,
                None => rest.push(id),
            }
        }
        p.add_term(rest, t);
    }
    p
}
